"""Corpus loader: parses /repo's Python sources (or an in-memory file map) and
builds module / class / function tables, including nested functions.

Nothing under /repo is imported or executed."""
from __future__ import annotations

import ast
import os
from typing import Dict, List, Optional


class AnalysisError(Exception):
    """An analysis precondition failed (missing anchor, unparsable module ...).
    Converted to `ANALYSIS-ERROR` / exit 2 by check.py -- never a pass, never a
    VIOLATION."""


SHORT = {
    'repository': 'replicat/repository.py',
    'adapters': 'replicat/utils/adapters.py',
    'utils': 'replicat/utils/__init__.py',
    'cli': 'replicat/utils/cli.py',
    'config': 'replicat/utils/config.py',
    'fs': 'replicat/utils/fs.py',
    'compat': 'replicat/utils/compat.py',
    'main': 'replicat/__main__.py',
    'exceptions': 'replicat/exceptions.py',
    'base': 'replicat/backends/base.py',
    'local': 'replicat/backends/local.py',
    's3c': 'replicat/backends/s3c.py',
    's3': 'replicat/backends/s3.py',
    'b2': 'replicat/backends/b2.py',
}

FuncNode = (ast.FunctionDef, ast.AsyncFunctionDef)


class FuncInfo:
    def __init__(self, module, node, qual, cls=None, parent=None):
        self.module = module  # Module
        self.node = node
        self.qual = qual  # e.g. Repository.snapshot.<locals>._worker
        self.cls = cls  # ClassInfo or None (for methods; nested funcs inherit)
        self.parent = parent  # enclosing FuncInfo
        self.nested: Dict[str, FuncInfo] = {}
        self.is_async = isinstance(node, ast.AsyncFunctionDef)

    @property
    def name(self):
        return self.node.name

    @property
    def key(self):
        return f'{self.module.rel}::{self.qual}'

    @property
    def loc(self):
        return f'{self.module.rel}:{self.node.lineno}'

    def decorator_names(self):
        from .astutil import dotted

        out = []
        for d in self.node.decorator_list:
            t = d.func if isinstance(d, ast.Call) else d
            out.append(dotted(t) or ast.unparse(t))
        return out

    @property
    def is_generator(self):
        from .astutil import walk_local

        return any(
            isinstance(n, (ast.Yield, ast.YieldFrom)) for n in walk_local(self.node)
        )

    def all_nested(self):
        for f in self.nested.values():
            yield f
            yield from f.all_nested()

    def __repr__(self):
        return f'<Func {self.key}>'


class ClassInfo:
    def __init__(self, module, node):
        self.module = module
        self.node = node
        self.name = node.name
        self.methods: Dict[str, FuncInfo] = {}
        self.consts: Dict[str, ast.AST] = {}
        self.base_exprs = node.bases

    def __repr__(self):
        return f'<Class {self.module.rel}::{self.name}>'


class Module:
    def __init__(self, rel, src, tree=None):
        self.rel = rel
        self.src = src
        if tree is not None:
            self.tree = tree
        else:
            try:
                self.tree = ast.parse(src, filename=rel)
            except SyntaxError as e:
                raise AnalysisError(f'cannot parse {rel}: {e}')
        self.classes: Dict[str, ClassInfo] = {}
        self.functions: Dict[str, FuncInfo] = {}  # top-level
        self.all_functions: List[FuncInfo] = []
        self.imports: Dict[str, str] = {}  # local alias -> dotted origin
        self.assigns: Dict[str, ast.AST] = {}  # module-level NAME = expr
        self._index()

    def _index(self):
        for n in ast.walk(self.tree):
            for c in ast.iter_child_nodes(n):
                c._parent = n
        self.tree._parent = None
        for st in self.tree.body:
            self._index_stmt(st)

    def _index_stmt(self, st):
        if isinstance(st, (ast.Import, ast.ImportFrom)):
            self._index_import(st)
        elif isinstance(st, ast.ClassDef):
            ci = ClassInfo(self, st)
            self.classes[st.name] = ci
            for b in st.body:
                if isinstance(b, FuncNode):
                    fi = FuncInfo(self, b, f'{st.name}.{b.name}', cls=ci)
                    # properties with setters etc.: keep the first definition
                    ci.methods.setdefault(b.name, fi)
                    self.all_functions.append(fi)
                    self._index_nested(fi)
                elif isinstance(b, ast.Assign) and len(b.targets) == 1 and isinstance(
                    b.targets[0], ast.Name
                ):
                    ci.consts[b.targets[0].id] = b.value
                elif isinstance(b, ast.AnnAssign) and isinstance(b.target, ast.Name):
                    if b.value is not None:
                        ci.consts[b.target.id] = b.value
        elif isinstance(st, FuncNode):
            fi = FuncInfo(self, st, st.name)
            self.functions[st.name] = fi
            self.all_functions.append(fi)
            self._index_nested(fi)
        elif isinstance(st, ast.Assign):
            for t in st.targets:
                if isinstance(t, ast.Name):
                    self.assigns[t.id] = st.value
        elif isinstance(st, (ast.If, ast.Try)):
            # module-level conditional definitions (compat.py)
            for sub in ast.iter_child_nodes(st):
                if isinstance(sub, ast.stmt):
                    self._index_stmt(sub)
                elif isinstance(sub, ast.ExceptHandler):
                    for s2 in sub.body:
                        self._index_stmt(s2)

    def _index_import(self, st):
        pkg = self.rel[:-3].replace('/', '.')
        if pkg.endswith('.__init__'):
            pkg_parts = pkg.split('.')[:-1]
        else:
            pkg_parts = pkg.split('.')[:-1]
        if isinstance(st, ast.Import):
            for a in st.names:
                self.imports[a.asname or a.name.split('.')[0]] = (
                    a.name if a.asname else a.name.split('.')[0]
                )
        else:
            if st.level:
                base = pkg_parts[: len(pkg_parts) - (st.level - 1)]
                mod = '.'.join(base + ([st.module] if st.module else []))
            else:
                mod = st.module or ''
            for a in st.names:
                self.imports[a.asname or a.name] = f'{mod}.{a.name}' if mod else a.name

    def _index_nested(self, fi: FuncInfo):
        from .astutil import walk_local

        for n in walk_local(fi.node):
            if isinstance(n, FuncNode) and n is not fi.node:
                sub = FuncInfo(
                    self, n, f'{fi.qual}.<locals>.{n.name}', cls=fi.cls, parent=fi
                )
                fi.nested[n.name] = sub
                self.all_functions.append(sub)
                self._index_nested(sub)


class Corpus:
    def __init__(self, repo='/repo', filemap: Optional[Dict[str, str]] = None, normalize=True):
        self.repo = repo
        self.modules: Dict[str, Module] = {}
        self.extra_files: Dict[str, str] = {}
        files = {}
        if repo is not None:
            root = os.path.join(repo, 'replicat')
            for dp, dn, fn in os.walk(root):
                dn[:] = sorted(d for d in dn if d not in ('tests', '__pycache__'))
                for f in sorted(fn):
                    if f.endswith('.py'):
                        p = os.path.join(dp, f)
                        rel = os.path.relpath(p, repo)
                        with open(p, encoding='utf-8') as fh:
                            files[rel] = fh.read()
            for extra in ('src/adapters.cpp', 'setup.py', 'README.md'):
                p = os.path.join(repo, extra)
                if os.path.exists(p):
                    with open(p, encoding='utf-8') as fh:
                        self.extra_files[extra] = fh.read()
        if filemap:
            for k, v in filemap.items():
                if v is None:
                    files.pop(k, None)
                    self.extra_files.pop(k, None)
                elif k.endswith('.py') and k.startswith('replicat/'):
                    files[k] = v
                else:
                    self.extra_files[k] = v
        self.files = files
        trees = {}
        for rel, src in sorted(files.items()):
            try:
                trees[rel] = ast.parse(src, filename=rel)
            except SyntaxError as e:
                raise AnalysisError(f'cannot parse {rel}: {e}')
        self.normalization = None
        if normalize and not os.environ.get('REPLICAT_VERIF_RAW_AST'):
            from .normalize import normalize as _normalize

            try:
                self.normalization = _normalize(trees)
            except RecursionError as e:  # pragma: no cover
                raise AnalysisError(f'normalisation failed: {e}')
        for rel, src in sorted(files.items()):
            self.modules[rel] = Module(rel, src, trees[rel])
        if not self.modules:
            raise AnalysisError('no modules parsed')

    # ---- lookup helpers -------------------------------------------------
    def module(self, short) -> Module:
        rel = SHORT.get(short, short)
        try:
            return self.modules[rel]
        except KeyError:
            raise AnalysisError(f'anchor module missing: {rel}')

    def cls(self, short, name) -> ClassInfo:
        m = self.module(short)
        try:
            return m.classes[name]
        except KeyError:
            raise AnalysisError(f'anchor class missing: {m.rel}::{name}')

    def func(self, short, qual) -> FuncInfo:
        m = self.module(short)
        parts = qual.split('.')
        if parts[0] in m.classes:
            ci = m.classes[parts[0]]
            cur = self.method(ci, parts[1]) if len(parts) > 1 else None
            rest = parts[2:]
        else:
            cur = m.functions.get(parts[0])
            rest = parts[1:]
        for p in rest:
            if cur is None:
                break
            cur = cur.nested.get(p)
        if cur is None:
            raise AnalysisError(f'anchor function missing: {m.rel}::{qual}')
        return cur

    def has_func(self, short, qual) -> bool:
        try:
            self.func(short, qual)
            return True
        except AnalysisError:
            return False

    def resolve_class_expr(self, module: Module, expr) -> Optional[ClassInfo]:
        """Resolve a base-class expression to a ClassInfo in the corpus."""
        from .astutil import dotted

        d = dotted(expr)
        if d is None:
            return None
        head, _, rest = d.partition('.')
        if not rest and head in module.classes:
            return module.classes[head]
        origin = module.imports.get(head)
        if origin is None:
            # module-level alias (Client = S3Compatible)
            if not rest and head in module.assigns:
                return self.resolve_class_expr(module, module.assigns[head])
            return None
        full = origin + ('.' + rest if rest else '')
        return self.class_by_dotted(full)

    def class_by_dotted(self, full) -> Optional[ClassInfo]:
        # full like replicat.backends.s3c.Client
        mod, _, name = full.rpartition('.')
        for cand in (mod.replace('.', '/') + '.py', mod.replace('.', '/') + '/__init__.py'):
            m = self.modules.get(cand)
            if m is None:
                continue
            if name in m.classes:
                return m.classes[name]
            if name in m.assigns:
                return self.resolve_class_expr(m, m.assigns[name])
            if name in m.imports:
                return self.class_by_dotted(m.imports[name])
        return None

    def mro(self, ci: ClassInfo) -> List[ClassInfo]:
        out, seen = [], set()

        def rec(c):
            if id(c) in seen:
                return
            seen.add(id(c))
            out.append(c)
            for b in c.base_exprs:
                bc = self.resolve_class_expr(c.module, b)
                if bc is not None:
                    rec(bc)

        rec(ci)
        return out

    def method(self, ci: ClassInfo, name) -> Optional[FuncInfo]:
        for c in self.mro(ci):
            if name in c.methods:
                return c.methods[name]
        return None

    def class_const(self, ci: ClassInfo, name):
        for c in self.mro(ci):
            if name in c.consts:
                return c.consts[name]
        return None

    def subclasses_of(self, base: ClassInfo) -> List[ClassInfo]:
        out = []
        for m in self.modules.values():
            for c in m.classes.values():
                if c is not base and base in self.mro(c):
                    out.append(c)
        return out

    def all_functions(self):
        for m in self.modules.values():
            yield from m.all_functions

    def func_of_node(self, module: Module, node) -> Optional[FuncInfo]:
        """Innermost FuncInfo whose def encloses `node`."""
        cur = node
        while cur is not None:
            if isinstance(cur, FuncNode):
                for f in module.all_functions:
                    if f.node is cur:
                        return f
            cur = getattr(cur, '_parent', None)
        return None
