"""Statement-level control-flow graph with exception edges, duplicated
`finally` bodies, `with` enter/exit nodes and normal-completion (`ok`) nodes,
plus dominators and path queries.

Node kinds
  entry, exit (normal return / fall off), raise_exit (exception leaves function)
  stmt      a simple statement (or the header of a compound one)
  ok        normal completion of a may-raise stmt
  test      evaluation of an if/while test; true/false edge-nodes follow it
  true, false   branch edge nodes (for `for`: true = got an item, false = exhausted)
  loop      loop head
  with_enter / with_exit / with_exit_exc
  dispatch  exception dispatch of a try
  handler   entry of an except clause
  finally   entry of one copy of a finally body (label says which continuation)
  join
"""
from __future__ import annotations

import ast
from collections import deque
from typing import Dict, List, Optional

from .astutil import dotted, handler_catches, walk_stmt_exprs


class Node:
    __slots__ = ('id', 'kind', 'ast', 'label', 'succ', 'pred')

    def __init__(self, nid, kind, astnode=None, label=''):
        self.id = nid
        self.kind = kind
        self.ast = astnode
        self.label = label
        self.succ = []  # (node, edgekind) edgekind in normal|exc
        self.pred = []

    @property
    def lineno(self):
        return getattr(self.ast, 'lineno', 0) if self.ast is not None else 0

    def __repr__(self):
        return f'<{self.id}:{self.kind}@{self.lineno}{" " + self.label if self.label else ""}>'


class _Frame:
    def __init__(self, kind, parent, **kw):
        self.kind = kind
        self.parent = parent
        self.__dict__.update(kw)
        self.cache = {}


def stmt_may_raise(stmt) -> bool:
    for n in walk_stmt_exprs(stmt):
        if isinstance(n, (ast.Call, ast.Await, ast.Yield, ast.YieldFrom, ast.Raise, ast.Assert)):
            return True
        if isinstance(n, ast.Subscript):
            return True
        if isinstance(n, (ast.ListComp, ast.SetComp, ast.DictComp, ast.GeneratorExp)):
            return True
    return isinstance(stmt, (ast.Raise, ast.Assert, ast.Import, ast.ImportFrom))


SUPPRESS_NAMES = {'suppress', 'contextlib.suppress'}


class CFG:
    def __init__(self, func_node):
        self.func = func_node
        self.nodes: List[Node] = []
        self.entry = self._new('entry')
        self.exit = self._new('exit')
        self.raise_exit = self._new('raise_exit')
        self.by_ast: Dict[int, List[Node]] = {}
        root = _Frame('func', None)
        outs = self._seq(func_node.body, [self.entry], root)
        self._link(outs, self.exit)
        self._dom = None
        self._pdom = None

    # ---- construction --------------------------------------------------
    def _new(self, kind, astnode=None, label=''):
        n = Node(len(self.nodes), kind, astnode, label)
        self.nodes.append(n)
        if astnode is not None:
            self.by_ast.setdefault(id(astnode), []).append(n)
        return n

    def _edge(self, a, b, kind='normal'):
        for s, k in a.succ:
            if s is b and k == kind:
                return
        a.succ.append((b, kind))
        b.pred.append((a, kind))

    def _link(self, preds, node, kind='normal'):
        for p in preds:
            self._edge(p, node, kind)

    # continuation resolution through frames ---------------------------------
    def _exc_entry(self, fr) -> Node:
        if 'exc' in fr.cache:
            return fr.cache['exc']
        if fr.kind == 'func':
            n = self.raise_exit
        elif fr.kind == 'try':
            n = self._new('dispatch', fr.node)
            fr.cache['exc'] = n
            catch_all = False
            for h, entry in fr.handlers:
                self._edge(n, entry, 'exc')
                names = handler_catches(h)
                if not names or any(x.rsplit('.', 1)[-1] == 'BaseException' for x in names):
                    catch_all = True
                    break
            if not catch_all:
                self._edge(n, self._exc_entry(fr.parent), 'exc')
            return n
        elif fr.kind == 'finally':
            n = self._finally_copy(fr, 'exc', lambda: self._exc_entry(fr.parent))
        elif fr.kind == 'with':
            n = self._new('with_exit_exc', fr.node)
            fr.cache['exc'] = n
            self._edge(n, self._exc_entry(fr.parent), 'exc')
            if fr.suppress:
                self._edge(n, fr.exit_node, 'normal')
            return n
        else:  # loop
            n = self._exc_entry(fr.parent)
        fr.cache['exc'] = n
        return n

    def _finally_copy(self, fr, tag, cont):
        key = 'copy_' + tag
        if key in fr.cache:
            return fr.cache[key]
        entry = self._new('finally', fr.node, tag)
        fr.cache[key] = entry
        outs = self._seq(fr.node.finalbody, [entry], fr.parent)
        target = cont()
        self._link(outs, target, 'exc' if tag == 'exc' else 'normal')
        return entry

    def _ret_entry(self, fr) -> Node:
        if 'ret' in fr.cache:
            return fr.cache['ret']
        if fr.kind == 'func':
            n = self.exit
        elif fr.kind == 'finally':
            n = self._finally_copy(fr, 'ret', lambda: self._ret_entry(fr.parent))
        elif fr.kind == 'with':
            n = self._new('with_exit', fr.node, 'ret')
            fr.cache['ret'] = n
            self._edge(n, self._ret_entry(fr.parent))
            return n
        else:
            n = self._ret_entry(fr.parent)
        fr.cache['ret'] = n
        return n

    def _loop_entry(self, fr, which) -> Node:
        key = which
        if key in fr.cache:
            return fr.cache[key]
        if fr.kind == 'loop':
            n = fr.after if which == 'brk' else fr.head
        elif fr.kind == 'finally':
            n = self._finally_copy(fr, which, lambda: self._loop_entry(fr.parent, which))
        elif fr.kind == 'with':
            n = self._new('with_exit', fr.node, which)
            fr.cache[key] = n
            self._edge(n, self._loop_entry(fr.parent, which))
            return n
        elif fr.kind == 'func':
            raise SyntaxError('break/continue outside loop')
        else:
            n = self._loop_entry(fr.parent, which)
        fr.cache[key] = n
        return n

    # statements -----------------------------------------------------------
    def _seq(self, stmts, preds, fr):
        for st in stmts:
            preds = self._stmt(st, preds, fr)
        return preds

    def _simple(self, st, preds, fr, kind='stmt', force_raise=False):
        n = self._new(kind, st)
        self._link(preds, n)
        if force_raise or stmt_may_raise(st):
            self._edge(n, self._exc_entry(fr), 'exc')
            ok = self._new('ok', st)
            self._edge(n, ok)
            return n, [ok]
        return n, [n]

    def _stmt(self, st, preds, fr):
        if not preds:
            # unreachable code: still build nodes (kept disconnected)
            pass
        if isinstance(st, ast.Return):
            n, outs = self._simple(st, preds, fr)
            self._link(outs, self._ret_entry(fr))
            return []
        if isinstance(st, ast.Raise):
            n = self._new('stmt', st)
            self._link(preds, n)
            self._edge(n, self._exc_entry(fr), 'exc')
            return []
        if isinstance(st, ast.Break):
            n = self._new('stmt', st)
            self._link(preds, n)
            self._edge(n, self._loop_entry(fr, 'brk'))
            return []
        if isinstance(st, ast.Continue):
            n = self._new('stmt', st)
            self._link(preds, n)
            self._edge(n, self._loop_entry(fr, 'cont'))
            return []
        if isinstance(st, ast.If):
            return self._if(st, preds, fr)
        if isinstance(st, ast.While):
            return self._while(st, preds, fr)
        if isinstance(st, (ast.For, ast.AsyncFor)):
            return self._for(st, preds, fr)
        if isinstance(st, ast.Try):
            return self._try(st, preds, fr)
        if isinstance(st, (ast.With, ast.AsyncWith)):
            return self._with(st, preds, fr)
        if hasattr(ast, 'Match') and isinstance(st, ast.Match):
            n, outs = self._simple(st, preds, fr, force_raise=True)
            res = list(outs)
            for case in st.cases:
                res += self._seq(case.body, outs, fr)
            return res
        n, outs = self._simple(st, preds, fr)
        return outs

    def _test(self, expr_owner, test, preds, fr):
        t = self._new('test', expr_owner)
        self._link(preds, t)
        raises = any(
            isinstance(n, (ast.Call, ast.Await, ast.Subscript)) for n in ast.walk(test)
        )
        if raises:
            self._edge(t, self._exc_entry(fr), 'exc')
        tn = self._new('true', expr_owner)
        fn = self._new('false', expr_owner)
        const = test.value if isinstance(test, ast.Constant) else None
        if not (isinstance(test, ast.Constant) and not const):
            self._edge(t, tn)
        if not (isinstance(test, ast.Constant) and const):
            self._edge(t, fn)
        return tn, fn

    def _if(self, st, preds, fr):
        tn, fn = self._test(st, st.test, preds, fr)
        outs = self._seq(st.body, [tn], fr)
        outs += self._seq(st.orelse, [fn], fr)
        return outs

    def _while(self, st, preds, fr):
        head = self._new('loop', st)
        self._link(preds, head)
        after = self._new('join', st, 'after-loop')
        lf = _Frame('loop', fr, head=head, after=after, node=st)
        tn, fn = self._test(st, st.test, [head], fr)
        outs = self._seq(st.body, [tn], lf)
        self._link(outs, head)
        outs_else = self._seq(st.orelse, [fn], fr)
        self._link(outs_else, after)
        return [after]

    def _for(self, st, preds, fr):
        it = self._new('stmt', st, 'iter')
        self._link(preds, it)
        self._edge(it, self._exc_entry(fr), 'exc')
        head = self._new('loop', st)
        self._edge(it, head)
        self._edge(head, self._exc_entry(fr), 'exc')  # next() may raise
        after = self._new('join', st, 'after-loop')
        lf = _Frame('loop', fr, head=head, after=after, node=st)
        tn = self._new('true', st)
        fn = self._new('false', st)
        self._edge(head, tn)
        self._edge(head, fn)
        outs = self._seq(st.body, [tn], lf)
        self._link(outs, head)
        outs_else = self._seq(st.orelse, [fn], fr)
        self._link(outs_else, after)
        return [after]

    def _try(self, st, preds, fr):
        base = _Frame('finally', fr, node=st) if st.finalbody else fr
        handlers = [(h, self._new('handler', h)) for h in st.handlers]
        tf = _Frame('try', base, node=st, handlers=handlers) if handlers else base
        outs = self._seq(st.body, preds, tf)
        outs = self._seq(st.orelse, outs, base)
        for h, entry in handlers:
            outs += self._seq(h.body, [entry], base)
        if st.finalbody:
            entry = self._new('finally', st, 'normal')
            self._link(outs, entry)
            outs = self._seq(st.finalbody, [entry], fr)
        return outs

    def _with(self, st, preds, fr):
        enter = self._new('with_enter', st)
        self._link(preds, enter)
        self._edge(enter, self._exc_entry(fr), 'exc')
        ok = self._new('ok', st)
        self._edge(enter, ok)
        exit_node = self._new('with_exit', st, 'normal')
        suppress = False
        for item in st.items:
            ce = item.context_expr
            if isinstance(ce, ast.Call) and (dotted(ce.func) in SUPPRESS_NAMES):
                suppress = True
        wf = _Frame('with', fr, node=st, exit_node=exit_node, suppress=suppress)
        outs = self._seq(st.body, [ok], wf)
        self._link(outs, exit_node)
        return [exit_node]

    # ---- queries ---------------------------------------------------------
    def nodes_of(self, astnode, kind=None) -> List[Node]:
        ns = self.by_ast.get(id(astnode), [])
        if kind is None:
            return list(ns)
        if isinstance(kind, str):
            kind = (kind,)
        return [n for n in ns if n.kind in kind]

    def reachable_from(self, src, avoid=(), kinds=('normal', 'exc')):
        avoid = {id(a) for a in avoid}
        seen = {id(src)}
        out = [src]
        dq = deque([src])
        while dq:
            n = dq.popleft()
            for s, k in n.succ:
                if k not in kinds or id(s) in seen or id(s) in avoid:
                    continue
                seen.add(id(s))
                out.append(s)
                dq.append(s)
        return out

    def path(self, src, dst_set, avoid=(), kinds=('normal', 'exc')) -> Optional[List[Node]]:
        """Shortest path from src to any node of dst_set not passing through
        nodes in avoid (src itself may be in avoid only if it is not counted)."""
        dst = {id(d) for d in dst_set}
        av = {id(a) for a in avoid}
        if id(src) in av:
            return None
        prev = {id(src): None}
        byid = {id(src): src}
        dq = deque([src])
        while dq:
            n = dq.popleft()
            if id(n) in dst and n is not src:
                out = []
                cur = n
                while cur is not None:
                    out.append(cur)
                    cur = prev[id(cur)]
                return list(reversed(out))
            for s, k in n.succ:
                if k not in kinds or id(s) in prev or id(s) in av:
                    continue
                prev[id(s)] = n
                byid[id(s)] = s
                dq.append(s)
        if id(src) in dst:
            return [src]
        return None

    def _reach_set(self):
        return self.reachable_from(self.entry)

    def dominators(self):
        if self._dom is not None:
            return self._dom
        nodes = self._reach_set()
        idx = {id(n): i for i, n in enumerate(nodes)}
        full = (1 << len(nodes)) - 1
        dom = [full] * len(nodes)
        dom[0] = 1
        changed = True
        order = list(range(1, len(nodes)))
        while changed:
            changed = False
            for i in order:
                n = nodes[i]
                acc = full
                for p, _k in n.pred:
                    j = idx.get(id(p))
                    if j is not None:
                        acc &= dom[j]
                acc |= 1 << i
                if acc != dom[i]:
                    dom[i] = acc
                    changed = True
        self._dom = (nodes, idx, dom)
        return self._dom

    def dominates(self, a: Node, b: Node) -> bool:
        nodes, idx, dom = self.dominators()
        ia, ib = idx.get(id(a)), idx.get(id(b))
        if ib is None:
            return True  # b unreachable: vacuous
        if ia is None:
            return False
        return bool(dom[ib] >> ia & 1)

    def any_dominates(self, a_nodes, b: Node) -> bool:
        return any(self.dominates(a, b) for a in a_nodes)

    def set_dominates(self, a_nodes, b: Node) -> bool:
        """True iff every path entry -> b passes through at least one of a_nodes."""
        nodes, idx, _ = self.dominators()
        if id(b) not in idx:
            return True
        if any(a is b for a in a_nodes):
            return True
        return self.path(self.entry, [b], avoid=a_nodes) is None

    def is_reachable(self, n: Node) -> bool:
        nodes, idx, _ = self.dominators()
        return id(n) in idx

    def describe_path(self, path, module=None) -> List[str]:
        out = []
        for n in path:
            where = f'{module.rel}:{n.lineno}' if module is not None and n.lineno else f'line {n.lineno}'
            txt = ''
            if n.ast is not None and n.kind in ('stmt', 'ok', 'test', 'with_enter'):
                try:
                    first = ast.unparse(n.ast).splitlines()[0]
                except Exception:
                    first = ''
                txt = ' ' + first[:70]
            out.append(f'{n.kind}{("(" + n.label + ")") if n.label else ""} {where}{txt}')
        return out


_CFG_CACHE: Dict[int, CFG] = {}


def cfg_of(func_node) -> CFG:
    c = _CFG_CACHE.get(id(func_node))
    if c is None or c.func is not func_node:
        c = CFG(func_node)
        _CFG_CACHE[id(func_node)] = c
    return c


def enumerate_paths(cfg: CFG, src: Node, terminal, max_paths=2000, kinds=('normal', 'exc')):
    """All acyclic paths from src to the first node satisfying terminal(node)
    (terminal nodes end a path).  Returns list of node lists; raises OverflowError
    beyond max_paths (reported as ANALYSIS-ERROR by the caller)."""
    out = []
    stack = [(src, [src], {id(src)})]
    while stack:
        n, path, seen = stack.pop()
        if terminal(n) and n is not src:
            out.append(path)
            if len(out) > max_paths:
                raise OverflowError('too many paths')
            continue
        succs = [(s, k) for s, k in n.succ if k in kinds]
        if not succs:
            out.append(path)
            continue
        for s, k in succs:
            if id(s) in seen:
                continue
            stack.append((s, path + [s], seen | {id(s)}))
    return out


# ---- reaching definitions of a local name (flow-sensitive deref) -------------
def _binding_stmts(fn_node, name):
    from .astutil import enclosing_stmt, walk_local

    out = []
    for n in walk_local(fn_node):
        if isinstance(n, ast.Name) and n.id == name and isinstance(n.ctx, (ast.Store, ast.Del)):
            st = enclosing_stmt(n)
            if st is not None and all(st is not x for x in out):
                out.append(st)
        elif isinstance(n, ast.NamedExpr) and n.target.id == name:
            st = enclosing_stmt(n)
            if st is not None and all(st is not x for x in out):
                out.append(st)
        elif isinstance(n, ast.ExceptHandler) and n.name == name:
            out.append(n)
    return out


def reaching_defs(fn_node, use_node):
    """binding statements of the local `use_node.id` that reach the statement using it (may-reach over the
    statement CFG); the string 'entry' stands for "unbound here / a parameter"."""
    from .astutil import enclosing_stmt

    cfg = cfg_of(fn_node)
    name = use_node.id
    use_stmt = enclosing_stmt(use_node)
    use_nodes = cfg.nodes_of(use_stmt, ('stmt', 'test', 'loop', 'with_enter', 'handler'))
    if not use_nodes:
        return None
    defs = _binding_stmts(fn_node, name)
    dnodes = {id(d): cfg.nodes_of(d, ('stmt', 'test', 'loop', 'with_enter', 'handler')) for d in defs}
    out = []
    for d in defs:
        others = [n for o in defs if o is not d for n in dnodes[id(o)]]
        starts = cfg.nodes_of(d, ('ok',)) or dnodes[id(d)]
        # the use statement may itself rebind the name (x = f(x)); it still reads the incoming value
        av = [n for n in others if all(n is not u for u in use_nodes)]
        if d is use_stmt:
            # reaches itself only around a loop
            if any(cfg.path(s, use_nodes, avoid=av) is not None and len(cfg.path(s, use_nodes, avoid=av)) > 1 for s in starts):
                out.append(d)
            continue
        if any(cfg.path(s, use_nodes, avoid=av) is not None for s in starts):
            out.append(d)
    # a binding statement that may raise binds only when it completes (its `ok` node): the exception edge that leaves it
    # before that carries the old (possibly unbound) value
    allnodes = [n for d in defs for n in (cfg.nodes_of(d, ('ok',)) or dnodes[id(d)]) if all(n is not u for u in use_nodes)]
    if cfg.path(cfg.entry, use_nodes, avoid=allnodes) is not None:
        out.append('entry')
    return out


def deref_at(fn_node, expr, depth=4):
    """like astutil.deref, but flow-sensitive: a name stands for an expression when exactly one plain
    assignment `name = expr` reaches the use"""
    for _ in range(depth):
        if isinstance(expr, ast.NamedExpr):
            expr = expr.value
            continue
        if isinstance(expr, ast.Name) and isinstance(expr.ctx, ast.Load):
            rd = reaching_defs(fn_node, expr)
            if rd and len(rd) == 2 and all(isinstance(d, ast.Assign) and len(d.targets) == 1 and isinstance(d.targets[0], ast.Name) for d in rd):
                # x assigned in both arms of one if/else: stands for the conditional expression
                from .astutil import parent

                pa, pb = parent(rd[0]), parent(rd[1])
                if pa is pb and isinstance(pa, ast.If):
                    a_in_body = any(x is rd[0] for x in pa.body)
                    b_in_body = any(x is rd[1] for x in pa.body)
                    if a_in_body != b_in_body and (a_in_body or any(x is rd[0] for x in pa.orelse)) and (b_in_body or any(x is rd[1] for x in pa.orelse)):
                        body, orelse = (rd[0].value, rd[1].value) if a_in_body else (rd[1].value, rd[0].value)
                        e = ast.IfExp(test=pa.test, body=body, orelse=orelse)
                        e._parent = parent(expr)
                        return ast.copy_location(e, expr)
            if not rd or len(rd) != 1 or rd[0] == 'entry':
                return expr
            d = rd[0]
            if isinstance(d, ast.Assign) and len(d.targets) == 1 and isinstance(d.targets[0], ast.Name):
                expr = d.value
                continue
            if isinstance(d, ast.AnnAssign) and d.value is not None:
                expr = d.value
                continue
            return expr
        break
    return expr


# ---- flag-sensitive path queries ------------------------------------------------
def flag_vars(fn_node):
    """Locals whose every binding in the function is `name = <literal>` (loop / completion flags such as
    `is_truncated = True ... is_truncated = False`): their value is known along a path, so tests on them
    can be decided instead of following both edges."""
    params = {a.arg for a in fn_node.args.posonlyargs + fn_node.args.args + fn_node.args.kwonlyargs}
    for a in (fn_node.args.vararg, fn_node.args.kwarg):
        if a is not None:
            params.add(a.arg)
    good, bad = set(), set(params)
    stack = list(fn_node.body)
    while stack:
        n = stack.pop()
        if isinstance(n, (ast.FunctionDef, ast.AsyncFunctionDef, ast.Lambda, ast.ClassDef)):
            for x in ast.walk(n):  # a nested scope that rebinds or declares the name makes it unknown
                if isinstance(x, (ast.Nonlocal, ast.Global)):
                    bad.update(x.names)
            if not isinstance(n, ast.Lambda):
                bad.add(n.name)
            continue
        if isinstance(n, ast.Assign) and len(n.targets) == 1 and isinstance(n.targets[0], ast.Name) and isinstance(n.value, ast.Constant):
            good.add(n.targets[0].id)
            continue
        if isinstance(n, ast.Name) and isinstance(n.ctx, (ast.Store, ast.Del)):
            bad.add(n.id)
        if isinstance(n, (ast.Global, ast.Nonlocal)):
            bad.update(n.names)
        if isinstance(n, ast.ExceptHandler) and n.name:
            bad.add(n.name)
        stack.extend(ast.iter_child_nodes(n))
    return good - bad


def eval_flag_test(test, env):
    """True / False when the test is decided by the known flag values in env (dict name -> literal), else None"""
    if isinstance(test, ast.Constant):
        return bool(test.value)
    if isinstance(test, ast.Name):
        return bool(env[test.id]) if test.id in env else None
    if isinstance(test, ast.UnaryOp) and isinstance(test.op, ast.Not):
        v = eval_flag_test(test.operand, env)
        return None if v is None else not v
    if isinstance(test, ast.BoolOp):
        vals = [eval_flag_test(v, env) for v in test.values]
        if isinstance(test.op, ast.And):
            if any(v is False for v in vals):
                return False
            return True if all(v is True for v in vals) else None
        if any(v is True for v in vals):
            return True
        return False if all(v is False for v in vals) else None
    if isinstance(test, ast.Compare) and len(test.ops) == 1:
        l, r, op = test.left, test.comparators[0], test.ops[0]

        def val(e):
            if isinstance(e, ast.Constant):
                return (True, e.value)
            if isinstance(e, ast.Name) and e.id in env:
                return (True, env[e.id])
            return (False, None)

        (kl, vl), (kr, vr) = val(l), val(r)
        if kl and kr:
            if isinstance(op, ast.Is):
                return vl is vr if (vl is None or vr is None or isinstance(vl, bool) or isinstance(vr, bool)) else None
            if isinstance(op, ast.IsNot):
                return vl is not vr if (vl is None or vr is None or isinstance(vl, bool) or isinstance(vr, bool)) else None
            if isinstance(op, ast.Eq):
                return vl == vr
            if isinstance(op, ast.NotEq):
                return vl != vr
    return None


def armed_path(cfg, fn_node, arm, disarm, targets, kinds=('normal',), initially=False):
    """Flag-sensitive typestate search.  Walks the CFG from the entry with the known values of the flag
    locals; passing a node of `arm` sets the state, passing a node of `disarm` clears it.  Returns a path
    (list of nodes) that reaches a node of `targets` with the state set, or None.  Tests decided by the flag
    values only follow the feasible edge, so `done = False ... if cond: done = True ... if done: return`
    is read as the early exit it is."""
    flags = flag_vars(fn_node)
    arm, disarm, targets = {id(n) for n in arm}, {id(n) for n in disarm}, {id(n) for n in targets}
    start = (cfg.entry, frozenset(), bool(initially))
    prev = {(id(cfg.entry), start[1], start[2]): (None, cfg.entry)}
    dq = deque([start])
    while dq:
        n, envf, armed = dq.popleft()  # armed: the state on arrival at n, before n's own effect
        key = (id(n), envf, armed)
        if id(n) in targets and armed:
            out, cur = [], key
            while cur is not None:
                cur, node = prev[cur]
                out.append(node)
            return list(reversed(out))
        if id(n) in arm:
            armed = True
        if id(n) in disarm:
            armed = False
        if n.kind == 'stmt' and isinstance(n.ast, ast.Assign) and len(n.ast.targets) == 1 and isinstance(n.ast.targets[0], ast.Name) and n.ast.targets[0].id in flags and isinstance(n.ast.value, ast.Constant) and not n.label:
            d = dict(envf)
            d[n.ast.targets[0].id] = n.ast.value.value
            envf = frozenset(d.items())
        allowed = None
        if n.kind == 'test' and isinstance(n.ast, (ast.If, ast.While)):
            v = eval_flag_test(n.ast.test, dict(envf))
            if v is not None:
                allowed = 'true' if v else 'false'
        for s_, k in n.succ:
            if k not in kinds:
                continue
            if allowed is not None and s_.kind in ('true', 'false') and s_.kind != allowed:
                continue
            k2 = (id(s_), envf, armed)
            if k2 in prev:
                continue
            prev[k2] = (key, s_)
            dq.append((s_, envf, armed))
    return None
