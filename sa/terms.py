"""Value provenance: a structured abstract interpreter over the repository's
functions that computes, for every expression, a *term* describing where the
value comes from.  No arithmetic semantics: terms answer "derives from / passes
through / is the same value as".

Terms are nested tuples, tag first:
  ('const', v) ('param', name) ('name', dotted) ('module', rel) ('self', clskey)
  ('attr', t, a) ('sub', t, k) ('slice', lo, hi, step)
  ('call', f, args, kwargs, site)        un-inlined call; site=(rel, line, col)
  ('bin', op, l, r) ('unary', op, t) ('cmp', op, l, r) ('bool', op, ts)
  ('fstr', parts) ('fmt', t, spec)
  ('dict', ((k, v), ...)) ('seq', kind, items) ('seq*', elem) ('elem', t) ('keys', t)
  ('upd', base, k, v) ('mut', base, method, args)
  ('record', clskey, ((field, t), ...)) ('inst', clskey, args, kwargs, site)
  ('func', key) ('closure', key, envid) ('lambda', lid) ('bound', recv, key) ('class', clskey)
  ('partial', f, args, kwargs) ('gen', yielded) ('ctx', yielded)
  ('starred', t) ('dstar', t) ('alt', frozenset) ('opaque', why)
"""
from __future__ import annotations

import ast
from typing import Dict, List, Optional

from .astutil import dotted, walk_local
from .loader import AnalysisError, ClassInfo, Corpus, FuncInfo, Module

NONE = ('const', None)
BOTTOM = ('opaque', 'bottom')
EMPTY_CTORS = {
    'set', 'list', 'tuple', 'frozenset', 'dict', 'queue.Queue', 'asyncio.Queue', 'asyncio.PriorityQueue',
    'collections.deque', 'deque', 'collections.defaultdict', 'defaultdict', 'bytearray', 'queue.SimpleQueue',
}
MUTATORS = {
    'add', 'append', 'extend', 'update', 'discard', 'remove', 'difference_update',
    'intersection_update', 'symmetric_difference_update', 'setdefault', 'pop',
    'clear', 'sort', 'insert', 'popitem', 'appendleft', 'put', 'put_nowait',
}
ALT_CAP = 16


def alt(*ts):
    out = set()
    for t in ts:
        if t is None:
            continue
        if isinstance(t, tuple) and t and t[0] == 'alt':
            out |= t[1]
        else:
            out.add(t)
    if not out:
        return BOTTOM
    if len(out) > 1:
        out.discard(BOTTOM)
    if len(out) == 1:
        return next(iter(out))
    if len(out) > ALT_CAP:
        keep = sorted(out, key=repr)[:ALT_CAP]
        out = set(keep)
        out.add(('opaque', 'alt-overflow'))
    return ('alt', frozenset(out))


def alts(t):
    if isinstance(t, tuple) and t and t[0] == 'alt':
        return list(t[1])
    return [t]


def walk(t):
    """All distinct sub-terms of t (pre-order).  Terms are DAGs - sub-terms are shared by
    identity - so every shared object is visited once (tree walking is exponential)."""
    stack = [t]
    seen = set()
    while stack:
        x = stack.pop()
        if isinstance(x, (tuple, frozenset)):
            if id(x) in seen:
                continue
            seen.add(id(x))
        if isinstance(x, tuple):
            if x and isinstance(x[0], str):
                yield x
                if x[0] == 'call':
                    stack.extend(x[1:4])
                    continue
                if x[0] == 'inst':
                    stack.extend(x[2:4])
                    continue
                if x[0] in ('const', 'name', 'param', 'module', 'self', 'func', 'closure', 'lambda', 'class', 'opaque'):
                    continue
            stack.extend(x[1:] if x and isinstance(x[0], str) else x)
        elif isinstance(x, frozenset):
            stack.extend(x)


def contains(t, pred) -> bool:
    return any(pred(x) for x in walk(t))


def find(t, pred):
    return [x for x in walk(t) if pred(x)]


_STRIP_CACHE = {}


def strip_sites(t):
    """Normal form for structural comparison: drop call sites (memoised by object identity: terms are DAGs)."""
    if isinstance(t, (tuple, frozenset)):
        hit = _STRIP_CACHE.get(id(t))
        if hit is not None and hit[0] is t:
            return hit[1]
        if isinstance(t, tuple):
            if t and t[0] == 'call':
                r = ('call', strip_sites(t[1]), strip_sites(t[2]), strip_sites(t[3]))
            elif t and t[0] == 'inst':
                r = ('inst', t[1], strip_sites(t[2]), strip_sites(t[3]))
            else:
                r = tuple(strip_sites(x) for x in t)
        else:
            r = frozenset(strip_sites(x) for x in t)
        if len(_STRIP_CACHE) > 400000:
            _STRIP_CACHE.clear()
        _STRIP_CACHE[id(t)] = (t, r)
        _STRIP_CACHE[id(r)] = (r, r)
        return r
    return t


def is_call_to(t, *names):
    """t is an un-inlined call whose callee is ('name', n) with n in names, or
    an attribute call whose attribute name is in names (given as '.attr')."""
    if not (isinstance(t, tuple) and t and t[0] == 'call'):
        return False
    f = t[1]
    for n in names:
        if n.startswith('.'):
            if f[0] == 'attr' and f[2] == n[1:]:
                return True
        elif f == ('name', n):
            return True
    return False


def show(t, depth=0, limit=400) -> str:
    s = _show(t, depth)
    return s if len(s) <= limit else s[: limit - 3] + '...'


def _show(t, d=0):
    if d > 12:
        return '…'
    if not isinstance(t, tuple) or not t:
        return repr(t)
    k = t[0]
    if k == 'const':
        return repr(t[1])
    if k == 'param':
        return f'<{t[1]}>'
    if k == 'name':
        return t[1]
    if k == 'module':
        return t[1]
    if k == 'self':
        return 'self'
    if k == 'attr':
        return f'{_show(t[1], d + 1)}.{t[2]}'
    if k == 'sub':
        return f'{_show(t[1], d + 1)}[{_show(t[2], d + 1)}]'
    if k == 'slice':
        return ':'.join('' if x == NONE else _show(x, d + 1) for x in t[1:])
    if k == 'call':
        a = [_show(x, d + 1) for x in t[2]] + [f'{n}={_show(v, d + 1)}' for n, v in t[3]]
        return f'{_show(t[1], d + 1)}({", ".join(a)})'
    if k == 'inst':
        a = [_show(x, d + 1) for x in t[2]] + [f'{n}={_show(v, d + 1)}' for n, v in t[3]]
        return f'{t[1].split("::")[-1]}({", ".join(a)})'
    if k == 'bin':
        return f'({_show(t[2], d + 1)} {t[1]} {_show(t[3], d + 1)})'
    if k == 'unary':
        return f'({t[1]} {_show(t[2], d + 1)})'
    if k == 'cmp':
        return f'({_show(t[2], d + 1)} {t[1]} {_show(t[3], d + 1)})'
    if k == 'bool':
        return '(' + f' {t[1]} '.join(_show(x, d + 1) for x in t[2]) + ')'
    if k == 'fstr':
        return 'f"' + ''.join(x[1] if x[0] == 'const' and isinstance(x[1], str) else '{' + _show(x, d + 1) + '}' for x in t[1]) + '"'
    if k == 'fmt':
        return _show(t[1], d + 1)
    if k == 'dict':
        return '{' + ', '.join(f'{_show(a, d + 1)}: {_show(b, d + 1)}' for a, b in t[1]) + '}'
    if k == 'seq':
        return '[' + ', '.join(_show(x, d + 1) for x in t[2]) + ']'
    if k == 'seq*':
        return f'[{_show(t[1], d + 1)} …]'
    if k == 'elem':
        return f'elem({_show(t[1], d + 1)})'
    if k == 'keys':
        return f'keys({_show(t[1], d + 1)})'
    if k == 'upd':
        return f'{_show(t[1], d + 1)}[{_show(t[2], d + 1)}:={_show(t[3], d + 1)}]'
    if k == 'mut':
        return f'{_show(t[1], d + 1)}.{t[2]}!({", ".join(_show(x, d + 1) for x in t[3])})'
    if k == 'record':
        return t[1].split('::')[-1] + '{' + ', '.join(f'{a}={_show(b, d + 1)}' for a, b in t[2]) + '}'
    if k in ('func', 'closure', 'class'):
        return t[1].split('::')[-1]
    if k == 'bound':
        return f'{_show(t[1], d + 1)}.{t[2].split(".")[-1]}'
    if k == 'alt':
        return 'ALT<' + ' | '.join(sorted(_show(x, d + 1) for x in t[1])) + '>'
    if k == 'gen':
        return f'gen({_show(t[1], d + 1)})'
    if k == 'ctx':
        return f'ctx({_show(t[1], d + 1)})'
    if k == 'starred':
        return '*' + _show(t[1], d + 1)
    if k == 'dstar':
        return '**' + _show(t[1], d + 1)
    if k == 'opaque':
        return f'?{t[1]}'
    if k == 'lambda':
        return 'λ'
    if k == 'partial':
        return f'partial({_show(t[1], d + 1)}, …)'
    if k == 'cfg':
        return 'cfg(' + ', '.join(f'{a}{"=" if a not in ("*", "**") else ""}{_show(b, d + 1)}' for a, b in t[1]) + ')'
    if k == 'adapter':
        return f'adapter<{_show(t[1], d + 1)}>'
    if k == 'adaptercls':
        return f'adapter_type<{_show(t[1], d + 1)}>'
    if k == 'adapterargs':
        return f'adapter_args<{_show(t[1], d + 1)}>'
    return repr(t)


class Env:
    def __init__(self, parent=None):
        self.vars: Dict[str, tuple] = {}
        self.parent = parent
        self.dead = False
        self.nonlocals = set()

    def lookup(self, name):
        e = self
        while e is not None:
            if name in e.vars:
                return e.vars[name]
            e = e.parent
        return None

    def defining(self, name):
        e = self
        while e is not None:
            if name in e.vars:
                return e
            e = e.parent
        return None

    def set(self, name, val):
        if name in self.nonlocals:
            d = self.parent.defining(name) if self.parent else None
            (d or self).vars[name] = val
        else:
            self.vars[name] = val

    def set_shared(self, name, key, val):
        """Mutation of the object bound to `name` (attribute / item store, or a
        mutating method): recorded where `name` is defined."""
        d = self.defining(name) or self
        d.vars[key] = val

    def copy(self):
        e = Env(self.parent)
        e.vars = dict(self.vars)
        e.dead = self.dead
        e.nonlocals = set(self.nonlocals)
        return e

    def join_from(self, others):
        live = [o for o in others if not o.dead]
        if not live:
            self.dead = True
            return
        keys = set()
        for o in live:
            keys |= o.vars.keys()
        def default(o, k):
            # an attribute path that was not assigned on this branch keeps its
            # previous (symbolic) value
            if '.' not in k:
                return None
            root, *attrs = k.split('.')
            base = o.lookup(root)
            if base is None:
                return None
            for a in attrs:
                base = ('attr', base, a)
            return base

        self.vars = {k: alt(*[(o.vars[k] if k in o.vars else default(o, k)) for o in live]) for k in keys}
        self.dead = False


class CallEvent:
    __slots__ = ('node', 'module', 'func', 'callee', 'args', 'kwargs', 'guards', 'synthetic', 'depth', 'chain', 'recv')

    def __init__(self, node, module, func, callee, args, kwargs, guards, synthetic=False, depth=0):
        self.node = node
        self.module = module
        self.func = func
        self.callee = callee
        self.args = args
        self.kwargs = kwargs
        self.guards = guards
        self.synthetic = synthetic
        self.depth = depth
        self.chain = ()
        self.recv = None

    @property
    def loc(self):
        return f'{self.module.rel}:{getattr(self.node, "lineno", 0)}'

    @property
    def method(self):
        c = self.callee
        if c[0] == 'attr':
            return c[2]
        if c[0] == 'alt' and all(x[0] == 'attr' for x in c[1]):
            names = {x[2] for x in c[1]}
            if len(names) == 1:
                return next(iter(names))
        if c[0] == 'name' and '.' in c[1]:
            return c[1].rsplit('.', 1)[1]
        return None

    @property
    def receiver(self):
        c = self.callee
        if c[0] == 'attr':
            return c[1]
        if c[0] == 'alt' and all(x[0] == 'attr' for x in c[1]):
            return alt(*[x[1] for x in c[1]])
        if c[0] == 'name' and '.' in c[1]:
            return ('name', c[1].rsplit('.', 1)[0])
        return None

    def arg(self, i, name=None):
        if i is not None and i < len(self.args):
            return self.args[i]
        if name is not None:
            for k, v in self.kwargs:
                if k == name:
                    return v
        return None


class _FCtx:
    def __init__(self, fi, module):
        self.fi = fi
        self.module = module
        self.returns = []
        self.yields = []
        self.loop_exits = []


RECORD_BASES = {'NamedTuple', 'typing.NamedTuple'}


class Evaluator:
    def __init__(self, corpus: Corpus, modes: Optional[dict] = None, depth=5, nonnull=()):
        self.corpus = corpus
        self.modes = dict(modes or {})
        self.depth_limit = depth
        self.nonnull = set(nonnull)
        self.events: List[CallEvent] = []
        self.envs: Dict[int, Env] = {}
        self.lambdas: Dict[int, tuple] = {}
        self.guards: List[tuple] = []
        self.stack: List[str] = []
        self.fctx_stack: List[_FCtx] = []
        self.chain: list = []
        self.terms_built = 0
        self.inlined = 0
        self.unresolved_calls = 0
        self.func_by_key: Dict[str, FuncInfo] = {f.key: f for f in corpus.all_functions()}
        self.class_by_key: Dict[str, ClassInfo] = {}
        for m in corpus.modules.values():
            for c in m.classes.values():
                self.class_by_key[f'{m.rel}::{c.name}'] = c
        self.module_envs: Dict[str, Env] = {}
        self.assign_terms: Dict[int, tuple] = {}  # id(ast target Name/expr stmt) -> term
        self.returns_of: Dict[str, tuple] = {}
        self.field_types = {
            ('replicat/repository.py::Repository', 'props'): 'replicat/repository.py::RepositoryProps',
        }

    # ---- helpers -----------------------------------------------------
    def clskey(self, ci: ClassInfo):
        return f'{ci.module.rel}::{ci.name}'

    def is_record_class(self, ci: ClassInfo):
        for b in ci.base_exprs:
            if dotted(b) in RECORD_BASES:
                return True
        for d in ci.node.decorator_list:
            t = d.func if isinstance(d, ast.Call) else d
            if (dotted(t) or '').endswith('dataclass'):
                return True
        return False

    def record_fields(self, ci: ClassInfo):
        out = []
        for b in ci.node.body:
            if isinstance(b, ast.AnnAssign) and isinstance(b.target, ast.Name):
                out.append((b.target.id, b.value))
        return out

    def class_of(self, t) -> Optional[ClassInfo]:
        if not isinstance(t, tuple) or not t:
            return None
        k = t[0]
        if k == 'self' or k == 'record' or k == 'inst':
            return self.class_by_key.get(t[1])
        if k == 'attr':
            base = self.class_of(t[1])
            if base is not None:
                ft = self.field_types.get((self.clskey(base), t[2]))
                if ft:
                    return self.class_by_key.get(ft)
        if k == 'alt':
            cs = {id(self.class_of(x)): self.class_of(x) for x in t[1] if x != NONE}
            if len(cs) == 1:
                return next(iter(cs.values()))
        return None

    def module_env(self, module: Module) -> Env:
        e = self.module_envs.get(module.rel)
        if e is None:
            e = Env()
            self.module_envs[module.rel] = e
        return e

    # ---- entry points ----------------------------------------------------
    def run(self, fi: FuncInfo, args=None, kwargs=None, self_term='auto'):
        """Evaluate function `fi` as an entry point. Unbound parameters become
        ('param', name)."""
        if self_term == 'auto':
            self_term = ('self', self.clskey(fi.cls)) if fi.cls is not None and fi.parent is None else None
        cenv = None
        if fi.parent is not None and fi.cls is not None:
            # nested function analysed on its own: free variables of the enclosing
            # method stay symbolic, `self` is the instance
            cenv = Env()
            cenv.vars['self'] = ('self', self.clskey(fi.cls))
            self.envs[id(cenv)] = cenv
        return self.inline(fi, list(args or []), list((kwargs or {}).items()), self_term, cenv, entry=True)

    # ---- function inlining ---------------------------------------------
    def inline(self, fi: FuncInfo, args, kwargs, self_term, closure_env, entry=False, site=None):
        key = fi.key
        if self.stack.count(key) >= 1 and not entry:
            return ('opaque', f'recursion:{fi.qual}')
        if len(self.stack) >= self.depth_limit and not entry:
            self.unresolved_calls += 1
            return ('call', ('func', key), tuple(args), tuple(kwargs), site)
        self.inlined += 1
        env = Env(closure_env)
        a = fi.node.args
        params = [p.arg for p in a.posonlyargs + a.args]
        posdefaults = a.defaults
        decl_static = any(d == 'staticmethod' for d in fi.decorator_names())
        is_method = fi.cls is not None and fi.parent is None and not decl_static
        args = list(args)
        if is_method and params:
            env.vars[params[0]] = self_term if self_term is not None else ('param', params[0])
            params_rest = params[1:]
        else:
            params_rest = params
        # expand starred positional args
        flat = []
        star_rest = None
        for x in args:
            if isinstance(x, tuple) and x and x[0] == 'starred':
                inner = x[1]
                if inner[0] == 'seq':
                    flat.extend(inner[2])
                else:
                    star_rest = inner
            else:
                flat.append(x)
        kw = {}
        dstar = None
        for k, v in kwargs:
            if k is None:
                if v[0] == 'dict' and all(kk[0] == 'const' for kk, _ in v[1]):
                    for kk, vv in v[1]:
                        kw[kk[1]] = vv
                else:
                    dstar = v
            else:
                kw[k] = v
        menv = self.module_env(fi.module)
        defenv = closure_env or menv
        ndef = len(posdefaults)
        for i, p in enumerate(params_rest):
            if i < len(flat):
                env.vars[p] = flat[i]
            elif p in kw:
                env.vars[p] = kw.pop(p)
            else:
                di = i - (len(params_rest) - ndef)
                full_index = (len(params) - len(params_rest)) + i
                di = full_index - (len(params) - ndef)
                if entry:
                    env.vars[p] = ('const', self.modes[p]) if p in self.modes and isinstance(self.modes[p], bool) and False else ('param', p)
                elif star_rest is not None:
                    env.vars[p] = ('elem', star_rest)
                elif dstar is not None:
                    env.vars[p] = alt(('sub', dstar, ('const', p)), self._default(posdefaults, di, fi, defenv))
                elif 0 <= di < ndef:
                    env.vars[p] = self._default(posdefaults, di, fi, defenv)
                else:
                    env.vars[p] = ('param', p)
        extra_pos = flat[len(params_rest):]
        if a.vararg:
            items = tuple(extra_pos)
            t = ('seq', 'tuple', items)
            if star_rest is not None:
                t = ('seq', 'tuple', items + (('starred', star_rest),)) if items else star_rest
            env.vars[a.vararg.arg] = t if (extra_pos or star_rest is not None or not entry) else ('param', a.vararg.arg)
        for p, d in zip(a.kwonlyargs, a.kw_defaults):
            if p.arg in kw:
                env.vars[p.arg] = kw.pop(p.arg)
            elif dstar is not None:
                dv = self.ev(d, defenv, _FCtx(fi, fi.module)) if d is not None else None
                env.vars[p.arg] = alt(('sub', dstar, ('const', p.arg)), dv)
            elif d is not None and not entry:
                env.vars[p.arg] = self.ev(d, defenv, _FCtx(fi, fi.module))
            else:
                env.vars[p.arg] = ('param', p.arg)
        if a.kwarg:
            items = tuple((('const', k), v) for k, v in kw.items())
            t = ('dict', items)
            if dstar is not None:
                t = dstar if not items else ('upd', dstar, ('opaque', 'kw'), t)
            env.vars[a.kwarg.arg] = t if (kw or dstar is not None or not entry) else ('param', a.kwarg.arg)
        fctx = _FCtx(fi, fi.module)
        self.stack.append(key)
        self.fctx_stack.append(fctx)
        saved_guards = self.guards
        self.guards = list(self.guards)
        try:
            self.envs[id(env)] = env
            self.exec_block(fi.node.body, env, fctx)
            # closures run later than their definition: re-evaluate the ones that
            # were applied with the final environment (flow-insensitive capture)
            if fi.nested and getattr(fctx, 'applied', None):
                for (ck, cargs, ckwargs) in list(fctx.applied)[:12]:
                    sub = self.func_by_key.get(ck)
                    if sub is not None and sub.parent is fi:
                        live = env.copy()
                        live.dead = False
                        self.envs[id(live)] = live
                        self.inline(sub, list(cargs), list(ckwargs), None, live)
        finally:
            self.stack.pop()
            self.fctx_stack.pop()
            self.guards = saved_guards
        fctx.env = env
        self.last_env = env
        if entry:
            self.entry_env = env
            self.entry_fctx = fctx
        ret = alt(*fctx.returns) if fctx.returns else NONE
        if not env.dead and fctx.returns:
            ret = alt(ret, NONE) if not _ends_with_return(fi.node.body) else ret
        names = fi.decorator_names()
        if any(n.endswith('contextmanager') for n in names):
            return ('ctx', alt(*fctx.yields) if fctx.yields else NONE)
        if fctx.yields or fi.is_generator:
            return ('gen', alt(*fctx.yields) if fctx.yields else ('opaque', 'bottom'))
        if any(n.endswith('cached_property') or n == 'property' for n in names):
            return ret
        return ret

    def _default(self, defaults, i, fi, env):
        if 0 <= i < len(defaults):
            return self.ev(defaults[i], env, _FCtx(fi, fi.module))
        return ('opaque', 'nodefault')

    # ---- statements --------------------------------------------------------
    def exec_block(self, stmts, env: Env, fctx: _FCtx):
        for st in stmts:
            if env.dead:
                break
            self.exec_stmt(st, env, fctx)

    def exec_stmt(self, st, env, fctx):
        m = getattr(self, 'st_' + type(st).__name__, None)
        if m is None:
            return
        m(st, env, fctx)

    def st_Expr(self, st, env, fctx):
        self.ev(st.value, env, fctx)

    def st_Pass(self, st, env, fctx):
        pass

    def st_Assert(self, st, env, fctx):
        self.ev(st.test, env, fctx)

    def st_Global(self, st, env, fctx):
        pass

    def st_Nonlocal(self, st, env, fctx):
        env.nonlocals |= set(st.names)

    def st_Import(self, st, env, fctx):
        for a in st.names:
            env.set(a.asname or a.name.split('.')[0], ('name', a.name if a.asname else a.name.split('.')[0]))

    def st_ImportFrom(self, st, env, fctx):
        for a in st.names:
            env.set(a.asname or a.name, ('name', f'{st.module}.{a.name}' if st.module else a.name))

    def st_Delete(self, st, env, fctx):
        for t in st.targets:
            if isinstance(t, ast.Subscript):
                base = self.ev(t.value, env, fctx)
                k = self.ev_slice(t.slice, env, fctx)
                root = _root_name(t.value)
                if root:
                    env.set_shared(root, _path_key(t.value) or root, ('mut', base, 'delitem', (k,)))
            elif isinstance(t, ast.Attribute):
                self.ev(t.value, env, fctx)

    def st_FunctionDef(self, st, env, fctx):
        sub = fctx.fi.nested.get(st.name) if fctx.fi else None
        if sub is None or sub.node is not st:
            sub = self.corpus.func_of_node(fctx.module, st.body[0]) if st.body else None
        if sub is None:
            return
        self.envs[id(env)] = env
        env.set(st.name, ('closure', sub.key, id(env)))

    st_AsyncFunctionDef = st_FunctionDef

    def st_ClassDef(self, st, env, fctx):
        pass

    def st_Return(self, st, env, fctx):
        v = self.ev(st.value, env, fctx) if st.value is not None else NONE
        fctx.returns.append(v)
        env.dead = True

    def st_Raise(self, st, env, fctx):
        if st.exc is not None:
            self.ev(st.exc, env, fctx)
        env.dead = True

    def st_Break(self, st, env, fctx):
        fctx.loop_exits.append(env.copy())
        env.dead = True

    def st_Continue(self, st, env, fctx):
        fctx.loop_exits.append(env.copy())
        env.dead = True

    def st_Assign(self, st, env, fctx):
        v = self.ev(st.value, env, fctx)
        for t in st.targets:
            self.assign(t, v, env, fctx)

    def st_AnnAssign(self, st, env, fctx):
        if st.value is not None:
            self.assign(st.target, self.ev(st.value, env, fctx), env, fctx)

    def st_AugAssign(self, st, env, fctx):
        cur = self.ev(_as_load(st.target), env, fctx)
        v = self.ev(st.value, env, fctx)
        new = ('bin', type(st.op).__name__, cur, v)
        if isinstance(st.target, ast.Name):
            d = env.defining(st.target.id)
            # augmented assignment on a container mutates it in place
            if d is not None and d is not env and st.target.id not in env.vars:
                d.vars[st.target.id] = new
            else:
                env.set(st.target.id, new)
        else:
            self.assign(st.target, new, env, fctx)

    def assign(self, target, v, env, fctx):
        self.assign_terms[id(target)] = alt(self.assign_terms.get(id(target)), v)
        if isinstance(target, ast.Name):
            env.set(target.id, v)
        elif isinstance(target, (ast.Tuple, ast.List)):
            n = len(target.elts)
            for i, el in enumerate(target.elts):
                if isinstance(el, ast.Starred):
                    self.assign(el.value, ('seq*', self.elem_of(v)), env, fctx)
                else:
                    self.assign(el, self.index(v, i, n), env, fctx)
        elif isinstance(target, ast.Attribute):
            base = self.ev(target.value, env, fctx)
            root = _root_name(target.value)
            pk = _path_key(target)
            if root and pk:
                env.set_shared(root, pk, v)
        elif isinstance(target, ast.Subscript):
            base = self.ev(target.value, env, fctx)
            k = self.ev_slice(target.slice, env, fctx)
            new = self.store(base, k, v)
            root = _root_name(target.value)
            pk = _path_key(target.value)
            if root and pk:
                if isinstance(target.value, ast.Name):
                    d = env.defining(root)
                    (d or env).vars[root] = new
                else:
                    env.set_shared(root, pk, new)
        elif isinstance(target, ast.Starred):
            self.assign(target.value, v, env, fctx)

    def store(self, base, k, v):
        if base[0] == 'dict' and k[0] == 'const':
            items = [(a, b) for a, b in base[1] if a != k] + [(k, v)]
            return ('dict', tuple(items))
        if base[0] == 'alt':
            return alt(*[self.store(b, k, v) for b in base[1]])
        return ('upd', base, k, v)

    def index(self, v, i, n=None):
        k = v[0]
        if v == BOTTOM:
            return BOTTOM
        if k == 'seq' and not any(x[0] == 'starred' for x in v[2]):
            if n is None or len(v[2]) == n:
                if -len(v[2]) <= i < len(v[2]):
                    return v[2][i]
        if k == 'record':
            if i < len(v[2]):
                return v[2][i][1]
        if k == 'alt':
            return alt(*[self.index(x, i, n) for x in v[1]])
        if k == 'seq*':
            return v[1]
        if k == 'elem' or k == 'call' or k == 'attr' or k == 'sub' or k == 'param':
            return ('sub', v, ('const', i))
        return ('sub', v, ('const', i))

    def st_If(self, st, env, fctx):
        test = self.ev(st.test, env, fctx)
        d = self.decide(test)
        if d is True:
            self._guarded(st, True, test, st.body, env, fctx)
        elif d is False:
            self._guarded(st, False, test, st.orelse, env, fctx)
        else:
            e1, e2 = env.copy(), env.copy()
            # `x is None` / `x is not None` on a local narrows the alternatives the local stands for on the two arms
            # (after `if x is None: continue` the rest of the block no longer sees the None alternative)
            t_ = st.test
            if isinstance(t_, ast.Compare) and len(t_.ops) == 1 and isinstance(t_.ops[0], (ast.Is, ast.IsNot)) and isinstance(t_.left, ast.Name) and isinstance(t_.comparators[0], ast.Constant) and t_.comparators[0].value is None:
                is_none_on_true = isinstance(t_.ops[0], ast.Is)
                self._narrow_none(e1, t_.left.id, keep_none=is_none_on_true)
                self._narrow_none(e2, t_.left.id, keep_none=not is_none_on_true)
            self._guarded(st, True, test, st.body, e1, fctx)
            self._guarded(st, False, test, st.orelse, e2, fctx)
            env.join_from([e1, e2])
            # an early exit (raise/return/continue) makes the rest of the block
            # conditional on the other polarity
            if e1.dead and not e2.dead:
                self.guards.append((st, False, test))
            elif e2.dead and not e1.dead:
                self.guards.append((st, True, test))

    @staticmethod
    def _narrow_none(env, name, keep_none):
        d = env.defining(name) or env
        v = d.vars.get(name)
        if v is None or v[0] != 'alt':
            return
        members = list(v[1])
        kept = [m for m in members if (m == NONE) == keep_none]
        if kept and len(kept) < len(members):
            if d is not env:
                # narrowing is local to this arm: shadow the outer binding
                env.vars[name] = alt(*kept)
            else:
                env.vars[name] = alt(*kept)

    def _guarded(self, st, pol, test, body, env, fctx):
        self.guards.append((st, pol, test))
        try:
            self.exec_block(body, env, fctx)
        finally:
            self.guards.pop()

    def st_While(self, st, env, fctx):
        test = self.ev(st.test, env, fctx)
        d = self.decide(test)
        if d is False:
            self.exec_block(st.orelse, env, fctx)
            return
        saved_exits = fctx.loop_exits
        fctx.loop_exits = []
        pre = env.copy()
        body_env = env.copy()
        glen = len(self.guards)
        for _ in range(2):
            self._guarded(st, True, test, st.body, body_env, fctx)
            del self.guards[glen:]
            exits = fctx.loop_exits
            fctx.loop_exits = []
            nxt = env.copy()
            nxt.join_from([pre, body_env] + exits)
            body_env = nxt.copy()
            test = self.ev(st.test, body_env, fctx)
            last = nxt
        env.vars = last.vars
        env.dead = last.dead and d is True and False
        fctx.loop_exits = saved_exits
        self.exec_block(st.orelse, env, fctx)

    def st_For(self, st, env, fctx):
        it = self.ev(st.iter, env, fctx)
        el = self.elem_of(it)
        saved_exits = fctx.loop_exits
        fctx.loop_exits = []
        pre = env.copy()
        body_env = env.copy()
        last = pre
        glen = len(self.guards)
        for _ in range(2):
            self.assign(st.target, el, body_env, fctx)
            self.exec_block(st.body, body_env, fctx)
            del self.guards[glen:]
            exits = fctx.loop_exits
            fctx.loop_exits = []
            nxt = env.copy()
            nxt.join_from([pre, body_env] + exits)
            body_env = nxt.copy()
            last = nxt
        env.vars = last.vars
        env.dead = False
        fctx.loop_exits = saved_exits
        self.exec_block(st.orelse, env, fctx)

    st_AsyncFor = st_For

    def st_Try(self, st, env, fctx):
        pre = env.copy()
        glen = len(self.guards)
        self.exec_block(st.body, env, fctx)
        del self.guards[glen:]
        outs = []
        mid = env.copy()
        for h in st.handlers:
            he = env.copy()
            he.join_from([pre, mid] if not mid.dead else [pre])
            if mid.dead:
                he.vars = dict(pre.vars)
                # assignments made before the failing statement may be visible
                for k, v in mid.vars.items():
                    he.vars[k] = alt(he.vars.get(k), v) if k in he.vars else v
                he.dead = False
            if h.name:
                he.set(h.name, ('opaque', 'exception'))
            self.guards.append((h, True, ('opaque', 'handler')))
            try:
                self.exec_block(h.body, he, fctx)
            finally:
                self.guards.pop()
            outs.append(he)
        if not env.dead:
            self.exec_block(st.orelse, env, fctx)
        outs.append(env.copy())
        env.join_from(outs)
        if st.finalbody:
            was_dead = env.dead
            if was_dead:
                env.vars = dict(pre.vars)
                for o in outs + [mid]:
                    for k, v in o.vars.items():
                        env.vars[k] = alt(env.vars.get(k), v) if k in env.vars else v
                env.dead = False
            self.exec_block(st.finalbody, env, fctx)
            env.dead = env.dead or was_dead

    def st_With(self, st, env, fctx):
        for item in st.items:
            c = self.ev(item.context_expr, env, fctx)
            if item.optional_vars is not None:
                self.assign(item.optional_vars, self.enter_value(c), env, fctx)
        self.exec_block(st.body, env, fctx)

    st_AsyncWith = st_With

    def enter_value(self, c):
        if c[0] == 'ctx':
            return c[1]
        if c[0] == 'alt':
            return alt(*[self.enter_value(x) for x in c[1]])
        return c

    # ---- expressions -----------------------------------------------------
    def ev(self, node, env, fctx):
        if node is None:
            return NONE
        self.terms_built += 1
        m = getattr(self, 'ex_' + type(node).__name__, None)
        if m is None:
            return ('opaque', type(node).__name__)
        return m(node, env, fctx)

    def ex_Constant(self, n, env, fctx):
        return ('const', n.value)

    def ex_Name(self, n, env, fctx):
        v = env.lookup(n.id)
        if v is not None:
            return v
        return self.global_name(n.id, fctx.module)

    def global_name(self, name, module: Module, depth=0):
        if name in module.functions:
            return ('func', module.functions[name].key)
        if name in module.classes:
            return ('class', f'{module.rel}::{name}')
        if name in module.assigns:
            menv = self.module_env(module)
            cached = menv.vars.get('$' + name)
            if cached is None:
                menv.vars['$' + name] = ('opaque', 'cycle')
                cached = self.ev(module.assigns[name], menv, _FCtx(None, module))
                menv.vars['$' + name] = cached
            return cached
        if name in module.imports:
            return self.import_origin(module.imports[name])
        return ('name', name)

    def import_origin(self, origin):
        # origin like replicat.utils.adapters / replicat.utils.fs.flatten_paths / posixpath
        for rel in (origin.replace('.', '/') + '.py', origin.replace('.', '/') + '/__init__.py'):
            if rel in self.corpus.modules:
                return ('module', rel)
        mod, _, name = origin.rpartition('.')
        for rel in (mod.replace('.', '/') + '.py', mod.replace('.', '/') + '/__init__.py'):
            m = self.corpus.modules.get(rel)
            if m is not None:
                return self.global_name(name, m)
        return ('name', origin)

    def ex_Attribute(self, n, env, fctx):
        pk = _path_key(n)
        if pk:
            v = env.lookup(pk)
            if v is not None:
                return v
        base = self.ev(n.value, env, fctx)
        return self.getattr(base, n.attr, fctx)

    def getattr(self, base, attr, fctx):
        k = base[0]
        if base == BOTTOM:
            return BOTTOM
        if k == 'module':
            return self.global_name(attr, self.corpus.modules[base[1]])
        if k == 'name':
            return ('name', base[1] + '.' + attr)
        if k == 'alt':
            return alt(*[self.getattr(b, attr, fctx) for b in base[1]])
        if k == 'record':
            for f, v in base[2]:
                if f == attr:
                    return v
        if k == 'class':
            ci = self.class_by_key.get(base[1])
            if ci is not None:
                c = self.corpus.class_const(ci, attr)
                if c is not None:
                    return self.ev(c, self.module_env(ci.module), _FCtx(None, ci.module))
                mth = self.corpus.method(ci, attr)
                if mth is not None:
                    return ('func', mth.key)
            return ('attr', base, attr)
        ci = self.class_of(base)
        if ci is not None:
            if k != 'record' and self.is_record_class(ci) and any(f == attr for f, _ in self.record_fields(ci)):
                return ('attr', base, attr)
            mth = self.corpus.method(ci, attr)
            if mth is not None:
                names = mth.decorator_names()
                if any(x == 'property' or x.endswith('cached_property') for x in names):
                    if attr in self.modes and ci.name == 'RepositoryProps':
                        return ('const', self.modes[attr])
                    return self.inline(mth, [], [], base, None)
                return ('bound', base, mth.key)
            c = self.corpus.class_const(ci, attr)
            if c is not None and not (k == 'record'):
                return self.ev(c, self.module_env(ci.module), _FCtx(None, ci.module))
        return ('attr', base, attr)

    def ev_slice(self, s, env, fctx):
        if isinstance(s, ast.Slice):
            return ('slice', self.ev(s.lower, env, fctx), self.ev(s.upper, env, fctx), self.ev(s.step, env, fctx))
        return self.ev(s, env, fctx)

    def ex_Subscript(self, n, env, fctx):
        base = self.ev(n.value, env, fctx)
        k = self.ev_slice(n.slice, env, fctx)
        return self.lookup(base, k)

    def lookup(self, base, k):
        b = base[0]
        if base == BOTTOM:
            return BOTTOM
        if b == 'dict' and not base[1]:
            return BOTTOM
        if b == 'dict' and k[0] == 'const':
            for a, v in base[1]:
                if a == k:
                    return v
            return ('sub', base, k)
        if b == 'upd':
            if base[2] == k:
                return base[3]
            if base[2][0] == 'const' and k[0] == 'const':
                return self.lookup(base[1], k)
            return alt(base[3], self.lookup(base[1], k)) if k[0] != 'const' else ('sub', base, k)
        if b == 'mut' and self._is_mapping(base):
            r = self.lookup(base[1], k)
            if base[2] in ('update',) and base[3]:
                r = alt(r, self.lookup(base[3][0], k))
            if base[2] == 'setdefault' and len(base[3]) == 2:
                r = alt(r, base[3][1])
            return r
        if b == 'seq' and k[0] == 'const' and isinstance(k[1], int):
            return self.index(base, k[1])
        if b == 'record' and k[0] == 'const' and isinstance(k[1], int):
            return self.index(base, k[1])
        if b == 'alt':
            return alt(*[self.lookup(x, k) for x in base[1]])
        return ('sub', base, k)

    def ex_Await(self, n, env, fctx):
        return self.ev(n.value, env, fctx)

    def ex_BinOp(self, n, env, fctx):
        return ('bin', type(n.op).__name__, self.ev(n.left, env, fctx), self.ev(n.right, env, fctx))

    def ex_UnaryOp(self, n, env, fctx):
        return ('unary', type(n.op).__name__, self.ev(n.operand, env, fctx))

    def ex_BoolOp(self, n, env, fctx):
        return ('bool', type(n.op).__name__, tuple(self.ev(v, env, fctx) for v in n.values))

    def ex_Compare(self, n, env, fctx):
        left = self.ev(n.left, env, fctx)
        parts = []
        for op, c in zip(n.ops, n.comparators):
            r = self.ev(c, env, fctx)
            parts.append(('cmp', type(op).__name__, left, r))
            left = r
        return parts[0] if len(parts) == 1 else ('bool', 'And', tuple(parts))

    def ex_IfExp(self, n, env, fctx):
        t = self.ev(n.test, env, fctx)
        d = self.decide(t)
        if d is True:
            return self.ev(n.body, env, fctx)
        if d is False:
            return self.ev(n.orelse, env, fctx)
        return alt(self.ev(n.body, env, fctx), self.ev(n.orelse, env, fctx))

    def ex_NamedExpr(self, n, env, fctx):
        v = self.ev(n.value, env, fctx)
        self.assign(n.target, v, env, fctx)
        return v

    def ex_JoinedStr(self, n, env, fctx):
        return ('fstr', tuple(self.ev(v, env, fctx) for v in n.values))

    def ex_FormattedValue(self, n, env, fctx):
        spec = ast.unparse(n.format_spec) if n.format_spec is not None else ''
        return ('fmt', self.ev(n.value, env, fctx), spec + ('!' + chr(n.conversion) if n.conversion != -1 else ''))

    def ex_Dict(self, n, env, fctx):
        base = None
        items = []
        # {**d, 'k': v, ...}: the mapping d with the listed keys (re)assigned, i.e. what `c = dict(d); c['k'] = v` gives -
        # the same term the in-place spelling produces (a later entry replaces an earlier one with the same key)
        if any(k is None for k in n.keys):
            cur = ('dict', ())
            okay = True
            for i, (k, v) in enumerate(zip(n.keys, n.values)):
                vt = self.ev(v, env, fctx)
                if k is None:
                    if vt[0] == 'dict':
                        for a_, b_ in vt[1]:
                            cur = self.store(cur, a_, b_)
                    elif i == 0:
                        cur = vt
                    else:
                        okay = False
                        break
                else:
                    cur = self.store(cur, self.ev(k, env, fctx), vt)
            if okay:
                return cur
        for k, v in zip(n.keys, n.values):
            vt = self.ev(v, env, fctx)
            if k is None:
                if vt[0] == 'dict':
                    items.extend(vt[1])
                else:
                    items.append((('opaque', 'dstar'), vt))
            else:
                items.append((self.ev(k, env, fctx), vt))
        return ('dict', tuple(items))

    def _seq(self, kind, elts, env, fctx):
        items = []
        for e in elts:
            if isinstance(e, ast.Starred):
                v = self.ev(e.value, env, fctx)
                if v[0] == 'seq' and not any(x[0] == 'starred' for x in v[2]):
                    items.extend(v[2])
                else:
                    items.append(('starred', v))
            else:
                items.append(self.ev(e, env, fctx))
        return ('seq', kind, tuple(items))

    def ex_List(self, n, env, fctx):
        return self._seq('list', n.elts, env, fctx)

    def ex_Tuple(self, n, env, fctx):
        return self._seq('tuple', n.elts, env, fctx)

    def ex_Set(self, n, env, fctx):
        return self._seq('set', n.elts, env, fctx)

    def ex_Starred(self, n, env, fctx):
        return ('starred', self.ev(n.value, env, fctx))

    def _comp(self, n, elt_fn, env, fctx):
        cenv = Env(env)
        self.envs[id(cenv)] = cenv
        pushed = 0
        for g in n.generators:
            it = self.ev(g.iter, cenv, fctx)
            self.assign(g.target, self.elem_of(it), cenv, fctx)
            for cond in g.ifs:
                ct = self.ev(cond, cenv, fctx)
                self.guards.append((cond, True, ct))
                pushed += 1
        try:
            return elt_fn(cenv)
        finally:
            for _ in range(pushed):
                self.guards.pop()

    def ex_ListComp(self, n, env, fctx):
        return ('seq*', self._comp(n, lambda e: self.ev(n.elt, e, fctx), env, fctx))

    ex_SetComp = ex_ListComp
    ex_GeneratorExp = ex_ListComp

    def ex_DictComp(self, n, env, fctx):
        def f(e):
            return ('upd', ('dict', ()), self.ev(n.key, e, fctx), self.ev(n.value, e, fctx))

        return self._comp(n, f, env, fctx)

    def ex_Lambda(self, n, env, fctx):
        self.envs[id(env)] = env
        self.lambdas[id(n)] = (n, id(env), fctx.module, fctx.fi)
        return ('lambda', id(n))

    def ex_Yield(self, n, env, fctx):
        v = self.ev(n.value, env, fctx) if n.value is not None else NONE
        fctx.yields.append(v)
        return ('opaque', 'sent')

    def ex_YieldFrom(self, n, env, fctx):
        v = self.ev(n.value, env, fctx)
        fctx.yields.append(self.elem_of(v))
        return ('opaque', 'sent')

    def ex_Slice(self, n, env, fctx):
        return self.ev_slice(n, env, fctx)

    # ---- calls ----------------------------------------------------------
    def ex_Call(self, n, env, fctx):
        f = self.ev(n.func, env, fctx)
        args = []
        for a in n.args:
            if isinstance(a, ast.Starred):
                v = self.ev(a.value, env, fctx)
                if v[0] == 'seq' and not any(x[0] == 'starred' for x in v[2]):
                    args.extend(v[2])
                else:
                    args.append(('starred', v))
            else:
                args.append(self.ev(a, env, fctx))
        kwargs = []
        for k in n.keywords:
            v = self.ev(k.value, env, fctx)
            if k.arg is None:
                if v[0] == 'dict' and all(kk[0] == 'const' for kk, _ in v[1]):
                    kwargs.extend((kk[1], vv) for kk, vv in v[1])
                else:
                    kwargs.append((None, v))
            else:
                kwargs.append((k.arg, v))
        site = (fctx.module.rel, n.lineno, n.col_offset)
        # 'literal'.encode() is b'literal'
        if f[0] == 'attr' and f[2] == 'encode' and not args and not kwargs and f[1][0] == 'const' and isinstance(f[1][1], str):
            return ('const', f[1][1].encode())
        # s.encode('<codec>') is bytes(s, '<codec>')
        if f[0] == 'attr' and f[2] == 'encode' and len(args) == 1 and not kwargs and args[0][0] == 'const' and isinstance(args[0][1], str) and self.class_of(f[1]) is None:
            f, args = ('name', 'bytes'), [f[1], args[0]]
        # b.decode('<codec>') is str(b, '<codec>')
        if f[0] == 'attr' and f[2] == 'decode' and len(args) == 1 and not kwargs and args[0][0] == 'const' and isinstance(args[0][1], str) and self.class_of(f[1]) is None:
            f, args = ('name', 'str'), [f[1], args[0]]
        self.record(n, fctx, f, args, kwargs)
        res = self.apply(f, args, kwargs, site, n, env, fctx)
        # mutation of a named receiver
        if isinstance(n.func, ast.Attribute) and n.func.attr in MUTATORS:
            root = _root_name(n.func.value)
            pk = _path_key(n.func.value)
            if root and pk:
                recv = self.ev(n.func.value, env, fctx)
                if self.class_of(recv) is None:
                    new = ('mut', recv, n.func.attr, tuple(args))
                    if isinstance(n.func.value, ast.Name):
                        d = env.defining(root)
                        (d or env).vars[root] = new
                    else:
                        env.set_shared(root, pk, new)
        return res

    def record(self, node, fctx, f, args, kwargs, synthetic=False):
        e = CallEvent(node, fctx.module, fctx.fi, f, tuple(args), tuple(kwargs), tuple(self.guards), synthetic, len(self.stack))
        e.chain = tuple(self.chain)
        self.events.append(e)

    def apply(self, f, args, kwargs, site, node, env, fctx):
        self.chain.append((node, fctx.fi, fctx.module))
        try:
            return self._apply(f, args, kwargs, site, node, env, fctx)
        finally:
            self.chain.pop()

    def _apply(self, f, args, kwargs, site, node, env, fctx):
        k = f[0]
        if k == 'alt':
            return alt(*[self.apply(x, args, kwargs, site, node, env, fctx) for x in f[1]])
        if k == 'bound':
            fi = self.func_by_key.get(f[2])
            self._note_applied(fi, args, kwargs)
            return self.inline(fi, args, kwargs, f[1], None, site=site)
        if k == 'func':
            fi = self.func_by_key.get(f[1])
            if f[1].endswith('utils/adapters.py::from_config'):
                cfg = ('cfg', tuple((k if k is not None else '**', v) for k, v in kwargs) + tuple(('*', a) for a in args))
                return ('seq', 'tuple', (('adaptercls', cfg), ('adapterargs', cfg)))
            if f[1].endswith('utils/__init__.py::as_completed') and args:
                # yields the awaited result of each task (keys of the mapping / elements)
                return ('gen', self.elem_of(args[0]))
            if f[1].endswith('utils/__init__.py::async_gen_wrapper') and args:
                return ('gen', self.elem_of(args[0]))
            return self.inline(fi, args, kwargs, None, None, site=site)
        if k == 'closure':
            fi = self.func_by_key.get(f[1])
            cenv = self.envs.get(f[2])
            self._note_applied(fi, args, kwargs)
            return self.inline(fi, args, kwargs, None, cenv, site=site)
        if k == 'lambda':
            ln, envid, module, lfi = self.lambdas[f[1]]
            lenv = Env(self.envs.get(envid))
            a = ln.args
            names = [p.arg for p in a.posonlyargs + a.args]
            flat = [x for x in args if x[0] != 'starred']
            for i, p in enumerate(names):
                lenv.vars[p] = flat[i] if i < len(flat) else ('param', p)
            return self.ev(ln.body, lenv, _FCtx(lfi, module))
        if k == 'partial':
            return self.apply(f[1], list(f[2]) + list(args), list(f[3]) + list(kwargs), site, node, env, fctx)
        if k == 'class':
            return self.construct(f, args, kwargs, site)
        if k == 'adaptercls':
            return ('adapter', f[1])
        if k == 'name':
            r = self.builtin(f[1], args, kwargs, site, node, env, fctx)
            if r is not None:
                return r
            if '.' in f[1]:
                head, _, last = f[1].rpartition('.')
                r = self.method_summary(('attr', ('name', head), last), args, kwargs, site, node, env, fctx)
                if r is not None:
                    return r
        if k == 'attr':
            r = self.method_summary(f, args, kwargs, site, node, env, fctx)
            if r is not None:
                return r
        self.unresolved_calls += 1
        return ('call', f, tuple(args), tuple(kwargs), site)

    def _note_applied(self, fi, args, kwargs):
        if fi is None or fi.parent is None:
            return
        for fc in reversed(self.fctx_stack):
            if fc.fi is fi.parent:
                if not hasattr(fc, 'applied'):
                    fc.applied = []
                sig = (fi.key, tuple(args), tuple(kwargs))
                if sig not in fc.applied:
                    fc.applied.append(sig)
                return

    def construct(self, f, args, kwargs, site):
        ci = self.class_by_key.get(f[1])
        if ci is None:
            return ('call', f, tuple(args), tuple(kwargs), site)
        if self.is_record_class(ci):
            fields = self.record_fields(ci)
            vals = {}
            flat = [x for x in args if x[0] != 'starred']
            kw = dict((k, v) for k, v in kwargs if k is not None)
            dstar = [v for k, v in kwargs if k is None]
            menv = self.module_env(ci.module)
            for i, (fname, default) in enumerate(fields):
                if i < len(flat):
                    vals[fname] = flat[i]
                elif fname in kw:
                    vals[fname] = kw[fname]
                elif dstar:
                    dv = self._field_default(default, menv, ci)
                    vals[fname] = alt(*[self.lookup(d, ('const', fname)) for d in dstar], dv)
                else:
                    vals[fname] = self._field_default(default, menv, ci)
            return ('record', f[1], tuple((n, vals[n]) for n, _ in fields))
        return ('inst', f[1], tuple(args), tuple(kwargs), site)

    def _field_default(self, default, menv, ci):
        if default is None:
            return ('opaque', 'unset-field')
        if isinstance(default, ast.Call) and (dotted(default.func) or '').endswith('field'):
            for kw in default.keywords:
                if kw.arg == 'default_factory':
                    fac = self.ev(kw.value, menv, _FCtx(None, ci.module))
                    if fac == ('name', 'list'):
                        return ('seq', 'list', ())
                    if fac == ('name', 'dict'):
                        return ('dict', ())
                    return ('call', fac, (), (), None)
                if kw.arg == 'default':
                    return self.ev(kw.value, menv, _FCtx(None, ci.module))
            return ('opaque', 'field')
        return self.ev(default, menv, _FCtx(None, ci.module))

    def builtin(self, name, args, kwargs, site, node, env, fctx):
        if name == 'dict':
            items = []
            for a in args:
                if a[0] == 'dict':
                    items.extend(a[1])
                else:
                    return None
            for k, v in kwargs:
                if k is None:
                    return None
                items = [(a, b) for a, b in items if a != ('const', k)] + [(('const', k), v)]
            return ('dict', tuple(items))
        if name == 'map' and args:
            rest = [self.elem_of(x) for x in args[1:]]
            return ('seq*', self.apply(args[0], rest, [], site, node, env, fctx))
        if name in ('asyncio.gather',):
            items = []
            for a in args:
                if a[0] == 'starred':
                    items.append(('starred', a[1]))
                else:
                    items.append(a)
            return ('seq', 'list', tuple(items))
        if name in ('asyncio.run_coroutine_threadsafe',) and args:
            return args[0]
        if name in ('functools.partial', 'partial') and args:
            return ('partial', args[0], tuple(args[1:]), tuple(kwargs))
        if name == 'dataclasses.replace' and args:
            base = args[0]
            return self.replace_record(base, kwargs)
        if name in ('iter',) and len(args) == 1:
            return args[0]
        if name in ('next',) and args:
            return alt(self.elem_of(args[0]), *(args[1:2]))
        if name == 'memoryview' and len(args) == 1:
            return args[0]
        if name == 'filter' and len(args) == 2:
            return args[1]
        return None

    def replace_record(self, base, kwargs):
        if base[0] == 'alt':
            return alt(*[self.replace_record(b, kwargs) for b in base[1]])
        if base[0] == 'record':
            vals = dict(base[2])
            for k, v in kwargs:
                if k is None:
                    for f in list(vals):
                        vals[f] = alt(self.lookup(v, ('const', f)) if v[0] == 'dict' else ('sub', v, ('const', f)), *( [] if (v[0] == 'dict' and any(a == ('const', f) for a, _ in v[1])) else [vals[f]] ))
                else:
                    vals[k] = v
            return ('record', base[1], tuple((n, vals[n]) for n, _ in base[2]))
        return ('call', ('name', 'dataclasses.replace'), (base,), tuple(kwargs), None)

    def method_summary(self, f, args, kwargs, site, node, env, fctx):
        recv, m = f[1], f[2]
        if m == 'run_in_executor' and len(args) >= 2:
            self.record(node, fctx, args[1], args[2:], [], synthetic=True)
            return self.apply(args[1], list(args[2:]), [], site, node, env, fctx)
        if m == 'submit' and args:
            self.record(node, fctx, args[0], args[1:], kwargs, synthetic=True)
            return self.apply(args[0], list(args[1:]), list(kwargs), site, node, env, fctx)
        if m == 'call_soon_threadsafe' and args:
            self.record(node, fctx, args[0], args[1:], [], synthetic=True)
            return self.apply(args[0], list(args[1:]), [], site, node, env, fctx)
        if m == 'result' and not args:
            return recv
        if m in ('get', 'get_nowait') and recv[0] == 'mut' and not [a for a in args if a[0] != 'const']:
            return self.elem_of(recv)
        if m in ('pop', 'get', 'setdefault') and args and self._is_mapping(recv):
            return alt(self.values_of(recv), *args[1:2])
        if m in ('copy',) and not args and recv[0] in ('dict', 'seq', 'upd', 'mut'):
            return recv
        return None

    # ---- containers -----------------------------------------------------
    def elem_of(self, t):
        k = t[0]
        if k == 'seq':
            items = []
            for x in t[2]:
                items.append(self.elem_of(x[1]) if x[0] == 'starred' else x)
            return alt(*items) if items else ('opaque', 'bottom')
        if k == 'seq*':
            return t[1]
        if k == 'gen':
            return t[1]
        if k == 'alt':
            return alt(*[self.elem_of(x) for x in t[1]])
        if k == 'mut':
            base = self.elem_of(t[1])
            if t[2] in ('add', 'append', 'appendleft', 'put', 'put_nowait', 'insert'):
                return alt(base, t[3][-1] if t[3] else None)
            if t[2] in ('update', 'extend'):
                return alt(base, *[self.elem_of(x) for x in t[3]])
            return base
        if k == 'upd':
            return alt(self.elem_of(t[1]), t[2])
        if k == 'dict':
            return alt(*[a for a, _ in t[1]]) if t[1] else ('opaque', 'bottom')
        if k == 'call':
            f = t[1]
            if f[0] == 'name' and f[1] in ('set', 'list', 'tuple', 'sorted', 'frozenset', 'reversed', 'iter', 'enumerate_', 'dict.fromkeys') and t[2]:
                return self.elem_of(t[2][0])
            if f[0] == 'name' and f[1] in EMPTY_CTORS and not [a for a in t[2] if a[0] not in ('name', 'class', 'func')]:
                return BOTTOM
            if f[0] == 'attr' and f[2] in ('values',) and not t[2]:
                return self.values_of(f[1])
            if f[0] == 'attr' and f[2] in ('keys',) and not t[2]:
                return self.elem_of(f[1])
            if f[0] == 'attr' and f[2] == 'items' and not t[2]:
                return ('seq', 'tuple', (self.elem_of(f[1]), self.values_of(f[1])))
            if f[0] == 'attr' and f[2] in ('copy', 'difference', 'union', '__or__') :
                return alt(self.elem_of(f[1]), *[self.elem_of(x) for x in t[2]] ) if f[2] != 'difference' else self.elem_of(f[1])
        if k == 'bin' and t[1] in ('Sub', 'BitAnd'):
            return self.elem_of(t[2])
        if k == 'bin' and t[1] in ('BitOr', 'Add'):
            return alt(self.elem_of(t[2]), self.elem_of(t[3]))
        return ('elem', t)

    def _is_mapping(self, t):
        k = t[0]
        if k == 'dict':
            return True
        if k == 'upd':
            return True
        if k == 'mut':
            return self._is_mapping(t[1])
        if k == 'alt':
            return all(self._is_mapping(x) for x in t[1])
        return False

    def values_of(self, t):
        k = t[0]
        if k == 'dict':
            return alt(*[b for _, b in t[1]]) if t[1] else ('opaque', 'bottom')
        if k == 'upd':
            return alt(self.values_of(t[1]), t[3])
        if k == 'mut':
            return self.values_of(t[1])
        if k == 'alt':
            return alt(*[self.values_of(x) for x in t[1]])
        return ('elem', ('call', ('attr', t, 'values'), (), (), None))

    # ---- three-valued conditions -------------------------------------------
    def is_none(self, t):
        """True / False / None (unknown) for `t is None`."""
        k = t[0]
        if k == 'const':
            return t[1] is None
        if k in ('record', 'inst', 'dict', 'seq', 'seq*', 'fstr', 'bin', 'func', 'closure', 'class', 'bound', 'lambda', 'upd', 'mut'):
            return False
        if k == 'param':
            if t[1] in self.nonnull:
                return False
            return None
        if k == 'adapter':
            return False
        if k == 'attr' and t[2] in ('private', 'cipher', 'userkey', 'authenticator', 'shared_kdf') and self.modes.get('encrypted') is True:
            ci = self.class_of(t[1])
            if ci is not None and ci.name == 'RepositoryProps':
                return False
        if k == 'call':
            f = t[1]
            if f[0] == 'name' and f[1] in ('set', 'list', 'dict', 'tuple', 'bytes', 'str', 'int', 'len', 'max', 'min', 'sorted', 'threading.Lock', 'threading.Event', 'io.BytesIO'):
                return False
            return None
        if k == 'alt':
            rs = {self.is_none(x) for x in t[1]}
            if rs == {True}:
                return True
            if rs == {False}:
                return False
            return None
        return None

    def decide(self, t):
        d = self._decide(t)
        if d is None and self.guards and not getattr(self, '_inferring', False) and t and t[0] in ('attr', 'param', 'cmp', 'unary', 'name', 'sub', 'call'):
            # a condition already decided by an enclosing / early-exit guard (same pure term)
            key = strip_sites(t)
            if not contains(key, lambda x: isinstance(x, tuple) and x and (x[0] in ('inst', 'mut', 'upd') or (x[0] == 'call' and not (x[1][0] == 'name' and x[1][1] in ('hasattr', 'isinstance', 'callable', 'len'))))):
                self._inferring = True
                try:
                    for _st, pol, test in reversed(self.guards):
                        for term, val in self._infer(test, pol):
                            if term == key:
                                return val
                            if term[0] == 'unary' and term[1] == 'Not' and term[2] == key:
                                return not val
                finally:
                    self._inferring = False
        return d

    def _infer(self, test, pol):
        """atomic facts (term, truth) implied by `test` having truth value `pol`"""
        if not isinstance(test, tuple) or not test:
            return []
        k = test[0]
        if k == 'unary' and test[1] == 'Not':
            return self._infer(test[2], not pol)
        if k == 'bool':
            ops = list(test[2])
            if (test[1] == 'And') == pol:
                # all operands have value pol
                out = []
                for o in ops:
                    out += self._infer(o, pol)
                return out
            # And is false / Or is true: if all but one operand are known to have the other value, the last one is decided
            undecided = [o for o in ops if self._decide(o) is None]
            others_ok = all(self._decide(o) is (not pol) for o in ops if self._decide(o) is not None)
            if len(undecided) == 1 and others_ok:
                return self._infer(undecided[0], pol)
            return []
        return [(strip_sites(test), pol)]

    def _decide(self, t):
        k = t[0]
        if k == 'const':
            return bool(t[1])
        if k == 'cmp':
            op, l, r = t[1], t[2], t[3]
            if op in ('Is', 'IsNot') and r == NONE:
                d = self.is_none(l)
                if d is None:
                    return None
                return d if op == 'Is' else (not d)
            if op in ('Eq', 'NotEq') and l[0] == 'const' and r[0] == 'const':
                return (l[1] == r[1]) if op == 'Eq' else (l[1] != r[1])
            return None
        if k == 'unary' and t[1] == 'Not':
            d = self.decide(t[2])
            return None if d is None else (not d)
        if k == 'bool':
            ds = [self.decide(x) for x in t[2]]
            if t[1] == 'And':
                if any(d is False for d in ds):
                    return False
                if all(d is True for d in ds):
                    return True
                return None
            if any(d is True for d in ds):
                return True
            if all(d is False for d in ds):
                return False
            return None
        if k in ('dict',):
            return bool(t[1])
        if k == 'seq':
            return bool(t[2]) if not any(x[0] == 'starred' for x in t[2]) else None
        if k in ('record', 'inst', 'func', 'closure', 'bound', 'lambda', 'class'):
            return True
        if k == 'param' and t[1] in self.modes:
            return self.modes[t[1]]
        return None

    # ---- event queries ---------------------------------------------------
    def events_where(self, pred):
        return [e for e in self.events if pred(e)]


def _ends_with_return(body):
    if not body:
        return False
    last = body[-1]
    if isinstance(last, (ast.Return, ast.Raise)):
        return True
    if isinstance(last, ast.If):
        return bool(last.orelse) and _ends_with_return(last.body) and _ends_with_return(last.orelse)
    if isinstance(last, (ast.With, ast.AsyncWith)):
        return _ends_with_return(last.body)
    if isinstance(last, ast.Try):
        if last.finalbody and _ends_with_return(last.finalbody):
            return True
        return _ends_with_return(last.body + last.orelse) and all(_ends_with_return(h.body) for h in last.handlers)
    return False


def _root_name(node):
    while isinstance(node, (ast.Attribute, ast.Subscript)):
        node = node.value
    return node.id if isinstance(node, ast.Name) else None


def _path_key(node):
    """'state.bytes_chunked' for attribute chains rooted at a Name; None when the
    chain contains anything else."""
    d = dotted(node)
    return d


def _as_load(node):
    new = ast.parse(ast.unparse(node), mode='eval').body
    ast.copy_location(new, node)
    for n in ast.walk(new):
        ast.copy_location(n, node)
    return new


def backend_method(t):
    """'upload' if t is self.backend.upload (a backend reference), else None."""
    if isinstance(t, tuple) and t[0] == 'attr' and isinstance(t[1], tuple) and t[1][0] == 'attr' and t[1][2] == 'backend' and t[1][1][0] in ('self', 'param'):
        return t[2]
    return None
