"""Source normalisation applied to the parsed corpus before any rule looks at it.

Purpose: the rules were designed against the functions of one tree (sa/inventory.json).
Behaviour-preserving refactorings typically (a) extract new helper functions / methods,
(b) give literals a name, (c) swap equivalent statement idioms.  This pass undoes those,
so that the rules see the same *semantic* structure whichever way the code is factored:

  N-inline   a call of a function that is not in the inventory ("transparent helper":
             a new private method, nested function or module-level function of the same
             module) is expanded at the call site (arguments bound, `return` turned into
             an assignment of the call's target; early returns use the guard-clause
             structure and, only inside loops / try blocks, a completion flag);
  N-dehoist  a transparent method that is referenced as a value (submit(self._m, ...),
             functools.partial(self._m, ...), a call inside a comprehension) is copied
             into the referencing function as a nested function;
  N-const    a module/class constant that is not in the inventory and is bound once to a
             literal expression is replaced by that expression at its uses;
  N-idiom    `with contextlib.suppress(E): B`  ->  try: B / except E: pass
             `x = a if c else b` / `return a if c else b`  ->  if c: ... else: ...
             `if (x := e) ...:`  ->  `x = e` ; `if x ...:`

Everything keeps the original line numbers of the code it came from, so reports still
point at real source lines.  Nothing is executed.  The pass is an aid: when it cannot
expand something (recursion, *args, decorators, generators used by a for loop) it leaves
the code as it is and the rules behave as they would without it."""
from __future__ import annotations

import ast
import copy
import json
import os
from typing import Dict, List, Optional

FuncNode = (ast.FunctionDef, ast.AsyncFunctionDef)
NEVER, SOMETIMES, ALWAYS = 0, 1, 2

_INV_PATH = os.path.join(os.path.dirname(os.path.abspath(__file__)), 'inventory.json')


def load_inventory():
    with open(_INV_PATH, encoding='utf-8') as fh:
        return json.load(fh)


def fingerprint(fn_node):
    """name-independent tokens of a function body (public attribute / call / keyword names, string constants,
    statement kinds) - used only to recognise a *renamed* inventory function"""
    toks = set()
    for n in ast.walk(fn_node):
        if isinstance(n, ast.Attribute) and not n.attr.startswith('_'):
            toks.add('.' + n.attr)
        elif isinstance(n, ast.Constant) and isinstance(n.value, str) and 0 < len(n.value) <= 60:
            toks.add('s:' + n.value)
        elif isinstance(n, ast.keyword) and n.arg:
            toks.add('k:' + n.arg)
        elif isinstance(n, ast.Call) and isinstance(n.func, ast.Name) and not n.func.id.startswith('_'):
            toks.add('c:' + n.func.id)
        elif isinstance(n, (ast.For, ast.AsyncFor, ast.While, ast.Try, ast.With, ast.AsyncWith, ast.Raise, ast.Yield, ast.YieldFrom, ast.Await, ast.Return, ast.Delete, ast.Assert)):
            toks.add('#' + type(n).__name__)
    return sorted(toks)


class Refuse(Exception):
    pass


class _Def:
    __slots__ = ('node', 'qual', 'rel', 'cls', 'owner', 'parent_body', 'expanded', 'busy')

    def __init__(self, node, qual, rel, cls, owner, parent_body):
        self.node = node
        self.qual = qual
        self.rel = rel
        self.cls = cls  # ast.ClassDef or None
        self.owner = owner  # enclosing _Def (nested function) or None
        self.parent_body = parent_body
        self.expanded = False
        self.busy = False

    @property
    def name(self):
        return self.node.name

    @property
    def is_method(self):
        return self.cls is not None and self.owner is None

    @property
    def is_static(self):
        return any(isinstance(d, ast.Name) and d.id == 'staticmethod' for d in self.node.decorator_list)


def _local_walk(node):
    """walk without entering nested defs/classes/lambdas (the nested node itself is yielded)"""
    stack = list(ast.iter_child_nodes(node))
    while stack:
        n = stack.pop()
        yield n
        if isinstance(n, FuncNode + (ast.ClassDef, ast.Lambda)):
            continue
        stack.extend(ast.iter_child_nodes(n))


def _contains(node, kinds):
    if isinstance(node, kinds):
        return True
    return any(isinstance(n, kinds) for n in _local_walk(node))


def _block_contains_return(stmts):
    return any(_contains(s, ast.Return) for s in stmts)


def _strip_doc(body):
    if body and isinstance(body[0], ast.Expr) and isinstance(body[0].value, ast.Constant) and isinstance(body[0].value.value, str):
        return body[1:]
    return body


def _is_simple_arg(e):
    if isinstance(e, (ast.Name, ast.Constant)):
        return True
    if isinstance(e, ast.Attribute):
        return _is_simple_arg(e.value)
    return False


def _static_value(e):
    """literal-like expression that may be substituted for a named constant"""
    if isinstance(e, ast.Constant):
        return True
    if isinstance(e, (ast.Tuple, ast.List, ast.Set)):
        return all(_static_value(x) for x in e.elts)
    if isinstance(e, ast.Dict):
        return all(k is not None and _static_value(k) for k in e.keys) and all(_static_value(v) for v in e.values)
    if isinstance(e, (ast.Name, ast.Attribute)):
        return True  # type names, enum members, other constants
    if isinstance(e, ast.UnaryOp):
        return _static_value(e.operand)
    if isinstance(e, ast.BinOp):
        return _static_value(e.left) and _static_value(e.right)
    if isinstance(e, ast.Call):
        f = e.func
        name = f.id if isinstance(f, ast.Name) else (f.attr if isinstance(f, ast.Attribute) else None)
        if name in ('frozenset', 'set', 'tuple', 'dict', 'compile', 'bytes', 'MappingProxyType', 'type', 'range', 'int', 'float', 'str'):
            return all(_static_value(a) for a in e.args) and all(k.arg is not None and _static_value(k.value) for k in e.keywords)
    return False


class _Subst(ast.NodeTransformer):
    """rename locals / substitute parameters in a copied helper body"""

    def __init__(self, rename: Dict[str, str], subst: Dict[str, ast.AST]):
        self.rename = rename
        self.subst = subst

    def visit_Name(self, n):
        if n.id in self.subst and isinstance(n.ctx, ast.Load):
            return copy.deepcopy(self.subst[n.id])
        if n.id in self.rename:
            n.id = self.rename[n.id]
        return n

    def visit_arg(self, n):
        return n

    def visit_FunctionDef(self, n):
        if n.name in self.rename:
            n.name = self.rename[n.name]
        self.generic_visit(n)
        return n

    visit_AsyncFunctionDef = visit_FunctionDef

    def visit_ExceptHandler(self, n):
        if n.name and n.name in self.rename:
            n.name = self.rename[n.name]
        self.generic_visit(n)
        return n

    def visit_Nonlocal(self, n):
        n.names = [self.rename.get(x, x) for x in n.names]
        return n


def _stores(node) -> set:
    out = set()
    for n in _local_walk(node):
        if isinstance(n, ast.Name) and isinstance(n.ctx, (ast.Store, ast.Del)):
            out.add(n.id)
        elif isinstance(n, FuncNode + (ast.ClassDef,)):
            out.add(n.name)
        elif isinstance(n, ast.ExceptHandler) and n.name:
            out.add(n.name)
        elif isinstance(n, (ast.Import, ast.ImportFrom)):
            for a in n.names:
                out.add((a.asname or a.name).split('.')[0])
    return out


def _all_names(node) -> set:
    out = set()
    for n in ast.walk(node):
        if isinstance(n, ast.Name):
            out.add(n.id)
        elif isinstance(n, ast.arg):
            out.add(n.arg)
        elif isinstance(n, FuncNode):
            out.add(n.name)
    return out


class _FoldFString(ast.NodeTransformer):
    """f'{"lit"} x'  ->  f'lit x'  (a constant substituted for a named constant inside an f-string)"""

    def visit_JoinedStr(self, node):
        self.generic_visit(node)
        vals = []
        for v in node.values:
            if isinstance(v, ast.FormattedValue) and isinstance(v.value, ast.Constant) and isinstance(v.value.value, str) and v.conversion == -1 and v.format_spec is None:
                v = ast.copy_location(ast.Constant(value=v.value.value), v)
            if isinstance(v, ast.Constant) and vals and isinstance(vals[-1], ast.Constant):
                vals[-1] = ast.copy_location(ast.Constant(value=vals[-1].value + v.value), vals[-1])
            else:
                vals.append(v)
        node.values = vals
        if len(vals) == 1 and isinstance(vals[0], ast.Constant):
            return ast.copy_location(ast.Constant(value=vals[0].value), node)
        return node


class _AttrIdioms(ast.NodeTransformer):
    """getattr(o, 'a') -> o.a ; setattr(o, 'a', v) -> o.a = v ; t = t + v -> t += v"""

    def __init__(self):
        self.n = 0

    def visit_Call(self, node):
        self.generic_visit(node)
        if isinstance(node.func, ast.Name) and node.func.id == 'getattr' and len(node.args) == 2 and not node.keywords and isinstance(node.args[1], ast.Constant) and isinstance(node.args[1].value, str) and node.args[1].value.isidentifier():
            self.n += 1
            return ast.copy_location(ast.Attribute(value=node.args[0], attr=node.args[1].value, ctx=ast.Load()), node)
        return node

    def visit_Expr(self, node):
        self.generic_visit(node)
        c = node.value
        if isinstance(c, ast.Call) and isinstance(c.func, ast.Name) and c.func.id == 'setattr' and len(c.args) == 3 and not c.keywords and isinstance(c.args[1], ast.Constant) and isinstance(c.args[1].value, str) and c.args[1].value.isidentifier():
            self.n += 1
            tgt = ast.Attribute(value=c.args[0], attr=c.args[1].value, ctx=ast.Store())
            return self._aug(ast.copy_location(ast.Assign(targets=[ast.copy_location(tgt, c)], value=c.args[2]), node))
        return node

    def _built_then_stored(self, node):
        """x = Ctor(..); <statements using x>; self.a = x   (x used nowhere else)  ->  self.a = Ctor(..); <.. self.a ..>"""
        body = node.body
        i = 0
        while i < len(body):
            st = body[i]
            if isinstance(st, ast.Assign) and len(st.targets) == 1 and isinstance(st.targets[0], ast.Name) and isinstance(st.value, ast.Call):
                x = st.targets[0].id
                stores = [n for n in ast.walk(node) if isinstance(n, ast.Name) and n.id == x and isinstance(n.ctx, (ast.Store, ast.Del))]
                if len(stores) == 1:
                    for j in range(i + 1, len(body)):
                        fin = body[j]
                        if isinstance(fin, ast.Assign) and len(fin.targets) == 1 and isinstance(fin.targets[0], ast.Attribute) and isinstance(fin.targets[0].value, ast.Name) and fin.targets[0].value.id == 'self' and isinstance(fin.value, ast.Name) and fin.value.id == x:
                            attr = fin.targets[0].attr
                            between = body[i + 1 : j]
                            after = body[j + 1 :]
                            touched = any(isinstance(n, ast.Attribute) and n.attr == attr for b in between for n in ast.walk(b))
                            used_after = any(isinstance(n, ast.Name) and n.id == x for b in after for n in ast.walk(b))
                            nested = any(isinstance(n, (ast.FunctionDef, ast.AsyncFunctionDef, ast.Lambda)) for b in between for n in ast.walk(b))
                            if not touched and not used_after and not nested:
                                st.targets = [ast.copy_location(ast.Attribute(value=ast.Name(id='self', ctx=ast.Load()), attr=attr, ctx=ast.Store()), st.targets[0])]
                                for b in between:
                                    for p_ in ast.walk(b):
                                        for f_, v_ in ast.iter_fields(p_):
                                            if isinstance(v_, ast.Name) and v_.id == x and isinstance(v_.ctx, ast.Load):
                                                setattr(p_, f_, ast.copy_location(ast.Attribute(value=ast.Name(id='self', ctx=ast.Load()), attr=attr, ctx=ast.Load()), v_))
                                            elif isinstance(v_, list):
                                                for k_, e_ in enumerate(v_):
                                                    if isinstance(e_, ast.Name) and e_.id == x and isinstance(e_.ctx, ast.Load):
                                                        v_[k_] = ast.copy_location(ast.Attribute(value=ast.Name(id='self', ctx=ast.Load()), attr=attr, ctx=ast.Load()), e_)
                                del body[j]
                                self.n += 1
                            break
            i += 1

    def visit_FunctionDef(self, node):
        self.generic_visit(node)
        if node.args.args and node.args.args[0].arg == 'self':
            self._built_then_stored(node)
        return node

    visit_AsyncFunctionDef = visit_FunctionDef

    def visit_Assign(self, node):
        self.generic_visit(node)
        return self._aug(node)

    def _aug(self, node):
        if len(node.targets) == 1 and isinstance(node.targets[0], (ast.Name, ast.Attribute)) and isinstance(node.value, ast.BinOp) and isinstance(node.value.op, (ast.Add, ast.Sub)):
            t = node.targets[0]
            if ast.dump(t).replace('Store()', 'Load()') == ast.dump(node.value.left):
                self.n += 1
                return ast.copy_location(ast.AugAssign(target=t, op=node.value.op, value=node.value.right), node)
        return node


class _YieldFromGenExp(ast.NodeTransformer):
    """`yield from (elt for x in it if cond)` as a statement is the loop `for x in it: if cond: yield elt`"""

    def __init__(self):
        self.n = 0
        self.bound = [set()]

    def _fn(self, node):
        # names bound by comprehensions are local to them: count only those bound outside
        inside = {id(x) for g in ast.walk(node) if isinstance(g, (ast.GeneratorExp, ast.ListComp, ast.SetComp, ast.DictComp)) for c in g.generators for x in ast.walk(c.target)}
        names = {a.arg for a in ast.walk(node.args) if isinstance(a, ast.arg)} | {n.id for n in ast.walk(node) if isinstance(n, ast.Name) and isinstance(n.ctx, ast.Store) and id(n) not in inside}
        self.bound.append(names)
        self.generic_visit(node)
        self.bound.pop()
        return node

    visit_FunctionDef = visit_AsyncFunctionDef = _fn

    def generic_visit(self, node):
        # `tmp = [.. for ..]` consumed only by the `for` that follows: the loop iterates the comprehension itself
        for fld in ('body', 'orelse', 'finalbody'):
            blk = getattr(node, fld, None)
            if isinstance(blk, list) and blk and isinstance(blk[0], ast.stmt):
                i = 0
                while i + 1 < len(blk):
                    a, b = blk[i], blk[i + 1]
                    if isinstance(a, ast.Assign) and len(a.targets) == 1 and isinstance(a.targets[0], ast.Name) and isinstance(a.value, (ast.ListComp, ast.GeneratorExp)) and isinstance(b, ast.For) and isinstance(b.iter, ast.Name) and b.iter.id == a.targets[0].id:
                        nm = a.targets[0].id
                        owner = node
                        uses = [n for n in ast.walk(owner) if isinstance(n, ast.Name) and n.id == nm]
                        if len(uses) == 2:
                            b.iter = a.value
                            del blk[i]
                            self.n += 1
                            continue
                    i += 1
        return super().generic_visit(node)

    def _identity_over_targets(self, node):
        """`for a, b in [(p, q) for p, q in it if c]: body` -> `for a, b in it: if c[p:=a, q:=b]: body`"""
        g = node.iter
        if not isinstance(g, (ast.ListComp, ast.GeneratorExp)) or len(g.generators) != 1 or node.orelse:
            return None
        c = g.generators[0]
        if c.is_async or ast.dump(g.elt).replace('Load()', 'X').replace('Store()', 'X') != ast.dump(c.target).replace('Load()', 'X').replace('Store()', 'X'):
            return None
        src_names = [n.id for n in ast.walk(c.target) if isinstance(n, ast.Name)]
        dst_names = [n.id for n in ast.walk(node.target) if isinstance(n, ast.Name)]
        if len(src_names) != len(dst_names) or ast.dump(c.target).count('Name') != ast.dump(node.target).count('Name'):
            return None
        if isinstance(c.target, ast.Tuple) != isinstance(node.target, ast.Tuple):
            return None
        ren = dict(zip(src_names, dst_names))
        body = node.body
        for cond in reversed(c.ifs):
            body = [ast.copy_location(ast.If(test=_Subst(ren, {}).visit(copy.deepcopy(cond)), body=body, orelse=[]), cond)]
        new = ast.copy_location(ast.For(target=node.target, iter=c.iter, body=body, orelse=[], type_comment=None), node)
        self.n += 1
        return ast.fix_missing_locations(new)

    def visit_For(self, node):
        """`for x in [elt for y in it if c]: body` with a side-effect free elt is `for y in it: if c: x = elt; body`"""
        self.generic_visit(node)
        ident = self._identity_over_targets(node)
        if ident is not None:
            return ident
        g = node.iter
        if not isinstance(g, (ast.ListComp, ast.GeneratorExp)) or node.orelse or not isinstance(node.target, ast.Name):
            return node
        if any(c.is_async for c in g.generators) or any(isinstance(n, (ast.Call, ast.Await, ast.NamedExpr, ast.Yield, ast.YieldFrom)) for n in ast.walk(g.elt)):
            return node
        if any(isinstance(n, (ast.Break, ast.Continue)) for n in ast.walk(node)) and len(g.generators) > 1:
            return node
        tnames = {n.id for c in g.generators for n in ast.walk(c.target) if isinstance(n, ast.Name)}
        if tnames & self.bound[-1] or node.target.id in tnames:
            return node
        body = [ast.copy_location(ast.Assign(targets=[node.target], value=g.elt, type_comment=None), node)] + node.body
        for c in reversed(g.generators):
            for cond in reversed(c.ifs):
                body = [ast.copy_location(ast.If(test=cond, body=body, orelse=[]), cond)]
            body = [ast.copy_location(ast.For(target=c.target, iter=c.iter, body=body, orelse=[], type_comment=None), node)]
        self.n += 1
        return body[0]

    def visit_Expr(self, node):
        self.generic_visit(node)
        v = node.value
        if isinstance(v, ast.Await):
            return node
        if not (isinstance(v, ast.YieldFrom) and isinstance(v.value, ast.GeneratorExp)):
            return node
        g = v.value
        if any(c.is_async for c in g.generators):
            return node
        if {n.id for c in g.generators for n in ast.walk(c.target) if isinstance(n, ast.Name)} & self.bound[-1]:
            return node  # the loop variable would shadow a local of the function
        body = [ast.copy_location(ast.Expr(value=ast.copy_location(ast.Yield(value=g.elt), g.elt)), g.elt)]
        for c in reversed(g.generators):
            for cond in reversed(c.ifs):
                body = [ast.copy_location(ast.If(test=cond, body=body, orelse=[]), cond)]
            body = [ast.copy_location(ast.For(target=c.target, iter=c.iter, body=body, orelse=[], type_comment=None), node)]
        self.n += 1
        return body


class _LocalAnnAssign(ast.NodeTransformer):
    """`x: T = v` inside a function body is the assignment `x = v` (class-level annotated fields are left alone)"""

    def __init__(self):
        self.n = 0
        self.depth = 0

    def _fn(self, node):
        self.depth += 1
        self.generic_visit(node)
        self.depth -= 1
        return node

    visit_FunctionDef = visit_AsyncFunctionDef = _fn

    def visit_ClassDef(self, node):
        saved, self.depth = self.depth, 0
        self.generic_visit(node)
        self.depth = saved
        return node

    def visit_AnnAssign(self, node):
        if self.depth and node.value is not None and isinstance(node.target, (ast.Name, ast.Attribute, ast.Subscript)):
            self.n += 1
            return ast.copy_location(ast.Assign(targets=[node.target], value=node.value, type_comment=None), node)
        if self.depth and node.value is None:
            self.n += 1
            return ast.copy_location(ast.Pass(), node)
        return node


class _LoopIdioms(ast.NodeTransformer):
    """Loop spellings from the standard library, written back as plain loops (run before everything else):
      for i, x in enumerate(xs, start=K): B        ->  i = K - 1; for x in xs: i += 1; B
      for x in takewhile(lambda v: C(v), xs): B    ->  for x in xs: if not C(x): break; B
      it = <generator expression / takewhile / map / filter>; ... for x in it: B   (single use)  ->  for x in <that>: B
      d.update({k: v for x in xs if c})            ->  for x in xs: if c: d[k] = v
    """

    def __init__(self):
        self.n = 0

    def _block(self, stmts):
        # single-use lazy iterables bound to a local are put where they are consumed
        changed = True
        while changed:
            changed = False
            for i, st in enumerate(stmts):
                if not (isinstance(st, ast.Assign) and len(st.targets) == 1 and isinstance(st.targets[0], ast.Name)):
                    continue
                v = st.value
                lazy = isinstance(v, ast.GeneratorExp) or (isinstance(v, ast.Call) and (_dotted(v.func) or '').rsplit('.', 1)[-1] in ('takewhile', 'dropwhile', 'map', 'filter', 'islice', 'chain', 'partial'))
                if not lazy and isinstance(v, ast.Call) and i + 1 < len(stmts) and isinstance(stmts[i + 1], (ast.For, ast.AsyncFor)) and isinstance(stmts[i + 1].iter, ast.Name) and stmts[i + 1].iter.id == st.targets[0].id:
                    # `it = f(..)` directly followed by `for x in it:` (the only use): nothing runs in between
                    lazy = True
                if not lazy:
                    continue
                name = st.targets[0].id
                rest = stmts[i + 1 :]
                uses = [n for r in rest for n in ast.walk(r) if isinstance(n, ast.Name) and n.id == name]
                stores = [n for r in stmts for n in ast.walk(r) if isinstance(n, ast.Name) and n.id == name and isinstance(n.ctx, (ast.Store, ast.Del))]
                if len(uses) != 1 or len(stores) != 1 or not isinstance(uses[0].ctx, ast.Load):
                    continue
                u = uses[0]
                holder = None
                for r in rest:
                    for par in ast.walk(r):
                        if isinstance(par, (ast.For, ast.AsyncFor)) and par.iter is u and not (isinstance(v, ast.Call) and (_dotted(v.func) or '').rsplit('.', 1)[-1] == 'partial'):
                            holder = (par, 'iter', None)
                        elif isinstance(par, ast.Call) and (_dotted(par.func) or '').rsplit('.', 1)[-1] in ('takewhile', 'dropwhile', 'map', 'filter') and len(par.args) == 2 and par.args[1] is u:
                            holder = (par, 'args', 1)
                        elif isinstance(par, ast.Call) and (_dotted(par.func) or '') == 'iter' and len(par.args) == 2 and par.args[0] is u and isinstance(v, ast.Call) and (_dotted(v.func) or '').rsplit('.', 1)[-1] == 'partial':
                            holder = (par, 'args', 0)
                if holder is None:
                    continue
                par, fld, idx = holder
                if idx is None:
                    setattr(par, fld, v)
                else:
                    getattr(par, fld)[idx] = v
                del stmts[i]
                self.n += 1
                changed = True
                break
        return stmts

    def generic_visit(self, node):
        super().generic_visit(node)
        for fld in ('body', 'orelse', 'finalbody'):
            blk = getattr(node, fld, None)
            if isinstance(blk, list) and blk and isinstance(blk[0], ast.stmt):
                blk = self._block(blk)
                out = []
                for st in blk:
                    r = self._stmt(st)
                    out.extend(r if isinstance(r, list) else [r])
                setattr(node, fld, out or [ast.Pass()])
        return node

    def _stmt(self, st):
        # d.update({k: v for x in xs if c})
        if isinstance(st, ast.Expr) and isinstance(st.value, ast.Call) and isinstance(st.value.func, ast.Attribute) and st.value.func.attr == 'update' and len(st.value.args) == 1 and not st.value.keywords and isinstance(st.value.args[0], ast.DictComp) and isinstance(st.value.func.value, ast.Name):
            comp = st.value.args[0]
            if not any(g.is_async for g in comp.generators):
                body = [ast.Assign(targets=[ast.Subscript(value=st.value.func.value, slice=comp.key, ctx=ast.Store())], value=comp.value, type_comment=None)]
                for g in reversed(comp.generators):
                    for cond in reversed(g.ifs):
                        body = [ast.If(test=cond, body=body, orelse=[])]
                    body = [ast.For(target=g.target, iter=g.iter, body=body, orelse=[], type_comment=None)]
                self.n += 1
                return [ast.fix_missing_locations(ast.copy_location(b, st)) for b in body]
        if isinstance(st, (ast.For, ast.AsyncFor)) and not st.orelse and isinstance(st.iter, ast.Call):
            fn = (_dotted(st.iter.func) or '').rsplit('.', 1)[-1]
            it = st.iter
            # enumerate
            if fn == 'enumerate' and isinstance(st, ast.For) and it.args and isinstance(st.target, ast.Tuple) and len(st.target.elts) == 2 and isinstance(st.target.elts[0], ast.Name):
                start = it.args[1] if len(it.args) > 1 else next((k.value for k in it.keywords if k.arg == 'start'), ast.Constant(value=0))
                if isinstance(start, ast.Constant) and isinstance(start.value, int):
                    cname = st.target.elts[0]
                    init = ast.Assign(targets=[ast.Name(id=cname.id, ctx=ast.Store())], value=ast.Constant(value=start.value - 1), type_comment=None)
                    inc = ast.AugAssign(target=ast.Name(id=cname.id, ctx=ast.Store()), op=ast.Add(), value=ast.Constant(value=1))
                    st.target = st.target.elts[1]
                    st.iter = it.args[0]
                    st.body = [inc] + st.body
                    self.n += 1
                    for x in (init, inc):
                        ast.copy_location(x, st)
                    return [ast.fix_missing_locations(init), ast.fix_missing_locations(st)]
            # for x in iter(partial(f, a, b), SENTINEL): B   ->   while True: x = f(a, b); if x == SENTINEL: break; B
            if fn == 'iter' and isinstance(st, ast.For) and len(it.args) == 2 and isinstance(st.target, ast.Name) and isinstance(it.args[0], ast.Call) and (_dotted(it.args[0].func) or '').rsplit('.', 1)[-1] == 'partial' and it.args[0].args and isinstance(it.args[1], ast.Constant):
                pc = it.args[0]
                call = ast.Call(func=pc.args[0], args=list(pc.args[1:]), keywords=list(pc.keywords))
                asg = ast.Assign(targets=[ast.Name(id=st.target.id, ctx=ast.Store())], value=call, type_comment=None)
                sent = it.args[1].value
                if sent in (0, b'', '', None) and not isinstance(sent, bool):
                    test = ast.UnaryOp(op=ast.Not(), operand=ast.Name(id=st.target.id, ctx=ast.Load()))
                else:
                    test = ast.Compare(left=ast.Name(id=st.target.id, ctx=ast.Load()), ops=[ast.Eq()], comparators=[it.args[1]])
                guard = ast.If(test=test, body=[ast.Break()], orelse=[])
                w = ast.While(test=ast.Constant(value=True), body=[asg, guard] + st.body, orelse=[])
                self.n += 1
                return ast.fix_missing_locations(ast.copy_location(w, st))
            # takewhile
            if fn == 'takewhile' and isinstance(st, ast.For) and len(it.args) == 2 and isinstance(it.args[0], ast.Lambda) and len(it.args[0].args.args) == 1 and isinstance(st.target, ast.Name):
                lam = it.args[0]
                cond = _Subst({}, {lam.args.args[0].arg: ast.Name(id=st.target.id, ctx=ast.Load())}).visit(copy.deepcopy(lam.body))
                guard = ast.If(test=ast.UnaryOp(op=ast.Not(), operand=cond), body=[ast.Break()], orelse=[])
                st.iter = it.args[1]
                st.body = [ast.fix_missing_locations(ast.copy_location(guard, st))] + st.body
                self.n += 1
                return ast.fix_missing_locations(st)
        return st


def _dotted(e):
    parts = []
    while isinstance(e, ast.Attribute):
        parts.append(e.attr)
        e = e.value
    if isinstance(e, ast.Name):
        parts.append(e.id)
        return '.'.join(reversed(parts))
    return None


class _CallIdioms(ast.NodeTransformer):
    """`itemgetter(k)` is `lambda x: x[k]`; `attrgetter('a')` is `lambda x: x.a`;
    `d.setdefault(k, []).append(v)` is the per-key collection `d[k].append(v)` of a defaultdict"""

    def __init__(self):
        self.n = 0

    def _unroll(self, node, parts):
        """comprehension over a short literal sequence of constants -> the literal it denotes"""
        if len(node.generators) != 1:
            return None
        g = node.generators[0]
        if g.ifs or g.is_async or not isinstance(g.target, ast.Name) or not isinstance(g.iter, (ast.Tuple, ast.List)) or not (0 < len(g.iter.elts) <= 24) or not all(isinstance(e, ast.Constant) for e in g.iter.elts):
            return None
        out = []
        for e in g.iter.elts:
            out.append([_Subst({}, {g.target.id: e}).visit(copy.deepcopy(p_)) for p_ in parts])
        return out

    def visit_DictComp(self, node):
        self.generic_visit(node)
        rows = self._unroll(node, [node.key, node.value])
        if rows is None:
            return node
        self.n += 1
        return ast.fix_missing_locations(ast.copy_location(ast.Dict(keys=[r[0] for r in rows], values=[r[1] for r in rows]), node))

    def visit_ListComp(self, node):
        self.generic_visit(node)
        rows = self._unroll(node, [node.elt])
        if rows is None:
            return node
        self.n += 1
        return ast.fix_missing_locations(ast.copy_location(ast.List(elts=[r[0] for r in rows], ctx=ast.Load()), node))

    def visit_Call(self, node):
        self.generic_visit(node)
        f = node.func
        name = f.id if isinstance(f, ast.Name) else (f.attr if isinstance(f, ast.Attribute) and isinstance(f.value, ast.Name) and f.value.id == 'operator' else None)
        if name == 'itemgetter' and len(node.args) == 1 and not node.keywords and isinstance(node.args[0], ast.Constant):
            self.n += 1
            lam = ast.Lambda(args=ast.arguments(posonlyargs=[], args=[ast.arg(arg='x')], vararg=None, kwonlyargs=[], kw_defaults=[], kwarg=None, defaults=[]), body=ast.Subscript(value=ast.Name(id='x', ctx=ast.Load()), slice=node.args[0], ctx=ast.Load()))
            return ast.fix_missing_locations(ast.copy_location(lam, node))
        if name == 'attrgetter' and len(node.args) == 1 and not node.keywords and isinstance(node.args[0], ast.Constant) and isinstance(node.args[0].value, str) and node.args[0].value.isidentifier():
            self.n += 1
            lam = ast.Lambda(args=ast.arguments(posonlyargs=[], args=[ast.arg(arg='x')], vararg=None, kwonlyargs=[], kw_defaults=[], kwarg=None, defaults=[]), body=ast.Attribute(value=ast.Name(id='x', ctx=ast.Load()), attr=node.args[0].value, ctx=ast.Load()))
            return ast.fix_missing_locations(ast.copy_location(lam, node))
        # <d>.setdefault(k, <empty collection>).<mutator>(..)
        if isinstance(f, ast.Attribute) and f.attr in ('append', 'add', 'extend', 'update') and isinstance(f.value, ast.Call) and isinstance(f.value.func, ast.Attribute) and f.value.func.attr == 'setdefault' and len(f.value.args) == 2 and not f.value.keywords:
            dflt = f.value.args[1]
            empty = (isinstance(dflt, (ast.List, ast.Set)) and not dflt.elts) or (isinstance(dflt, ast.Dict) and not dflt.keys) or (isinstance(dflt, ast.Call) and isinstance(dflt.func, ast.Name) and dflt.func.id in ('list', 'set', 'dict') and not dflt.args and not dflt.keywords)
            if empty:
                self.n += 1
                f.value = ast.fix_missing_locations(ast.copy_location(ast.Subscript(value=f.value.func.value, slice=f.value.args[0], ctx=ast.Load()), f.value))
        return node


class _NotCompare(ast.NodeTransformer):
    """not (a == b) -> a != b ; not (a is b) -> a is not b ; not (a in b) -> a not in b ; not not x (in tests) stays"""

    _NEG = {ast.Eq: ast.NotEq, ast.NotEq: ast.Eq, ast.Is: ast.IsNot, ast.IsNot: ast.Is, ast.In: ast.NotIn, ast.NotIn: ast.In}

    def __init__(self):
        self.n = 0

    def visit_UnaryOp(self, node):
        self.generic_visit(node)
        if isinstance(node.op, ast.Not) and isinstance(node.operand, ast.Compare) and len(node.operand.ops) == 1 and type(node.operand.ops[0]) in self._NEG:
            c = node.operand
            c.ops = [self._NEG[type(c.ops[0])]()]
            self.n += 1
            return ast.copy_location(c, node)
        return node


class _HandlerIsinstance(ast.NodeTransformer):
    """inside `except T as e:` the test `isinstance(e, T)` holds: `isinstance(e, T) and X` is `X` there (as long as the
    handler does not rebind e)."""

    def __init__(self):
        self.n = 0
        self.stack = []

    def visit_ExceptHandler(self, node):
        ok = node.name is not None and node.type is not None and not isinstance(node.type, ast.Tuple) and not any(isinstance(x, ast.Name) and x.id == node.name and isinstance(x.ctx, ast.Store) for b in node.body for x in ast.walk(b))
        self.stack.append((node.name, ast.dump(node.type)) if ok else None)
        self.generic_visit(node)
        self.stack.pop()
        return node

    def visit_FunctionDef(self, node):
        st, self.stack = self.stack, []
        self.generic_visit(node)
        self.stack = st
        return node

    visit_AsyncFunctionDef = visit_FunctionDef
    visit_Lambda = visit_FunctionDef

    def visit_If(self, node):
        t = node.test
        frame = None
        if isinstance(t, ast.Call) and isinstance(t.func, ast.Name) and t.func.id == 'isinstance' and len(t.args) == 2 and not t.keywords and isinstance(t.args[0], ast.Name):
            nm = t.args[0].id
            if not any(isinstance(x, ast.Name) and x.id == nm and isinstance(x.ctx, ast.Store) for b in node.body for x in ast.walk(b)):
                frame = (nm, ast.dump(t.args[1]))
        node.test = self.visit(node.test)
        self.stack.append(frame)
        node.body = [self.visit(b) for b in node.body]
        self.stack.pop()
        node.orelse = [self.visit(b) for b in node.orelse]
        return node

    def _known(self, e):
        if not (isinstance(e, ast.Call) and isinstance(e.func, ast.Name) and e.func.id == 'isinstance' and len(e.args) == 2 and not e.keywords and isinstance(e.args[0], ast.Name)):
            return False
        return any(fr is not None and fr[0] == e.args[0].id and fr[1] == ast.dump(e.args[1]) for fr in self.stack)

    def visit_BoolOp(self, node):
        self.generic_visit(node)
        if isinstance(node.op, ast.And) and any(self._known(v) for v in node.values):
            rest = [v for v in node.values if not self._known(v)]
            self.n += 1
            if not rest:
                return ast.copy_location(ast.Constant(True), node)
            if len(rest) == 1:
                return rest[0]
            node.values = rest
        return node


class Normalizer:
    def __init__(self, trees: Dict[str, ast.Module], inventory=None):
        self.trees = trees
        self.inv = inventory if inventory is not None else load_inventory()
        self.defs: Dict[str, List[_Def]] = {}
        self.by_node: Dict[int, _Def] = {}
        self.classes: Dict[str, Dict[str, ast.ClassDef]] = {}
        self.counter = 0
        self.stats = {'inlined_calls': 0, 'dehoisted': 0, 'constants': 0, 'idioms': 0, 'removed_defs': 0, 'refused': 0}
        self.log: List[str] = []
        self.temps = set()
        self.canonical = {}

    # ------------------------------------------------------------------ index
    def _index(self):
        for rel, tree in self.trees.items():
            self.defs[rel] = []
            self.classes[rel] = {}
            self._index_body(rel, tree.body, '', None, None)

    def _index_body(self, rel, body, prefix, cls, owner):
        for st in body:
            if isinstance(st, FuncNode):
                d = _Def(st, prefix + st.name, rel, cls, owner, body)
                self.defs[rel].append(d)
                self.by_node[id(st)] = d
                self._index_nested(rel, st, d, cls)
            elif isinstance(st, ast.ClassDef) and owner is None and cls is None:
                self.classes[rel][st.name] = st
                self._index_body(rel, st.body, prefix + st.name + '.', st, None)
            elif isinstance(st, (ast.If, ast.Try)) and owner is None:
                for fld in ('body', 'orelse', 'finalbody'):
                    self._index_body(rel, getattr(st, fld, []) or [], prefix, cls, owner)
                for h in getattr(st, 'handlers', []):
                    self._index_body(rel, h.body, prefix, cls, owner)

    def _index_nested(self, rel, fn, d, cls):
        def rec(body_owner_node):
            for fld in ('body', 'orelse', 'finalbody', 'handlers'):
                blk = getattr(body_owner_node, fld, None)
                if not isinstance(blk, list):
                    continue
                for st in blk:
                    if isinstance(st, FuncNode):
                        sub = _Def(st, f'{d.qual}.<locals>.{st.name}', rel, cls, d, blk)
                        self.defs[rel].append(sub)
                        self.by_node[id(st)] = sub
                        self._index_nested(rel, st, sub, cls)
                    elif isinstance(st, ast.ClassDef):
                        continue
                    elif isinstance(st, (ast.stmt, ast.ExceptHandler)):
                        rec(st)

        rec(fn)

    def transparent(self, d: _Def) -> bool:
        inv = self.inv.get(d.rel)
        if inv is None:
            return False
        if d.name.startswith('__') and d.name.endswith('__'):
            return False
        return self.canonical.get(id(d), d.qual) not in inv['functions']

    def _match_renames(self):
        """A function that is not in the inventory is a *new* helper unless an inventory function of the same scope
        has disappeared and this one looks like it (same kind, similar size): then it is that function under a new
        name and stays opaque (renaming a nested function must not change what the rules see)."""
        self.canonical = {}
        self.renames = []
        for rel, defs in self.defs.items():
            inv = self.inv.get(rel)
            if inv is None:
                continue
            known = set(inv['functions'])
            prof = inv.get('profiles', {})

            def scope(children, prefix):
                present = {c.name: c for c in children}
                inv_here = [q for q in known if q.startswith(prefix) and '.' not in q[len(prefix):]]
                missing = [q for q in inv_here if q[len(prefix):] not in present]
                unknown = [c for c in children if prefix + c.name not in known]
                for c in children:
                    self.canonical[id(c)] = prefix + c.name
                if missing and unknown:
                    cands = []
                    for c in unknown:
                        a = c.node.args
                        me = {'nargs': len(a.posonlyargs + a.args + a.kwonlyargs), 'async': isinstance(c.node, ast.AsyncFunctionDef), 'gen': any(isinstance(x, (ast.Yield, ast.YieldFrom)) for x in _local_walk(c.node)), 'size': sum(1 for _ in ast.walk(c.node))}
                        mytoks = set(fingerprint(c.node))
                        for q in missing:
                            p_ = prof.get(q)
                            if p_ is None or p_['async'] != me['async'] or p_['gen'] != me['gen']:
                                continue
                            size_sim = 1 - abs(p_['size'] - me['size']) / max(p_['size'], me['size'], 1)
                            toks = set(p_.get('tokens', []))
                            jac = (len(toks & mytoks) / len(toks | mytoks)) if (toks or mytoks) else 1.0
                            sim = (1.0 if p_['nargs'] == me['nargs'] else 0.7) * (0.35 * size_sim + 0.65 * jac)
                            if sim >= 0.55:
                                cands.append((sim, id(c), c, q))
                    used_c, used_q = set(), set()
                    for sim, _i, c, q in sorted(cands, key=lambda x: -x[0]):
                        if id(c) in used_c or q in used_q:
                            continue
                        used_c.add(id(c))
                        used_q.add(q)
                        self.canonical[id(c)] = q
                        self.renames.append((rel, c, q[len(prefix):]))
                        self.log.append(f'{rel}: {prefix}{c.name} is taken to be the renamed {q} (similarity {sim:.2f})')
                    # by elimination: one function of the scope vanished, one unknown function of the same kind appeared
                    rest_q = [q for q in missing if q not in used_q]
                    rest_c = [c for c in unknown if id(c) not in used_c]
                    if len(rest_q) == 1 and len(rest_c) == 1:
                        c, q = rest_c[0], rest_q[0]
                        p_ = prof.get(q)
                        a = c.node.args
                        same_kind = p_ is not None and p_['async'] == isinstance(c.node, ast.AsyncFunctionDef) and p_['gen'] == any(isinstance(x, (ast.Yield, ast.YieldFrom)) for x in _local_walk(c.node)) and p_['nargs'] == len(a.posonlyargs + a.args + a.kwonlyargs) + (1 if a.vararg else 0) * 0
                        called = any(isinstance(n, ast.Name) and n.id == c.name or isinstance(n, ast.Attribute) and n.attr == c.name for t in self.trees.values() for n in ast.walk(t))
                        if same_kind and called:
                            self.canonical[id(c)] = q
                            self.renames.append((rel, c, q[len(prefix):]))
                            self.log.append(f'{rel}: {prefix}{c.name} is taken to be the renamed {q} (the only candidate of its kind)')
                for c in children:
                    sub = [x for x in defs if x.owner is c]
                    if sub:
                        scope(sub, self.canonical[id(c)] + '.<locals>.')

            scope([d for d in defs if d.owner is None and d.cls is None], '')
            for cname, cnode in self.classes[rel].items():
                scope([d for d in defs if d.owner is None and d.cls is cnode], cname + '.')
        self._rename_back()
        self._rename_constants_back()

    def _rename_constants_back(self):
        """a module / class constant of the inventory that disappeared while an unknown constant with the same value
        appeared in the same scope is that constant under a new name"""
        for rel, tree in self.trees.items():
            inv = self.inv.get(rel)
            if inv is None or 'const_values' not in inv:
                continue
            known = set(inv['constants'])
            values = inv['const_values']

            def scope(body, prefix, attr_refs):
                present = {}
                for st in body:
                    if isinstance(st, ast.Assign) and len(st.targets) == 1 and isinstance(st.targets[0], ast.Name):
                        present[st.targets[0].id] = st
                missing = [q for q in known if q.startswith(prefix) and '.' not in q[len(prefix):] and q[len(prefix):] not in present]
                unknown = [n for n in present if prefix + n not in known]
                for n in unknown:
                    dump = ast.dump(present[n].value)[:400]
                    cands = [q for q in missing if values.get(q) == dump]
                    if len(cands) != 1:
                        continue
                    old = cands[0][len(prefix):]
                    missing.remove(cands[0])
                    for t in self.trees.values():
                        for x in ast.walk(t):
                            if isinstance(x, ast.Name) and x.id == n and (t is tree) and not attr_refs:
                                x.id = old
                            elif isinstance(x, ast.Attribute) and x.attr == n:
                                x.attr = old
                            elif isinstance(x, ast.Name) and x.id == n and attr_refs and t is tree and x is present[n].targets[0]:
                                x.id = old
                    present[n].targets[0].id = old
                    self.stats['renamed_back'] = self.stats.get('renamed_back', 0) + 1
                    self.log.append(f'{rel}: constant {prefix}{n} is taken to be the renamed {prefix}{old}')

            scope(tree.body, '', False)
            for cname, c in self.classes.get(rel, {}).items():
                scope(c.body, cname + '.', True)

    def _rename_back(self):
        """give recognised renamed functions their inventory name again (definition and every reference), so that
        rules that name an anchor still find it"""
        for rel, d, old_name in self.renames:
            new_name = d.name
            if new_name == old_name:
                continue
            tree = self.trees[rel]
            if d.owner is not None:
                # nested function: references live in the enclosing function
                scope_nodes = [d.owner.node]
                attr_refs = False
            elif d.cls is not None:
                scope_nodes = list(self.trees.values())
                attr_refs = True
            else:
                scope_nodes = [tree]
                attr_refs = False
            clash = any(isinstance(n, FuncNode) and n.name == old_name and n is not d.node for sn in scope_nodes[:1] for n in ast.walk(sn)) if not attr_refs else any(isinstance(st, FuncNode) and st.name == old_name for st in d.cls.body)
            if clash:
                continue
            for sn in scope_nodes:
                for n in ast.walk(sn):
                    if attr_refs and isinstance(n, ast.Attribute) and n.attr == new_name:
                        n.attr = old_name
                    elif not attr_refs and isinstance(n, ast.Name) and n.id == new_name:
                        n.id = old_name
                    elif not attr_refs and d.owner is None and isinstance(n, ast.Attribute) and n.attr == new_name and isinstance(n.value, ast.Name):
                        n.attr = old_name  # module.function references from this module
            if d.owner is None and d.cls is None:
                # references from other modules: <module alias>.<name>
                for other in self.trees.values():
                    if other is tree:
                        continue
                    for n in ast.walk(other):
                        if isinstance(n, ast.Attribute) and n.attr == new_name:
                            n.attr = old_name
                        elif isinstance(n, ast.ImportFrom):
                            for al in n.names:
                                if al.name == new_name:
                                    if al.asname is None:
                                        al.asname = new_name
                                    al.name = old_name
            d.node.name = old_name
            # same-named sibling definitions (one per branch of an if/else) are the same function
            for other in self.defs[rel]:
                if other is not d and other.owner is d.owner and other.cls is d.cls and other.name == new_name:
                    other.node.name = old_name
                    other.qual = other.qual[: len(other.qual) - len(new_name)] + old_name
                    self.canonical[id(other)] = self.canonical.get(id(d), other.qual)
            d.qual = d.qual[: len(d.qual) - len(new_name)] + old_name
            self.stats['renamed_back'] = self.stats.get('renamed_back', 0) + 1

    # ------------------------------------------------------------- resolution
    def _class_bases(self, rel, cls: ast.ClassDef):
        out = []
        for b in cls.bases:
            if isinstance(b, ast.Name) and b.id in self.classes[rel]:
                out.append((rel, self.classes[rel][b.id]))
        return out

    def _method(self, rel, cls: ast.ClassDef, name):
        seen = set()
        stack = [(rel, cls)]
        while stack:
            r, c = stack.pop(0)
            if id(c) in seen:
                continue
            seen.add(id(c))
            for st in c.body:
                if isinstance(st, FuncNode) and st.name == name:
                    return self.by_node.get(id(st))
            stack.extend(self._class_bases(r, c))
        return None

    def _overridden(self, d: _Def) -> bool:
        n = 0
        for rel, cs in self.classes.items():
            for c in cs.values():
                for st in c.body:
                    if isinstance(st, FuncNode) and st.name == d.name:
                        n += 1
        return n > 1

    def _self_name(self, ctx_def: _Def) -> Optional[str]:
        top = ctx_def
        while top.owner is not None:
            top = top.owner
        if top.cls is None or top.is_static:
            return None
        a = top.node.args
        params = a.posonlyargs + a.args
        return params[0].arg if params else None

    def resolve(self, call_func, ctx_def: _Def) -> Optional[_Def]:
        """the transparent definition a call expression's func refers to, or None"""
        if isinstance(call_func, ast.Name):
            cur = ctx_def
            while cur is not None:
                for d in self.defs[ctx_def.rel]:
                    if d.owner is cur and d.name == call_func.id:
                        return d if self.transparent(d) else None
                # a parameter / local of the same name shadows outer definitions
                if call_func.id in {a.arg for a in cur.node.args.args + cur.node.args.kwonlyargs + cur.node.args.posonlyargs}:
                    return None
                cur = cur.owner
            for d in self.defs[ctx_def.rel]:
                if d.owner is None and d.cls is None and d.name == call_func.id:
                    return d if self.transparent(d) else None
            # a new helper of ANOTHER module of the package, imported by name (`from .utils.fs import write_at`)
            return self._imported_helper(ctx_def.rel, call_func.id)
        if isinstance(call_func, ast.Attribute) and isinstance(call_func.value, ast.Name):
            imported = self._imported_module_helper(ctx_def.rel, call_func.value.id, call_func.attr)
            if imported is not None:
                return imported
            sn = self._self_name(ctx_def)
            top = ctx_def
            while top.owner is not None:
                top = top.owner
            if top.cls is None:
                return None
            base = call_func.value.id
            if base == sn or base == top.cls.name or base == 'cls':
                d = self._method(ctx_def.rel, top.cls, call_func.attr)
                if d is not None and self.transparent(d) and not self._overridden(d):
                    if base != sn and not d.is_static:
                        return None
                    return d
        return None

    def _module_of_import(self, rel, level, module):
        """repository-relative path of the module an import statement of `rel` names (package-internal imports only)"""
        base = os.path.dirname(rel)
        if level == 0:
            if not module or not module.startswith('replicat'):
                return None
            parts = module.split('.')
            base = ''
        else:
            for _ in range(level - 1):
                base = os.path.dirname(base)
            parts = module.split('.') if module else []
        cand = os.path.join(base, *parts)
        for p_ in (cand + '.py', os.path.join(cand, '__init__.py')):
            if p_ in self.trees:
                return p_
        return None

    def _imported_helper(self, rel, name):
        tree = self.trees.get(rel)
        if tree is None:
            return None
        for st in tree.body:
            if isinstance(st, ast.ImportFrom):
                for a in st.names:
                    if (a.asname or a.name) == name:
                        target = self._module_of_import(rel, st.level, st.module)
                        if target is None or target == rel:
                            return None
                        for d in self.defs.get(target, []):
                            if d.owner is None and d.cls is None and d.name == a.name:
                                return d if self.transparent(d) else None
                        return None
        return None

    def _imported_module_helper(self, rel, modname, attr):
        """`fs.write_at(..)` with `from .utils import fs` / `from . import utils`"""
        tree = self.trees.get(rel)
        if tree is None:
            return None
        for st in tree.body:
            if isinstance(st, ast.ImportFrom):
                for a in st.names:
                    if (a.asname or a.name) == modname:
                        target = self._module_of_import(rel, st.level, ((st.module + '.') if st.module else '') + a.name)
                        if target is None or target == rel:
                            continue
                        for d in self.defs.get(target, []):
                            if d.owner is None and d.cls is None and d.name == attr:
                                return d if self.transparent(d) else None
        return None

    # --------------------------------------------------------------- inlining
    def _fresh(self, base, taken):
        name = base
        while name in taken:
            self.counter += 1
            name = f'{base}__{self.counter}'
        taken.add(name)
        return name

    def _inlinable(self, d: _Def) -> bool:
        for dec in d.node.decorator_list:
            if not (isinstance(dec, ast.Name) and dec.id == 'staticmethod'):
                return False
        a = d.node.args
        if (a.vararg is not None or a.kwarg is not None) and not self._forwards_stars_only(d):
            return False
        for n in _local_walk(d.node):
            if isinstance(n, (ast.Global,)):
                return False
        # a helper that calls itself cannot be expanded (the copy would contain the call again)
        for n in ast.walk(d.node):
            if isinstance(n, ast.Call) and ((isinstance(n.func, ast.Name) and n.func.id == d.name) or (isinstance(n.func, ast.Attribute) and n.func.attr == d.name)):
                return False
        return not d.busy

    def _forwards_stars_only(self, d: _Def) -> bool:
        """*args / **kwargs of the helper are only passed on as *args / **kwargs of calls in its body"""
        a = d.node.args
        va, kw = (a.vararg.arg if a.vararg else None), (a.kwarg.arg if a.kwarg else None)
        fine = set()
        for n in ast.walk(d.node):
            if isinstance(n, ast.Call):
                for x in n.args:
                    if isinstance(x, ast.Starred) and isinstance(x.value, ast.Name) and x.value.id == va:
                        fine.add(id(x.value))
                for k in n.keywords:
                    if k.arg is None and isinstance(k.value, ast.Name) and k.value.id == kw:
                        fine.add(id(k.value))
        for n in ast.walk(d.node):
            if isinstance(n, ast.Name) and n.id in (va, kw) and id(n) not in fine:
                return False
        return True

    @staticmethod
    def _splice_stars(node, d, bound):
        """replace the forwarded *args / **kwargs in a copied helper body by the call site's extra arguments"""
        a = d.node.args
        va, kw = (a.vararg.arg if a.vararg else None), (a.kwarg.arg if a.kwarg else None)
        if va is None and kw is None:
            return node
        for n in ast.walk(node):
            if isinstance(n, ast.Call):
                args = []
                for x in n.args:
                    if isinstance(x, ast.Starred) and isinstance(x.value, ast.Name) and x.value.id == va:
                        args.extend(copy.deepcopy(e) for e in bound.get('*', []))
                    else:
                        args.append(x)
                n.args = args
                kws = []
                for k in n.keywords:
                    if k.arg is None and isinstance(k.value, ast.Name) and k.value.id == kw:
                        kws.extend(copy.deepcopy(e) for e in bound.get('**', []))
                    else:
                        kws.append(k)
                n.keywords = kws
        return node

    def _bind(self, d: _Def, call: ast.Call, via_self: bool):
        a = d.node.args
        pos = list(a.posonlyargs + a.args)
        if d.is_method and not d.is_static:
            if not pos:
                raise Refuse('method without self')
            pos = pos[1:]
        defaults = list(a.defaults)
        all_pos = list(a.posonlyargs + a.args)
        dmap = {}
        for p, dv in zip(reversed(all_pos), reversed(defaults)):
            dmap[p.arg] = dv
        for p, dv in zip(a.kwonlyargs, a.kw_defaults):
            if dv is not None:
                dmap[p.arg] = dv
        bound = {}
        if any(isinstance(x, ast.Starred) for x in call.args) or any(k.arg is None for k in call.keywords):
            raise Refuse('star arguments')
        if len(call.args) > len(pos):
            if a.vararg is None:
                raise Refuse('too many positional arguments')
            bound['*'] = list(call.args[len(pos):])
        for p, v in zip(pos, call.args):
            bound[p.arg] = v
        names = [p.arg for p in pos] + [p.arg for p in a.kwonlyargs]
        for k in call.keywords:
            if k.arg not in names and a.kwarg is not None and k.arg not in (a.kwarg.arg, a.vararg.arg if a.vararg else None):
                bound.setdefault('**', []).append(k)
                continue
            if k.arg not in names or k.arg in bound:
                raise Refuse('keyword mismatch')
            bound[k.arg] = k.value
        for n in names:
            if n not in bound:
                if n not in dmap:
                    raise Refuse('missing argument')
                bound[n] = dmap[n]
        return names, bound

    def _preferred_names(self, d: _Def, call, targets):
        """helper locals that are returned straight into a caller variable take that variable's name
        (`x = h()` with `return y` in h: y is renamed x instead of introducing a copy)"""
        if not targets or len(targets) != 1:
            return {}
        t = targets[0]
        rets = [n for n in _local_walk(d.node) if isinstance(n, ast.Return) and n.value is not None]
        if not rets:
            return {}
        a = d.node.args
        params = {x.arg for x in a.posonlyargs + a.args + a.kwonlyargs}
        argnames = {n.id for x in list(call.args) + [k.value for k in call.keywords] for n in ast.walk(x) if isinstance(n, ast.Name)}
        pref = {}

        def consider(tname, exprs):
            locs = {e.id for e in exprs if isinstance(e, ast.Name)}
            if len(locs) == 1:
                l = next(iter(locs))
                if l not in params and tname not in argnames and l not in pref and tname not in pref.values():
                    pref[l] = tname

        if isinstance(t, ast.Name):
            consider(t.id, [r.value for r in rets])
        elif isinstance(t, ast.Tuple) and all(isinstance(e, ast.Name) for e in t.elts):
            if all(isinstance(r.value, ast.Tuple) and len(r.value.elts) == len(t.elts) for r in rets):
                for i, e in enumerate(t.elts):
                    consider(e.id, [r.value.elts[i] for r in rets])
        # the target name must not already be a different local of the helper
        body_names = _all_names(d.node)
        return {l: tn for l, tn in pref.items() if tn not in body_names or tn == l}

    def _prepare_body(self, d: _Def, call: ast.Call, ctx_names: set, prefer=None):
        """copied helper body with parameters bound and clashing locals renamed"""
        self.expand(d)
        star_prologue = []
        if len(call.args) == 1 and isinstance(call.args[0], ast.Starred) and not call.keywords:
            # h(*E) with h(p1, .., pn): p1, .., pn = E
            a = d.node.args
            pos = list(a.posonlyargs + a.args)
            if d.is_method and not d.is_static:
                pos = pos[1:]
            if pos and not a.defaults and not a.kwonlyargs:
                temps = [self._fresh(p.arg, ctx_names) for p in pos]
                tgt = ast.Tuple(elts=[ast.Name(id=t, ctx=ast.Store()) for t in temps], ctx=ast.Store())
                asg = ast.Assign(targets=[tgt], value=call.args[0].value)
                ast.copy_location(asg, call)
                ast.fix_missing_locations(asg)
                star_prologue.append(asg)
                call = ast.Call(func=call.func, args=[ast.copy_location(ast.Name(id=t, ctx=ast.Load()), call) for t in temps], keywords=[])
        names, bound = self._bind(d, call, True)
        body = copy.deepcopy(_strip_doc(d.node.body))
        holder = ast.Module(body=body, type_ignores=[])
        stored = set()
        for s in body:
            stored |= _stores(s)
            if isinstance(s, ast.Name):
                pass
        # top-level statements are not reached by _stores of themselves
        for s in body:
            for n in [s]:
                if isinstance(n, FuncNode + (ast.ClassDef,)):
                    stored.add(n.name)
        nonlocals = set()
        for n in _local_walk(holder):
            if isinstance(n, ast.Nonlocal):
                nonlocals |= set(n.names)
        rename, subst, prologue = {}, {}, []
        for p in names:
            arg = bound[p]
            if isinstance(arg, ast.Name) and arg.id == p:
                continue
            if _is_simple_arg(arg) and p not in stored:
                subst[p] = arg
                continue
            # a literal sequence of simple values that the helper only iterates (`for x in param:`) is substituted as it
            # is; the loop over the literal is unrolled afterwards
            if isinstance(arg, (ast.Tuple, ast.List)) and all(_is_simple_arg(e) for e in arg.elts) and p not in stored:
                uses = [n for n in ast.walk(holder) if isinstance(n, ast.Name) and n.id == p]
                iters = [n for l_ in ast.walk(holder) if isinstance(l_, ast.For) and isinstance(l_.iter, ast.Name) and l_.iter.id == p for n in [l_.iter]]
                if uses and len(uses) == len(iters):
                    subst[p] = arg
                    continue
            new = self._fresh(p, ctx_names) if p in ctx_names else p
            ctx_names.add(new)
            if new != p:
                rename[p] = new
            asg = ast.Assign(targets=[ast.Name(id=new, ctx=ast.Store())], value=copy.deepcopy(arg))
            ast.copy_location(asg, call)
            prologue.append(asg)
        for l in sorted(stored - set(names) - nonlocals):
            if prefer and l in prefer:
                rename[l] = prefer[l]
            elif l in ctx_names:
                rename[l] = self._fresh(l, ctx_names)
            else:
                ctx_names.add(l)
        tr = _Subst(rename, subst)
        body = [tr.visit(s) for s in body]
        body = [self._splice_stars(s, d, bound) for s in body]
        # `nonlocal x` of a helper expanded inside the scope that owns x is a plain local there
        body = [s for s in body if not isinstance(s, ast.Nonlocal)] if nonlocals else body
        prologue = star_prologue + prologue
        for s in prologue + body:
            ast.fix_missing_locations(s)
        return prologue, body

    def _expr_body(self, d: _Def):
        body = [s for s in _strip_doc(d.node.body) if not isinstance(s, ast.Assert)]
        if len(body) == 1 and isinstance(body[0], ast.Return) and body[0].value is not None:
            return body[0].value
        return None

    # return elimination ------------------------------------------------------
    def _falls(self, stmts) -> bool:
        """can control fall off the end of this block (without return / raise / break / continue)?"""
        for s in stmts:
            if isinstance(s, (ast.Return, ast.Raise, ast.Break, ast.Continue)):
                return False
            if isinstance(s, ast.If):
                if not self._falls(s.body) and not self._falls(s.orelse):
                    return False
            elif isinstance(s, (ast.With, ast.AsyncWith)):
                if not self._falls(s.body):
                    return False
            elif isinstance(s, ast.Try) and not s.finalbody:
                if not self._falls(s.body + s.orelse) and all(not self._falls(h.body) for h in s.handlers):
                    return False
        return True

    def _elim(self, stmts, store, flag, used):
        """rewrite `return e` into store(e): guard-clause structure where possible, a completion flag otherwise"""
        out = []
        for i, s in enumerate(stmts):
            if isinstance(s, ast.Return):
                out.extend(store(s.value, s))
                return out
            if not _contains(s, ast.Return):
                out.append(s)
                continue
            rest = stmts[i + 1 :]
            if isinstance(s, ast.If):
                fb, fo = self._falls(s.body), self._falls(s.orelse)
                if not fb and not fo:
                    s.body = self._elim(s.body, store, flag, used) or [ast.copy_location(ast.Pass(), s)]
                    s.orelse = self._elim(s.orelse, store, flag, used)
                    out.append(s)
                    return out
                if not fb:
                    s.body = self._elim(s.body, store, flag, used) or [ast.copy_location(ast.Pass(), s)]
                    s.orelse = self._elim(s.orelse + rest, store, flag, used)
                    out.append(s)
                    return out
                if not fo:
                    s.body = self._elim(s.body + rest, store, flag, used) or [ast.copy_location(ast.Pass(), s)]
                    s.orelse = self._elim(s.orelse, store, flag, used)
                    out.append(s)
                    return out
            elif isinstance(s, (ast.With, ast.AsyncWith)):
                if not self._falls(s.body):
                    s.body = self._elim(list(s.body), store, flag, used) or [ast.copy_location(ast.Pass(), s)]
                    out.append(s)
                    return out
            elif isinstance(s, ast.Try) and not s.finalbody and not _block_contains_return(s.body) and not _block_contains_return(s.orelse) and s.handlers and all(not self._falls(h.body) for h in s.handlers):
                # try: B / except E: return c   + rest   ->   try: B / except E: <store c> / else: rest
                for h in s.handlers:
                    h.body = self._elim(h.body, store, flag, used) or [ast.copy_location(ast.Pass(), s)]
                s.orelse = self._elim(s.orelse + rest, store, flag, used)
                out.append(s)
                return out
            used.append(True)
            out.extend(self._flagged([s] + rest, store, flag, False))
            return out
        return out

    def _flagged(self, stmts, store, flag, in_loop):
        out = []
        for i, s in enumerate(stmts):
            if isinstance(s, ast.Return):
                out.extend(store(s.value, s))
                f = ast.Assign(targets=[ast.Name(id=flag, ctx=ast.Store())], value=ast.Constant(value=True))
                ast.copy_location(f, s)
                out.append(f)
                if in_loop:
                    out.append(ast.copy_location(ast.Break(), s))
                return out
            if not _contains(s, ast.Return):
                out.append(s)
                continue
            is_loop = isinstance(s, (ast.For, ast.AsyncFor, ast.While))
            for fld in ('body', 'orelse', 'finalbody'):
                blk = getattr(s, fld, None)
                if isinstance(blk, list) and blk:
                    setattr(s, fld, self._flagged(blk, store, flag, True if (is_loop and fld == 'body') else in_loop) or [ast.Pass()])
            for h in getattr(s, 'handlers', []) or []:
                h.body = self._flagged(h.body, store, flag, in_loop) or [ast.Pass()]
            out.append(s)
            rest = self._flagged(stmts[i + 1 :], store, flag, in_loop)
            if is_loop and in_loop:
                g = ast.If(test=ast.Name(id=flag, ctx=ast.Load()), body=[ast.Break()], orelse=[])
                out.append(ast.copy_location(g, s))
            if rest:
                g = ast.If(test=ast.UnaryOp(op=ast.Not(), operand=ast.Name(id=flag, ctx=ast.Load())), body=rest, orelse=[])
                out.append(ast.copy_location(g, s))
            return out
        return out

    def _inline_stmt(self, d: _Def, call: ast.Call, mode, targets, site, ctx_names):
        """statements replacing `site`; mode: 'return' | 'assign' | 'discard' | 'augassign'"""
        prologue, body = self._prepare_body(d, call, ctx_names, self._preferred_names(d, call, targets) if mode == 'assign' else None)
        if mode == 'return':
            tail = body[-1] if body else None
            if not isinstance(tail, (ast.Return, ast.Raise)):
                body = body + [ast.copy_location(ast.Return(value=ast.Constant(value=None)), site)]
            res = prologue + body
        else:
            flag = self._fresh('_returned', ctx_names)
            used = []

            def store(value, at):
                v = value if value is not None else ast.Constant(value=None)
                if mode == 'assign':
                    if len(targets) == 1 and ast.dump(targets[0]).replace('Store()', 'Load()') == ast.dump(v):
                        return []  # x = x
                    st = ast.Assign(targets=copy.deepcopy(targets), value=v)
                elif isinstance(v, ast.Constant) or isinstance(v, ast.Name):
                    return []
                else:
                    st = ast.Expr(value=v)
                return [ast.copy_location(st, at)]

            if mode == 'assign' and self._falls(body):
                body = body + [ast.copy_location(ast.Return(value=ast.Constant(value=None)), site)]
            new = self._elim(body, store, flag, used)
            if used:
                init = ast.Assign(targets=[ast.Name(id=flag, ctx=ast.Store())], value=ast.Constant(value=False))
                new = [ast.copy_location(init, site)] + new
            res = prologue + new
        for s in res:
            ast.fix_missing_locations(s)
            s._inlined_from = d.qual
        self.stats['inlined_calls'] += 1
        self.log.append(f'inline {d.rel}::{d.qual} at line {getattr(site, "lineno", 0)}')
        return res or [ast.copy_location(ast.Pass(), site)]

    # ----------------------------------------------------------- statements
    def _unwrap(self, value, d_async_needed=None):
        """(call, awaited, yield_from) for value forms CALL / await CALL / yield from CALL"""
        if isinstance(value, ast.Await) and isinstance(value.value, ast.Call):
            return value.value, True, False
        if isinstance(value, ast.YieldFrom) and isinstance(value.value, ast.Call):
            return value.value, False, True
        if isinstance(value, ast.Call):
            return value, False, False
        return None, False, False

    def _callee_ok(self, d: _Def, awaited, yfrom):
        if not self._inlinable(d):
            return False
        is_async = isinstance(d.node, ast.AsyncFunctionDef)
        has_yield = any(isinstance(n, (ast.Yield, ast.YieldFrom)) for n in _local_walk(d.node))
        if is_async != awaited:
            return False
        if has_yield != yfrom:
            return False
        if is_async and has_yield:
            return False
        return True

    def _direct_site(self, s, ctx_def, ctx_names):
        """statement-level expansion of `CALL`, `x = CALL`, `return CALL` (optionally awaited / yield from)"""
        if isinstance(s, ast.Expr):
            value, mode, targets = s.value, 'discard', None
        elif isinstance(s, ast.Assign):
            value, mode, targets = s.value, 'assign', s.targets
        elif isinstance(s, ast.AnnAssign) and s.value is not None and s.simple:
            value, mode, targets = s.value, 'assign', [s.target]
        elif isinstance(s, ast.Return) and s.value is not None:
            value, mode, targets = s.value, 'return', None
        else:
            return None
        call, awaited, yfrom = self._unwrap(value)
        if call is None:
            return None
        d = self.resolve(call.func, ctx_def)
        if d is None or not self._callee_ok(d, awaited, yfrom):
            return None
        if yfrom and mode == 'return':
            return None
        # arguments may themselves contain transparent calls: they are handled when the result is re-visited
        try:
            return self._inline_stmt(d, call, mode, targets, s, ctx_names)
        except Refuse as e:
            self.stats['refused'] += 1
            self.log.append(f'refused {d.qual}: {e}')
            return None

    def _header_exprs(self, s):
        if isinstance(s, (ast.If,)):
            return [('test', s.test)]
        if isinstance(s, (ast.For, ast.AsyncFor)):
            return [('iter', s.iter)]
        if isinstance(s, (ast.Expr, ast.Return)):
            return [('value', s.value)] if s.value is not None else []
        if isinstance(s, (ast.Assign, ast.AugAssign, ast.AnnAssign)):
            return [('value', s.value)] if s.value is not None else []
        if isinstance(s, ast.Raise):
            return [('exc', s.exc)] if s.exc is not None else []
        if isinstance(s, ast.Assert):
            return [('test', s.test)]
        if isinstance(s, (ast.With, ast.AsyncWith)):
            return [(('items', i), it.context_expr) for i, it in enumerate(s.items)]
        if isinstance(s, ast.While):
            return [('test', s.test)]
        return []

    def _candidates(self, root, ctx_def):
        """transparent calls inside an expression, innermost first; each with the chain of ancestors"""
        out = []

        def rec(n, chain):
            if isinstance(n, (ast.Lambda, ast.ListComp, ast.SetComp, ast.DictComp, ast.GeneratorExp)):
                return
            for c in ast.iter_child_nodes(n):
                rec(c, chain + [n])
            if isinstance(n, ast.Call):
                d = self.resolve(n.func, ctx_def)
                if d is not None:
                    out.append((n, chain, d))

        rec(root, [])
        return out

    def _replace_child(self, parent, old, new):
        for fld, val in ast.iter_fields(parent):
            if val is old:
                setattr(parent, fld, new)
                return True
            if isinstance(val, list):
                for i, x in enumerate(val):
                    if x is old:
                        val[i] = new
                        return True
        return False

    def _in_expression(self, s, ctx_def, ctx_names):
        """expression-level substitution and hoisting inside one statement; returns statements to put before `s`"""
        before = []
        for _ in range(12):
            progressed = False
            for key, root in self._header_exprs(s):
                holder = ast.Expr(value=root)
                for call, chain, d in self._candidates(holder, ctx_def):
                    parent = chain[-1]
                    awaited = isinstance(parent, ast.Await)
                    yfrom = isinstance(parent, ast.YieldFrom)
                    if not self._callee_ok(d, awaited, yfrom) or yfrom:
                        continue
                    node = parent if awaited else call
                    node_parent = chain[-2] if awaited else parent
                    # whole-value direct sites are handled by _direct_site
                    if node_parent is holder and isinstance(s, (ast.Expr, ast.Assign, ast.AnnAssign, ast.Return)) and key == 'value':
                        continue
                    self.expand(d)
                    try:
                        names, bound = self._bind(d, call, True)
                    except Refuse:
                        self.stats['refused'] += 1
                        continue
                    e = self._expr_body(d)
                    if e is not None:
                        new = self._splice_stars(_Subst({}, {p: bound[p] for p in names}).visit(copy.deepcopy(e)), d, bound)
                        new = ast.copy_location(new, call)
                        ast.fix_missing_locations(new)
                    else:
                        # hoist: evaluation order inside one statement is not what the rules look at
                        conditional = any(isinstance(x, (ast.IfExp, ast.BoolOp)) for x in chain) or isinstance(s, ast.While)
                        if conditional:
                            continue
                        tmp = self._fresh(f'_{d.name.strip("_")}_result', ctx_names)
                        self.temps.add(tmp)
                        asg = ast.Assign(targets=[ast.Name(id=tmp, ctx=ast.Store())], value=node)
                        ast.copy_location(asg, call)
                        ast.fix_missing_locations(asg)
                        res = self._direct_site(asg, ctx_def, ctx_names)
                        if res is None:
                            continue
                        before.extend(res)
                        new = ast.copy_location(ast.Name(id=tmp, ctx=ast.Load()), call)
                    if node_parent is holder:
                        if isinstance(key, tuple):
                            s.items[key[1]].context_expr = new
                        else:
                            setattr(s, key, new)
                    else:
                        self._replace_child(node_parent, node, new)
                    if e is not None:
                        self.stats['inlined_calls'] += 1
                        self.log.append(f'substitute {d.rel}::{d.qual} at line {getattr(call, "lineno", 0)}')
                    progressed = True
                    break
                if progressed:
                    break
            if not progressed:
                break
        return before

    def _idioms(self, s, ctx_names):
        """statement-level idiom normal forms; returns a list of statements replacing s, or None"""
        # with contextlib.suppress(E): body  ->  try/except E: pass
        if isinstance(s, ast.With) and len(s.items) == 1 and s.items[0].optional_vars is None:
            ce = s.items[0].context_expr
            if isinstance(ce, ast.Call) and ((isinstance(ce.func, ast.Name) and ce.func.id == 'suppress') or (isinstance(ce.func, ast.Attribute) and ce.func.attr == 'suppress' and isinstance(ce.func.value, ast.Name) and ce.func.value.id == 'contextlib')) and ce.args and not ce.keywords:
                typ = ce.args[0] if len(ce.args) == 1 else ast.Tuple(elts=list(ce.args), ctx=ast.Load())
                h = ast.ExceptHandler(type=typ, name=None, body=[ast.copy_location(ast.Pass(), s)])
                t = ast.Try(body=s.body, handlers=[ast.copy_location(h, s)], orelse=[], finalbody=[])
                ast.copy_location(t, s)
                ast.fix_missing_locations(t)
                self.stats['idioms'] += 1
                return [t]
        # x = a if c else b   /   return a if c else b
        if isinstance(s, (ast.Assign, ast.Return, ast.AnnAssign)) and isinstance(getattr(s, 'value', None), ast.IfExp):
            ie = s.value
            b = copy.deepcopy(s)
            b.value = b.value.orelse
            a = s
            a.value = ie.body
            r = ast.If(test=ie.test, body=[a], orelse=[b])
            ast.copy_location(r, s)
            self.stats['idioms'] += 1
            return [r]
        # if (x := e) ... :   ->   x = e ; if x ... :
        if isinstance(s, ast.If):
            t = s.test
            holder = None
            if isinstance(t, ast.NamedExpr):
                holder = ('test', s)
            elif isinstance(t, ast.UnaryOp) and isinstance(t.operand, ast.NamedExpr):
                holder = ('operand', t)
            elif isinstance(t, ast.Compare) and isinstance(t.left, ast.NamedExpr):
                holder = ('left', t)
            if holder is not None:
                ne = getattr(holder[1], holder[0])
                asg = ast.Assign(targets=[ast.Name(id=ne.target.id, ctx=ast.Store())], value=ne.value)
                ast.copy_location(asg, s)
                ast.fix_missing_locations(asg)
                setattr(holder[1], holder[0], ast.copy_location(ast.Name(id=ne.target.id, ctx=ast.Load()), ne))
                self.stats['idioms'] += 1
                return [asg, s]
        # for x in (a, b, c): body   ->   body[x:=a] ; body[x:=b] ; body[x:=c]     (short literal sequences only)
        # for a, b in ((x1, y1), (x2, y2)): body  ->  the same with the pairs taken apart
        if isinstance(s, ast.For) and not s.orelse and isinstance(s.target, ast.Tuple) and all(isinstance(t, ast.Name) for t in s.target.elts) and isinstance(s.iter, (ast.Tuple, ast.List)) and 0 < len(s.iter.elts) <= 6 and all(isinstance(e, (ast.Tuple, ast.List)) and len(e.elts) == len(s.target.elts) and all(_is_simple_arg(x) for x in e.elts) for e in s.iter.elts):
            body_nodes = [n for b in s.body for n in [b] + list(_local_walk(b))]
            tn = {t.id for t in s.target.elts}
            assigned = any(isinstance(n, ast.Name) and n.id in tn and isinstance(n.ctx, (ast.Store, ast.Del)) for n in body_nodes)
            jumps = any(isinstance(n, (ast.Break, ast.Continue)) for n in body_nodes)
            nested_defs = any(isinstance(n, FuncNode + (ast.Lambda, ast.ClassDef)) for n in body_nodes)
            if not assigned and not jumps and not nested_defs:
                out = []
                for e in s.iter.elts:
                    m_ = {t.id: x for t, x in zip(s.target.elts, e.elts)}
                    for b in s.body:
                        out.append(_Subst({}, m_).visit(copy.deepcopy(b)))
                for o in out:
                    ast.fix_missing_locations(o)
                self.stats['idioms'] += 1
                return out
        if isinstance(s, ast.For) and not s.orelse and isinstance(s.target, ast.Name) and isinstance(s.iter, (ast.Tuple, ast.List)) and 0 <= len(s.iter.elts) <= 6 and not any(isinstance(e, ast.Starred) for e in s.iter.elts):
            body_nodes = [n for b in s.body for n in [b] + list(_local_walk(b))]
            assigned = any(isinstance(n, ast.Name) and n.id == s.target.id and isinstance(n.ctx, (ast.Store, ast.Del)) for n in body_nodes)
            jumps = any(isinstance(n, (ast.Break, ast.Continue)) for n in body_nodes)
            nested_defs = any(isinstance(n, FuncNode + (ast.Lambda, ast.ClassDef)) for n in body_nodes)
            if not assigned and not jumps and not nested_defs and all(_is_simple_arg(e) for e in s.iter.elts):
                out = []
                for e in s.iter.elts:
                    for b in s.body:
                        out.append(_Subst({}, {s.target.id: e}).visit(copy.deepcopy(b)))
                for o in out:
                    ast.fix_missing_locations(o)
                self.stats['idioms'] += 1
                return out or [ast.copy_location(ast.Pass(), s)]
        # while (x := e) ...: body   ->   while True: x = e ; if not (x ...): break ; body
        if isinstance(s, ast.While) and not s.orelse:
            t = s.test
            holder = None
            if isinstance(t, ast.NamedExpr):
                holder = ('test', s)
            elif isinstance(t, ast.UnaryOp) and isinstance(t.operand, ast.NamedExpr):
                holder = ('operand', t)
            elif isinstance(t, ast.Compare) and isinstance(t.left, ast.NamedExpr):
                holder = ('left', t)
            if holder is not None:
                ne = getattr(holder[1], holder[0])
                asg = ast.Assign(targets=[ast.Name(id=ne.target.id, ctx=ast.Store())], value=ne.value)
                ast.copy_location(asg, s)
                setattr(holder[1], holder[0], ast.copy_location(ast.Name(id=ne.target.id, ctx=ast.Load()), ne))
                neg = s.test.operand if isinstance(s.test, ast.UnaryOp) and isinstance(s.test.op, ast.Not) else ast.UnaryOp(op=ast.Not(), operand=s.test)
                brk = ast.If(test=neg, body=[ast.Break()], orelse=[])
                ast.copy_location(brk, s)
                s.test = ast.copy_location(ast.Constant(value=True), s)
                s.body = [asg, brk] + s.body
                ast.fix_missing_locations(s)
                self.stats['idioms'] += 1
                return [s]
        return None

    def _xform_block(self, stmts, ctx_def, ctx_names, depth=0):
        out = []
        queue = list(stmts)
        guard = 0
        while queue:
            s = queue.pop(0)
            guard += 1
            if guard > 5000:
                out.append(s)
                continue
            if isinstance(s, FuncNode):
                d = self.by_node.get(id(s))
                if d is not None:
                    self.expand(d)
                out.append(s)
                continue
            if isinstance(s, ast.ClassDef):
                out.append(s)
                continue
            rep = self._idioms(s, ctx_names)
            if rep is not None:
                queue = rep + queue
                continue
            rep = self._direct_site(s, ctx_def, ctx_names)
            if rep is not None:
                queue = rep + queue
                continue
            rep = self._comprehension_over_helper(s, ctx_def)
            if rep is not None:
                queue = rep + queue
                continue
            rep = self._fuse_generator(s, ctx_def, ctx_names)
            if rep is not None:
                queue = rep + queue
                continue
            rep = self._expand_contextmanager(s, ctx_def, ctx_names)
            if rep is not None:
                queue = rep + queue
                continue
            before = self._in_expression(s, ctx_def, ctx_names)
            if before:
                queue = before + [s] + queue
                continue
            for fld in ('body', 'orelse', 'finalbody'):
                blk = getattr(s, fld, None)
                if isinstance(blk, list) and blk and isinstance(blk[0], ast.stmt):
                    setattr(s, fld, self._xform_block(blk, ctx_def, ctx_names, depth + 1) or [ast.Pass()])
            for h in getattr(s, 'handlers', []) or []:
                h.body = self._xform_block(h.body, ctx_def, ctx_names, depth + 1) or [ast.Pass()]
            if isinstance(s, ast.Match):
                for c in s.cases:
                    c.body = self._xform_block(c.body, ctx_def, ctx_names, depth + 1)
            out.append(s)
        return out

    def _expand_contextmanager(self, s, ctx_def, ctx_names):
        """`with helper(args): BODY` over a transparent @contextmanager generator with a single `yield` statement: the
        helper's body with BODY in place of the yield (`with rewinding(stream): X` is `try: X / except: seek; raise`)"""
        if not isinstance(s, (ast.With, ast.AsyncWith)) or len(s.items) != 1 or not isinstance(s.items[0].context_expr, ast.Call):
            return None
        call = s.items[0].context_expr
        d = self.resolve(call.func, ctx_def)
        if d is None:
            return None
        decos = [x.id if isinstance(x, ast.Name) else getattr(x, 'attr', None) for x in d.node.decorator_list]
        want = 'asynccontextmanager' if isinstance(s, ast.AsyncWith) else 'contextmanager'
        if decos != [want] or isinstance(d.node, ast.AsyncFunctionDef) != isinstance(s, ast.AsyncWith):
            return None
        yields = [n for n in _local_walk(d.node) if isinstance(n, (ast.Yield, ast.YieldFrom))]
        if len(yields) != 1 or not isinstance(yields[0], ast.Yield) or any(isinstance(n, ast.Return) for n in _local_walk(d.node)):
            return None
        if any(isinstance(n, (ast.Return, ast.Break, ast.Continue)) for st in s.body for n in _local_walk(st) if not isinstance(st, FuncNode)):
            # BODY leaves on its own: inside the helper's try that would run other handlers than a `with` does
            if any(isinstance(n, ast.Return) for st in s.body for n in _local_walk(st)):
                return None
        saved = d.node.decorator_list
        d.node.decorator_list = []
        try:
            if not self._inlinable(d):
                return None
            try:
                prologue, hbody = self._prepare_body(d, call, ctx_names)
            except Refuse:
                self.stats['refused'] += 1
                return None
        finally:
            d.node.decorator_list = saved
        target = s.items[0].optional_vars
        done = [False]

        def place(stmts):
            out = []
            for st in stmts:
                if isinstance(st, ast.Expr) and isinstance(st.value, ast.Yield):
                    if target is not None:
                        if st.value.value is None:
                            return None
                        out.append(ast.copy_location(ast.Assign(targets=[target], value=st.value.value, type_comment=None), s))
                    out.extend(s.body)
                    done[0] = True
                    continue
                if isinstance(st, ast.Assign) and isinstance(st.value, ast.Yield):
                    return None
                for fld in ('body', 'orelse', 'finalbody'):
                    blk = getattr(st, fld, None)
                    if isinstance(blk, list) and blk and isinstance(blk[0], ast.stmt) and not isinstance(st, FuncNode + (ast.ClassDef,)):
                        r = place(blk)
                        if r is None:
                            return None
                        setattr(st, fld, r)
                for h in getattr(st, 'handlers', []) or []:
                    r = place(h.body)
                    if r is None:
                        return None
                    h.body = r
                out.append(st)
            return out

        body = place(hbody)
        if body is None or not done[0]:
            return None
        for st in prologue + body:
            ast.fix_missing_locations(st)
        self.stats['inlined_calls'] += 1
        self.log.append(f'expand context manager {d.rel}::{d.qual} at line {getattr(s, "lineno", 0)}')
        return prologue + body

    def _comprehension_over_helper(self, s, ctx_def):
        """`t = {E for x in helper(..)}` over a transparent generator helper -> `t = set()` + loop (then fused)"""
        if not (isinstance(s, ast.Assign) and len(s.targets) == 1 and isinstance(s.targets[0], ast.Name) and isinstance(s.value, (ast.SetComp, ast.ListComp, ast.DictComp)) and len(s.value.generators) == 1):
            return None
        g = s.value.generators[0]
        over_helper = isinstance(g.iter, ast.Call) and self.resolve(g.iter.func, ctx_def) is not None

        def _stmt_helper_call(e):
            for c in ast.walk(e):
                if isinstance(c, ast.Call):
                    hd = self.resolve(c.func, ctx_def)
                    if hd is not None and self._expr_body(hd) is None:
                        return True
            return False

        # a filter / element computed by a multi-statement helper: the loop form lets the helper be expanded in place
        parts = list(g.ifs) + ([s.value.key, s.value.value] if isinstance(s.value, ast.DictComp) else [s.value.elt])
        if not over_helper and not any(_stmt_helper_call(p_) for p_ in parts):
            return None
        t = s.targets[0].id
        comp = s.value
        if isinstance(comp, ast.SetComp):
            init, add = ast.Call(func=ast.Name(id='set', ctx=ast.Load()), args=[], keywords=[]), ast.Expr(value=ast.Call(func=ast.Attribute(value=ast.Name(id=t, ctx=ast.Load()), attr='add', ctx=ast.Load()), args=[comp.elt], keywords=[]))
        elif isinstance(comp, ast.ListComp):
            init, add = ast.List(elts=[], ctx=ast.Load()), ast.Expr(value=ast.Call(func=ast.Attribute(value=ast.Name(id=t, ctx=ast.Load()), attr='append', ctx=ast.Load()), args=[comp.elt], keywords=[]))
        else:
            init, add = ast.Dict(keys=[], values=[]), ast.Assign(targets=[ast.Subscript(value=ast.Name(id=t, ctx=ast.Load()), slice=comp.key, ctx=ast.Store())], value=comp.value)
        body = [add]
        for cond in reversed(g.ifs):
            body = [ast.If(test=cond, body=body, orelse=[])]
        loop_cls = ast.AsyncFor if g.is_async else ast.For
        loop = loop_cls(target=g.target, iter=g.iter, body=body, orelse=[])
        a0 = ast.Assign(targets=[ast.Name(id=t, ctx=ast.Store())], value=init)
        for n in (a0, loop):
            ast.copy_location(n, s)
            ast.fix_missing_locations(n)
        self.stats['idioms'] += 1
        return [a0, loop]

    def _fuse_generator(self, s, ctx_def, ctx_names):
        """`for x in helper(args): BODY` with a transparent generator helper: the helper's body is expanded and BODY takes
        the place of each `yield v` (as `x = v; BODY`).  Only when BODY neither leaves nor restarts the loop on its own."""
        if not isinstance(s, (ast.For, ast.AsyncFor)) or s.orelse or not isinstance(s.iter, ast.Call):
            return None
        d = self.resolve(s.iter.func, ctx_def)
        if d is None or not self._inlinable(d):
            return None
        is_async_gen = isinstance(d.node, ast.AsyncFunctionDef)
        if is_async_gen != isinstance(s, ast.AsyncFor):
            return None
        yields = [n for n in _local_walk(d.node) if isinstance(n, ast.Yield)]
        if not yields or any(isinstance(n, ast.YieldFrom) for n in _local_walk(d.node)):
            return None
        if len(yields) > 3:
            return None
        def _escapes(stmts, in_loop=False):
            for st in stmts:
                # (a `return` in BODY leaves the consuming function in both forms: the generator is closed, its
                # `finally` blocks run - as they do when the return sits inside the expanded body)
                if isinstance(st, (ast.Break, ast.Continue)) and not in_loop:
                    return True
                if isinstance(st, FuncNode + (ast.ClassDef,)):
                    continue
                inner = in_loop or isinstance(st, (ast.For, ast.AsyncFor, ast.While))
                for fld in ('body', 'orelse', 'finalbody'):
                    blk = getattr(st, fld, None)
                    if isinstance(blk, list) and blk and isinstance(blk[0], ast.stmt) and _escapes(blk, inner if fld == 'body' else in_loop):
                        return True
                for h in getattr(st, 'handlers', []) or []:
                    if _escapes(h.body, in_loop):
                        return True
            return False

        if _escapes(s.body):
            return None
        # yields must be statements (`yield v`), not sub-expressions
        try:
            prologue, hbody = self._prepare_body(d, s.iter, ctx_names)
        except Refuse:
            self.stats['refused'] += 1
            return None
        ok = [True]
        target, user_body = s.target, s.body

        class Y(ast.NodeTransformer):
            def visit_Expr(self, n):
                if isinstance(n.value, ast.Yield):
                    v = n.value.value if n.value.value is not None else ast.Constant(value=None)
                    asg = ast.Assign(targets=[copy.deepcopy(target)], value=v)
                    ast.copy_location(asg, n)
                    return [asg] + copy.deepcopy(user_body)
                return self.generic_visit(n)

            def visit_Yield(self, n):
                ok[0] = False
                return n

            def visit_FunctionDef(self, n):
                return n

            visit_AsyncFunctionDef = visit_FunctionDef
            visit_Lambda = visit_FunctionDef

        holder = ast.Module(body=hbody, type_ignores=[])
        Y().visit(holder)
        if not ok[0]:
            return None
        flag = self._fresh('_returned', ctx_names)
        used = []
        new = self._elim(holder.body, lambda value, at: [], flag, used)
        if used:
            init = ast.Assign(targets=[ast.Name(id=flag, ctx=ast.Store())], value=ast.Constant(value=False))
            new = [ast.copy_location(init, s)] + new
        res = prologue + new
        for st in res:
            ast.fix_missing_locations(st)
            st._inlined_from = d.qual
        self.stats['inlined_calls'] += 1
        self.log.append(f'fuse generator {d.rel}::{d.qual} into the loop at line {getattr(s, "lineno", 0)}')
        return res or [ast.copy_location(ast.Pass(), s)]

    # ---------------------------------------------------------- jump threading
    def _thread_blocks(self, fn, node):
        """`if C: t = True else: ...; t = False` followed by `if t: A else: B` (t a temporary of this pass)
        becomes `if C: A else: ...; B` - the decision tree of an expanded predicate is fused with its use"""
        for fld in ('body', 'orelse', 'finalbody'):
            blk = getattr(node, fld, None)
            if isinstance(blk, list) and blk and isinstance(blk[0], ast.stmt):
                setattr(node, fld, self._thread_block(fn, blk))
                for st in getattr(node, fld):
                    if not isinstance(st, FuncNode + (ast.ClassDef,)):
                        self._thread_blocks(fn, st)
        for h in getattr(node, 'handlers', []) or []:
            h.body = self._thread_block(fn, h.body)
            for st in h.body:
                if not isinstance(st, FuncNode + (ast.ClassDef,)):
                    self._thread_blocks(fn, st)

    def _thread_block(self, fn, stmts):
        out = list(stmts)
        i = 1
        while i < len(out):
            s = out[i]
            t = s.test if isinstance(s, ast.If) else None
            neg = False
            if isinstance(t, ast.UnaryOp) and isinstance(t.op, ast.Not):
                t, neg = t.operand, True
            if not (isinstance(t, ast.Name) and t.id in self.temps):
                if self._thread_none_test(fn, out, i):
                    continue
                i += 1
                continue
            name = t.id
            prev = out[i - 1]
            uses = [n for n in ast.walk(fn) if isinstance(n, ast.Name) and n.id == name]
            inside = [n for n in ast.walk(prev) if isinstance(n, ast.Name) and n.id == name]
            if len(uses) != len(inside) + 1 or any(isinstance(n.ctx, ast.Load) for n in inside):
                i += 1
                continue
            A, B = (s.orelse, s.body) if neg else (s.body, s.orelse)
            leaves = []
            if not self._leaves(prev, name, leaves) or any(getattr(l, '_virtual_leaf', False) for l in leaves):
                i += 1
                continue
            nA = sum(1 for l in leaves if not (isinstance(l.value, ast.Constant) and l.value.value is False))
            nB = sum(1 for l in leaves if not (isinstance(l.value, ast.Constant) and l.value.value is True))

            def small(b):
                return len(b) <= 3 and all(isinstance(x, (ast.Raise, ast.Continue, ast.Break, ast.Return, ast.Pass, ast.Expr, ast.Assign)) for x in b)

            if (nA > 1 and not small(A)) or (nB > 1 and not small(B)):
                i += 1
                continue
            if isinstance(prev, ast.Assign):
                # t = expr ; if t: ...   ->   if expr: ...
                if neg:
                    s.test.operand = prev.value
                else:
                    s.test = prev.value
                del out[i - 1]
                self.stats['idioms'] += 1
                continue
            self._replace_leaves(prev, name, A, B)
            del out[i]
            self.stats['idioms'] += 1
        return out

    _NEVER_NONE_CALLS = {'bytes.fromhex', 'bytes', 'bytearray', 'str', 'int', 'float', 'bool', 'list', 'dict', 'set', 'tuple', 'frozenset', 'len', 'repr', 'memoryview'}

    def _none_ness(self, v):
        """True: certainly None, False: certainly not None, None: unknown"""
        if isinstance(v, ast.Constant):
            return v.value is None
        if isinstance(v, (ast.List, ast.Tuple, ast.Set, ast.Dict, ast.JoinedStr, ast.ListComp, ast.SetComp, ast.DictComp, ast.GeneratorExp, ast.Lambda)):
            return False
        if isinstance(v, ast.Call):
            f = v.func
            name = f.id if isinstance(f, ast.Name) else (f'{f.value.id}.{f.attr}' if isinstance(f, ast.Attribute) and isinstance(f.value, ast.Name) else None)
            if name in self._NEVER_NONE_CALLS:
                return False
        return None

    def _thread_none_test(self, fn, out, i) -> bool:
        """`if c: v = None else: v = <not None>` followed by `if v is None: A [else: B]`: A / B move to the branches that
        decide them (a value used as its own "skip" flag is the same control flow as an early exit)"""
        s = out[i]
        if not isinstance(s, ast.If) or i == 0:
            return False
        t = s.test
        pol = None
        if isinstance(t, ast.Compare) and len(t.ops) == 1 and isinstance(t.left, ast.Name) and isinstance(t.comparators[0], ast.Constant) and t.comparators[0].value is None and isinstance(t.ops[0], (ast.Is, ast.IsNot)):
            pol = isinstance(t.ops[0], ast.Is)
            name = t.left.id
        else:
            return False
        prev = out[i - 1]
        if not isinstance(prev, (ast.If, ast.Try)):
            return False
        leaves = []
        if not self._leaves(prev, name, leaves) or not leaves:
            return False
        kinds = [self._none_ness(l.value) for l in leaves]
        if any(k is None for k in kinds):
            return False

        def small(b):
            return len(b) <= 3 and all(isinstance(x, (ast.Raise, ast.Continue, ast.Break, ast.Return, ast.Pass, ast.Expr, ast.Assign)) for x in b)

        when_none, otherwise = (s.body, s.orelse) if pol else (s.orelse, s.body)
        n_none = sum(1 for k in kinds if k)
        n_other = len(kinds) - n_none
        if (n_none > 1 and not small(when_none)) or (n_other > 1 and not small(otherwise)):
            return False
        # other assignments of the name inside prev that are not tail leaves would make this unsound
        stores = [n for n in ast.walk(prev) if isinstance(n, ast.Name) and n.id == name and isinstance(n.ctx, ast.Store)]
        if len(stores) != len(leaves):
            return False
        self._append_after_leaves(prev, name, when_none, otherwise)
        del out[i]
        self.stats['idioms'] += 1
        return True

    def _append_after_leaves(self, st, name, when_none, otherwise):
        def handle(block):
            last = block[-1]
            if isinstance(last, ast.If) and not last.orelse and len(block) >= 2 and self._is_assign_of(block[-2], name) and last.body:
                last.orelse = copy.deepcopy(when_none if self._none_ness(block[-2].value) else otherwise)
                handle(last.body)
            elif isinstance(last, ast.Assign) and len(last.targets) == 1 and isinstance(last.targets[0], ast.Name) and last.targets[0].id == name:
                block.extend(copy.deepcopy(when_none if self._none_ness(last.value) else otherwise))
            elif isinstance(last, (ast.If, ast.With, ast.AsyncWith, ast.Try)):
                self._append_after_leaves(last, name, when_none, otherwise)

        if isinstance(st, ast.If):
            handle(st.body)
            handle(st.orelse)
        elif isinstance(st, (ast.With, ast.AsyncWith)):
            handle(st.body)
        elif isinstance(st, ast.Try):
            handle(st.orelse if st.orelse else st.body)
            for h in st.handlers:
                handle(h.body)

    def _leaves(self, st, name, acc) -> bool:
        """collect the tail-position assignments of `name` in st; False if some falling path does not end in one"""
        if isinstance(st, ast.Assign):
            if len(st.targets) == 1 and isinstance(st.targets[0], ast.Name) and st.targets[0].id == name:
                acc.append(st)
                return True
            return False
        if isinstance(st, (ast.Raise, ast.Return, ast.Continue, ast.Break)):
            return True
        if isinstance(st, ast.If):
            return bool(st.body) and bool(st.orelse) and self._leaves_block(st.body, name, acc) and self._leaves_block(st.orelse, name, acc)
        if isinstance(st, (ast.With, ast.AsyncWith)):
            return bool(st.body) and self._leaves_block(st.body, name, acc)
        if isinstance(st, ast.Try) and not st.finalbody:
            main = st.orelse if st.orelse else st.body
            return bool(main) and self._leaves_block(main, name, acc) and all(h.body and self._leaves_block(h.body, name, acc) for h in st.handlers)
        return False

    @staticmethod
    def _is_assign_of(st, name):
        return isinstance(st, ast.Assign) and len(st.targets) == 1 and isinstance(st.targets[0], ast.Name) and st.targets[0].id == name

    def _leaves_block(self, blk, name, acc) -> bool:
        last = blk[-1]
        # `v = e` followed by `if c: ...; v = None` (no else): the fall-through value is e
        if isinstance(last, ast.If) and not last.orelse and len(blk) >= 2 and self._is_assign_of(blk[-2], name) and last.body:
            blk[-2]._virtual_leaf = True
            acc.append(blk[-2])
            return self._leaves_block(last.body, name, acc)
        return self._leaves(last, name, acc)

    def _replace_leaves(self, st, name, A, B):
        def repl(block):
            last = block[-1]
            if isinstance(last, ast.Assign) and len(last.targets) == 1 and isinstance(last.targets[0], ast.Name) and last.targets[0].id == name:
                v = last.value
                if isinstance(v, ast.Constant) and v.value is True:
                    new = copy.deepcopy(A)
                elif isinstance(v, ast.Constant) and v.value is False:
                    new = copy.deepcopy(B)
                else:
                    g = ast.If(test=v, body=copy.deepcopy(A) or [ast.copy_location(ast.Pass(), last)], orelse=copy.deepcopy(B))
                    new = [ast.copy_location(g, last)]
                block[-1:] = new
                if not block:
                    block.append(ast.copy_location(ast.Pass(), last))
            else:
                self._replace_leaves(last, name, A, B)

        if isinstance(st, ast.If):
            repl(st.body)
            repl(st.orelse)
        elif isinstance(st, (ast.With, ast.AsyncWith)):
            repl(st.body)
        elif isinstance(st, ast.Try):
            if st.orelse:
                repl(st.orelse)
            else:
                repl(st.body)
            for h in st.handlers:
                repl(h.body)

    def expand(self, d: _Def):
        if d.expanded or d.busy:
            return
        d.busy = True
        try:
            ctx_names = _all_names(d.node)
            cur = d.owner
            while cur is not None:
                ctx_names |= _all_names(cur.node)
                cur = cur.owner
            d.node.body = self._xform_block(d.node.body, d, ctx_names) or [ast.Pass()]
            self._thread_blocks(d.node, d.node)
            self._dehoist(d, ctx_names)
            self._unpartial(d.node)
            self._scalarize(d)
        finally:
            d.busy = False
            d.expanded = True

    # ---------------------------------------------------- records and copies
    def _record_fields(self, rel, cname):
        c = self.classes.get(rel, {}).get(cname)
        if c is None:
            return None
        bases = [b.id if isinstance(b, ast.Name) else getattr(b, 'attr', None) for b in c.bases]
        decos = [d.id if isinstance(d, ast.Name) else (d.func.id if isinstance(d, ast.Call) and isinstance(d.func, ast.Name) else getattr(d, 'attr', getattr(getattr(d, 'func', None), 'attr', None))) for d in c.decorator_list]
        if 'NamedTuple' not in bases and 'dataclass' not in decos:
            return None
        inv = self.inv.get(rel, {})
        if cname in inv.get('classes', []):
            return None  # a record type of the design tree: the rules know it
        return [st.target.id for st in c.body if isinstance(st, ast.AnnAssign) and isinstance(st.target, ast.Name)]

    def _scalarize(self, d: _Def):
        """new private record types used as local bundles (`plan = _Plan(a=x, b=y)` ... `plan.a`) are unpacked again;
        `a, b = (x, y)` is split; single-assignment copies `a = b` of single-assignment locals are propagated"""
        fn = d.node
        for _round in range(3):
            changed = False
            stores = {}
            for n in _local_walk(fn):
                if isinstance(n, ast.Name) and isinstance(n.ctx, (ast.Store, ast.Del)):
                    stores[n.id] = stores.get(n.id, 0) + 1
            a = fn.args
            params = {x.arg for x in a.posonlyargs + a.args + a.kwonlyargs} | ({a.vararg.arg} if a.vararg else set()) | ({a.kwarg.arg} if a.kwarg else set())
            nested_names = set()
            for n in ast.walk(fn):
                if isinstance(n, FuncNode + (ast.Lambda,)) and n is not fn:
                    for x in ast.walk(n):
                        if isinstance(x, ast.Name):
                            nested_names.add(x.id)

            def blocks(node):
                for fld in ('body', 'orelse', 'finalbody'):
                    blk = getattr(node, fld, None)
                    if isinstance(blk, list) and blk and isinstance(blk[0], ast.stmt):
                        yield blk
                        for st in blk:
                            if not isinstance(st, FuncNode + (ast.ClassDef,)):
                                yield from blocks(st)
                for h in getattr(node, 'handlers', []) or []:
                    yield h.body
                    for st in h.body:
                        yield from blocks(st)

            for blk in list(blocks(fn)):
                i = 0
                while i < len(blk):
                    st = blk[i]
                    # a, b = (x, y)
                    if isinstance(st, ast.Assign) and len(st.targets) == 1 and isinstance(st.targets[0], ast.Tuple) and isinstance(st.value, ast.Tuple) and len(st.targets[0].elts) == len(st.value.elts) and all(isinstance(t, ast.Name) for t in st.targets[0].elts) and not any(isinstance(v, ast.Starred) for v in st.value.elts):
                        tnames = {t.id for t in st.targets[0].elts}
                        vnames = {x.id for v in st.value.elts for x in ast.walk(v) if isinstance(x, ast.Name)}
                        if not (tnames & vnames):
                            new = [ast.copy_location(ast.Assign(targets=[t], value=v), st) for t, v in zip(st.targets[0].elts, st.value.elts)]
                            blk[i : i + 1] = new
                            changed = True
                            continue
                        # identity components drop out, the others are plain assignments: (x, e) = (x, <expr not using e>)
                        pairs_ = list(zip(st.targets[0].elts, st.value.elts))
                        moving = [(t, v) for t, v in pairs_ if not (isinstance(v, ast.Name) and v.id == t.id)]
                        if len(moving) < len(pairs_) and not ({t.id for t, _ in moving} & vnames):
                            blk[i : i + 1] = [ast.copy_location(ast.Assign(targets=[t], value=v), st) for t, v in moving] or [ast.copy_location(ast.Pass(), st)]
                            changed = True
                            continue
                        if all(isinstance(v, ast.Name) for v in st.value.elts):
                            new = [ast.copy_location(ast.Assign(targets=[t], value=v), st) for t, v in zip(st.targets[0].elts, st.value.elts) if t.id != v.id]
                            if all(t.id == v.id or t.id not in vnames - {v.id} for t, v in zip(st.targets[0].elts, st.value.elts)) and len(new) < len(st.value.elts):
                                # identity components drop out (x, y = (x, z))
                                if not any(t.id in {w.id for w in st.value.elts if w.id != v.id} for t, v in zip(st.targets[0].elts, st.value.elts) if t.id != v.id):
                                    blk[i : i + 1] = new or [ast.copy_location(ast.Pass(), st)]
                                    changed = True
                                    continue
                    # p = _Record(a=x, b=y) with p only ever read as p.<field>
                    if isinstance(st, ast.Assign) and len(st.targets) == 1 and isinstance(st.targets[0], ast.Name) and isinstance(st.value, ast.Call) and isinstance(st.value.func, ast.Name) and stores.get(st.targets[0].id) == 1:
                        fields = self._record_fields(d.rel, st.value.func.id)
                        pname = st.targets[0].id
                        if fields is not None and pname not in nested_names and not any(isinstance(x, ast.Starred) for x in st.value.args) and all(k.arg for k in st.value.keywords):
                            vals = dict(zip(fields, st.value.args))
                            vals.update({k.arg: k.value for k in st.value.keywords})
                            uses = [n for n in ast.walk(fn) if isinstance(n, ast.Name) and n.id == pname and isinstance(n.ctx, ast.Load)]
                            parents = {}
                            for n in ast.walk(fn):
                                for c in ast.iter_child_nodes(n):
                                    parents[id(c)] = n
                            ok = set(vals) == set(fields) and all(isinstance(parents.get(id(u)), ast.Attribute) and parents[id(u)].attr in vals and isinstance(parents[id(u)].ctx, ast.Load) for u in uses)
                            simple = all(isinstance(v, (ast.Name, ast.Constant)) for v in vals.values())
                            if ok and simple and all(stores.get(v.id, 0) <= 1 or v.id in params for v in vals.values() if isinstance(v, ast.Name)):
                                for u in uses:
                                    at = parents[id(u)]
                                    self._replace_everywhere(fn, at, ast.copy_location(copy.deepcopy(vals[at.attr]), at))
                                del blk[i]
                                if not blk:
                                    blk.append(ast.copy_location(ast.Pass(), st))
                                self.stats['idioms'] += 1
                                changed = True
                                continue
                    # a = b (both bound once, b before a): a is b
                    if isinstance(st, ast.Assign) and len(st.targets) == 1 and isinstance(st.targets[0], ast.Name) and isinstance(st.value, ast.Name):
                        an, bn = st.targets[0].id, st.value.id
                        if an != bn and stores.get(an) == 1 and an not in params and (stores.get(bn, 0) == 1 and bn not in params or stores.get(bn, 0) == 0 and bn in params) and an not in nested_names and (an.endswith(tuple(f'__{k}' for k in range(1, 400))) or bn.endswith(tuple(f'__{k}' for k in range(1, 400))) or getattr(st, '_inlined_from', None)):
                            for n in ast.walk(fn):
                                if isinstance(n, ast.Name) and n.id == an and isinstance(n.ctx, ast.Load):
                                    n.id = bn
                            del blk[i]
                            if not blk:
                                blk.append(ast.copy_location(ast.Pass(), st))
                            changed = True
                            continue
                    i += 1
            if not changed:
                break

    # ------------------------------------------------------------- partial()
    @staticmethod
    def _is_partial(e):
        return isinstance(e, ast.Call) and ((isinstance(e.func, ast.Name) and e.func.id == 'partial') or (isinstance(e.func, ast.Attribute) and e.func.attr == 'partial' and isinstance(e.func.value, ast.Name) and e.func.value.id == 'functools')) and e.args and not any(isinstance(a, ast.Starred) for a in e.args) and all(k.arg is not None for k in e.keywords)

    def _unpartial(self, fn):
        """submit(partial(f, a, k=v), x) -> submit(f, a, x, k=v); also through a single-assignment local and for direct calls"""
        parents = {}
        for n in ast.walk(fn):
            for c in ast.iter_child_nodes(n):
                parents[id(c)] = n
        binds = {}
        for n in _local_walk(fn):
            if isinstance(n, ast.Assign) and len(n.targets) == 1 and isinstance(n.targets[0], ast.Name) and self._is_partial(n.value):
                binds.setdefault(n.targets[0].id, []).append(n)
        stores = {}
        for n in ast.walk(fn):
            if isinstance(n, ast.Name) and isinstance(n.ctx, (ast.Store, ast.Del)):
                stores[n.id] = stores.get(n.id, 0) + 1

        def rewrite(call, pcall, pos):
            f = pcall.args[0]
            pargs = [copy.deepcopy(a) for a in pcall.args[1:]]
            pkw = [copy.deepcopy(k) for k in pcall.keywords]
            if pos == 'func':
                call.func = copy.deepcopy(f)
                call.args = pargs + call.args
                call.keywords = pkw + call.keywords
            else:
                call.args = call.args[:pos] + [copy.deepcopy(f)] + pargs + call.args[pos + 1 :]
                call.keywords = call.keywords + pkw
            ast.fix_missing_locations(call)
            self.stats['idioms'] += 1

        def site(node):
            par = parents.get(id(node))
            if isinstance(par, ast.Call):
                if par.func is node:
                    return par, 'func'
                if isinstance(par.func, ast.Attribute) and par.func.attr == 'submit' and par.args and par.args[0] is node:
                    return par, 0
                if isinstance(par.func, ast.Attribute) and par.func.attr == 'run_in_executor' and len(par.args) > 1 and par.args[1] is node:
                    return par, 1
            return None, None

        # partial(f, k=v, ...) over a nested function of this scope whose bound arguments are plain locals:
        # the parameters become closure variables again (the form the code had before f was hoisted)
        nested = {st.name: st for st in _local_walk(fn) if isinstance(st, FuncNode)}
        for n in list(ast.walk(fn)):
            if not (self._is_partial(n) and isinstance(n.args[0], ast.Name) and n.args[0].id in nested):
                continue
            fdef = nested[n.args[0].id]
            refs = [x for x in ast.walk(fn) if isinstance(x, ast.Name) and x.id == fdef.name and isinstance(x.ctx, ast.Load)]
            if len(refs) != 1:
                continue
            a = fdef.args
            body_names = _all_names(ast.Module(body=fdef.body, type_ignores=[]))
            ren = {}
            ok = True
            pos_params = a.posonlyargs + a.args
            plan = []
            for i, v in enumerate(n.args[1:]):
                if i < len(pos_params) and isinstance(v, ast.Name):
                    plan.append((pos_params[i], v.id))
                else:
                    ok = False
            for k in n.keywords:
                cand = [x for x in a.args + a.kwonlyargs if x.arg == k.arg]
                if cand and isinstance(k.value, ast.Name):
                    plan.append((cand[0], k.value.id))
                else:
                    ok = False
            if not ok or not plan:
                continue
            for prm, var in plan:
                if prm.arg != var and var in body_names:
                    ok = False
            if not ok:
                continue
            for prm, var in plan:
                if prm.arg != var:
                    ren[prm.arg] = var
                for lst in (a.posonlyargs, a.args):
                    if prm in lst:
                        j = lst.index(prm)
                        k_from_end = len(a.posonlyargs + a.args) - (a.posonlyargs + a.args).index(prm)
                        if k_from_end <= len(a.defaults):
                            del a.defaults[len(a.defaults) - k_from_end]
                        lst.remove(prm)
                if prm in a.kwonlyargs:
                    j = a.kwonlyargs.index(prm)
                    del a.kw_defaults[j]
                    a.kwonlyargs.remove(prm)
            if ren:
                fdef.body = [_Subst(ren, {}).visit(st) for st in fdef.body]
            n.args = n.args[:1]
            n.keywords = []
            par = parents.get(id(n))
            if par is not None:
                self._replace_child(par, n, copy.deepcopy(n.args[0]))
            self.stats['idioms'] += 1
        # run_in_executor(ex, f, a, b) / ex.submit(f, a, b) with f a method that was copied into this function (de-hoisted)
        # and a, b plain locals: the explicit parameters are the closure variables the function had before it was hoisted
        for n in list(ast.walk(fn)):
            if not (isinstance(n, ast.Call) and isinstance(n.func, ast.Attribute) and n.func.attr in ('run_in_executor', 'submit')):
                continue
            k0 = 1 if n.func.attr == 'run_in_executor' else 0
            if len(n.args) <= k0 or not isinstance(n.args[k0], ast.Name) or n.args[k0].id not in nested:
                continue
            fdef = nested[n.args[k0].id]
            if not getattr(fdef, '_dehoisted_from', None):
                continue
            refs = [x for x in ast.walk(fn) if isinstance(x, ast.Name) and x.id == fdef.name and isinstance(x.ctx, ast.Load)]
            extra = n.args[k0 + 1 :]
            if len(refs) == 1 and n.keywords and n.func.attr == 'submit' and all(k.arg and isinstance(k.value, ast.Name) for k in n.keywords):
                # submit(f, x, y, k=v, ..): the keyword arguments are the closure variables, the positional ones stay parameters
                a = fdef.args
                body_names = _all_names(ast.Module(body=fdef.body, type_ignores=[]))
                plan = []
                for k in n.keywords:
                    cand = [x for x in a.kwonlyargs + a.args if x.arg == k.arg]
                    if not cand:
                        plan = None
                        break
                    plan.append((cand[0], k.value.id))
                if plan and not any(prm.arg != var and var in body_names for prm, var in plan):
                    ren = {}
                    for prm, var in plan:
                        if prm.arg != var:
                            ren[prm.arg] = var
                        if prm in a.kwonlyargs:
                            j = a.kwonlyargs.index(prm)
                            del a.kw_defaults[j]
                            a.kwonlyargs.remove(prm)
                        elif prm in a.args:
                            k_from_end = len(a.posonlyargs + a.args) - (a.posonlyargs + a.args).index(prm)
                            if k_from_end <= len(a.defaults):
                                del a.defaults[len(a.defaults) - k_from_end]
                            a.args.remove(prm)
                    if ren:
                        fdef.body = [_Subst(ren, {}).visit(st) for st in fdef.body]
                    n.keywords = []
                    self.stats['idioms'] += 1
                continue
            if len(refs) != 1 or not extra or n.keywords or not all(isinstance(v, ast.Name) for v in extra):
                continue
            a = fdef.args
            pos_params = a.posonlyargs + a.args
            if len(extra) > len(pos_params):
                continue
            body_names = _all_names(ast.Module(body=fdef.body, type_ignores=[]))
            # the item of an enclosing loop is what the submitted function is applied to: it stays a parameter;
            # the loop-invariant locals are the closure variables
            per_item = set()
            cur = parents.get(id(n))
            while cur is not None and cur is not fn:
                if isinstance(cur, (ast.For, ast.AsyncFor)):
                    per_item |= {x.id for x in ast.walk(cur.target) if isinstance(x, ast.Name)}
                if isinstance(cur, (ast.ListComp, ast.SetComp, ast.DictComp, ast.GeneratorExp)):
                    per_item |= {x.id for g_ in cur.generators for x in ast.walk(g_.target) if isinstance(x, ast.Name)}
                cur = parents.get(id(cur))
            plan = [(pos_params[i], v.id) for i, v in enumerate(extra) if v.id not in per_item]
            if not plan or any(prm.arg != var and var in body_names for prm, var in plan):
                continue
            ren = {}
            for prm, var in plan:
                if prm.arg != var:
                    ren[prm.arg] = var
                for lst in (a.posonlyargs, a.args):
                    if prm in lst:
                        k_from_end = len(a.posonlyargs + a.args) - (a.posonlyargs + a.args).index(prm)
                        if k_from_end <= len(a.defaults):
                            del a.defaults[len(a.defaults) - k_from_end]
                        lst.remove(prm)
            if ren:
                fdef.body = [_Subst(ren, {}).visit(st) for st in fdef.body]
            n.args = n.args[: k0 + 1] + [v for v in extra if v.id in per_item]
            self.stats['idioms'] += 1
        # (f(x, a, b) for x in xs) with f a de-hoisted method and a, b plain locals: a, b are closure variables of f again
        # and the generator is map(f, xs) - the form `gather(*map(_closure, xs))` the code had before f was hoisted
        for n in list(ast.walk(fn)):
            if not isinstance(n, (ast.GeneratorExp, ast.ListComp)) or len(n.generators) != 1:
                continue
            g, c = n.generators[0], n.elt
            if g.ifs or g.is_async or not isinstance(g.target, ast.Name):
                continue
            if not (isinstance(c, ast.Call) and isinstance(c.func, ast.Name) and c.func.id in nested and not c.keywords and c.args):
                continue
            fdef = nested[c.func.id]
            if not getattr(fdef, '_dehoisted_from', None):
                continue
            refs = [x for x in ast.walk(fn) if isinstance(x, ast.Name) and x.id == fdef.name and isinstance(x.ctx, ast.Load)]
            extra = c.args[1:]
            if len(refs) != 1 or not (isinstance(c.args[0], ast.Name) and c.args[0].id == g.target.id) or not all(isinstance(v, ast.Name) and v.id != g.target.id for v in extra):
                continue
            a = fdef.args
            pos_params = (a.posonlyargs + a.args)[1:]
            if len(extra) > len(pos_params) or len(a.posonlyargs + a.args) - len(a.defaults) > len(c.args):
                continue
            body_names = _all_names(ast.Module(body=fdef.body, type_ignores=[]))
            plan = [(pos_params[i], v.id) for i, v in enumerate(extra)]
            if any(prm.arg != var and var in body_names for prm, var in plan):
                continue
            ren = {}
            for prm, var in plan:
                if prm.arg != var:
                    ren[prm.arg] = var
                for lst in (a.posonlyargs, a.args):
                    if prm in lst:
                        k_from_end = len(a.posonlyargs + a.args) - (a.posonlyargs + a.args).index(prm)
                        if k_from_end <= len(a.defaults):
                            del a.defaults[len(a.defaults) - k_from_end]
                        lst.remove(prm)
            if ren:
                fdef.body = [_Subst(ren, {}).visit(st) for st in fdef.body]
            c.args = c.args[:1]
            if isinstance(n, ast.GeneratorExp) and len(a.posonlyargs + a.args) == 1:
                par = parents.get(id(n))
                if par is not None:
                    new = ast.copy_location(ast.Call(func=ast.Name(id='map', ctx=ast.Load()), args=[ast.Name(id=fdef.name, ctx=ast.Load()), g.iter], keywords=[]), n)
                    ast.fix_missing_locations(new)
                    self._replace_child(par, n, new)
            self.stats['idioms'] += 1
        parents = {}
        for n in ast.walk(fn):
            for c in ast.iter_child_nodes(n):
                parents[id(c)] = n
        # inline partial(...) arguments
        for n in list(ast.walk(fn)):
            if self._is_partial(n):
                call, pos = site(n)
                if call is not None and not (pos == 1 and n.keywords):
                    rewrite(call, n, pos)
        # partial bound to a local
        for name, asgs in binds.items():
            if len(asgs) != 1 or stores.get(name, 0) != 1 or not self._is_partial(asgs[0].value):
                continue
            uses = [n for n in ast.walk(fn) if isinstance(n, ast.Name) and n.id == name and isinstance(n.ctx, ast.Load)]
            sites = [site(u) for u in uses]
            if not uses or any(c is None or (pos == 1 and asgs[0].value.keywords) for c, pos in sites):
                continue
            for (c, pos) in sites:
                rewrite(c, asgs[0].value, pos)
            par = parents.get(id(asgs[0]))
            for fld in ('body', 'orelse', 'finalbody'):
                blk = getattr(par, fld, None)
                if isinstance(blk, list) and asgs[0] in blk:
                    blk.remove(asgs[0])
                    if not blk:
                        blk.append(ast.copy_location(ast.Pass(), asgs[0]))

        # x = f (f a nested function, x bound once): x is f
        nested = {st.name for st in _local_walk(fn) if isinstance(st, FuncNode)}
        for n in list(_local_walk(fn)):
            if isinstance(n, ast.Assign) and len(n.targets) == 1 and isinstance(n.targets[0], ast.Name) and isinstance(n.value, ast.Name) and n.value.id in nested:
                name = n.targets[0].id
                cnt = sum(1 for x in ast.walk(fn) if isinstance(x, ast.Name) and x.id == name and isinstance(x.ctx, (ast.Store, ast.Del)))
                if cnt != 1:
                    continue
                for x in ast.walk(fn):
                    if isinstance(x, ast.Name) and x.id == name and isinstance(x.ctx, ast.Load):
                        x.id = n.value.id
                for par in ast.walk(fn):
                    for fld in ('body', 'orelse', 'finalbody'):
                        blk = getattr(par, fld, None)
                        if isinstance(blk, list) and n in blk:
                            blk.remove(n)
                            if not blk:
                                blk.append(ast.copy_location(ast.Pass(), n))

    # -------------------------------------------------------------- de-hoist
    def _dehoist(self, d: _Def, ctx_names):
        sn = self._self_name(d)
        if sn is None:
            return
        top = d
        while top.owner is not None:
            top = top.owner
        made = {}
        for n in list(_local_walk(d.node)):
            if isinstance(n, ast.Attribute) and isinstance(n.ctx, ast.Load) and isinstance(n.value, ast.Name) and n.value.id == sn:
                m = self._method(d.rel, top.cls, n.attr)
                if m is None or m is d or not self.transparent(m) or self._overridden(m) or m.busy:
                    continue
                if m.node.decorator_list and not m.is_static:
                    continue
                self.expand(m)
                short = self._thin_wrapper_target(m, n, d, sn)
                if short is not None:
                    old_node, new_node = short
                    if self._replace_everywhere(d.node, old_node, ast.copy_location(new_node, old_node)):
                        self.stats['idioms'] += 1
                        self.log.append(f'thin wrapper {m.qual} replaced by its target in {d.qual}')
                        continue
                if n.attr not in made:
                    cp = copy.deepcopy(m.node)
                    cp.decorator_list = []
                    if not m.is_static:
                        a = cp.args
                        if a.posonlyargs:
                            first = a.posonlyargs.pop(0)
                        else:
                            first = a.args.pop(0)
                        if first.arg != sn:
                            cp.body = [_Subst({first.arg: sn}, {}).visit(s) for s in cp.body]
                    cp.name = self._fresh(n.attr, ctx_names) if n.attr in ctx_names else n.attr
                    ctx_names.add(cp.name)
                    cp._dehoisted_from = m.qual
                    made[n.attr] = cp
                    self.stats['dehoisted'] += 1
                    self.log.append(f'dehoist {m.qual} into {d.qual}')
                # replace the attribute by the local name
                self._replace_everywhere(d.node, n, ast.copy_location(ast.Name(id=made[n.attr].name, ctx=ast.Load()), n))
        if made:
            body = d.node.body
            k = 1 if body and isinstance(body[0], ast.Expr) and isinstance(body[0].value, ast.Constant) and isinstance(body[0].value.value, str) else 0
            d.node.body = body[:k] + list(made.values()) + body[k:]
            for cp in made.values():
                sub = _Def(cp, f'{d.qual}.<locals>.{cp.name}', d.rel, d.cls, d, d.node.body)
                sub.expanded = True
                self.defs[d.rel].append(sub)
                self.by_node[id(cp)] = sub
                self._index_nested(d.rel, cp, sub, d.cls)
                for x in self.defs[d.rel]:
                    if x.owner is sub or (x.owner is not None and x.owner.owner is sub):
                        x.expanded = True

    def _thin_wrapper_target(self, m, attr_node, d, sn):
        """`self.m` where m only forwards its parameters:
        - as a value (`call_soon_threadsafe(self.m, x)`) with body `<target>(p1, .., pn)`: the target itself (eta-reduction);
        - as a non-awaited call `self.m(a..)` of `async def m(p..): return await <expr>`: `<expr>` with the arguments put in."""
        if m.is_static or m.node.decorator_list:
            return None
        a = m.node.args
        if a.vararg or a.kwarg or a.kwonlyargs or a.defaults:
            return None
        params = [x.arg for x in a.posonlyargs + a.args]
        if not params:
            return None
        first, params = params[0], params[1:]
        body = [b for b in m.node.body if not (isinstance(b, ast.Expr) and isinstance(b.value, ast.Constant))]
        if len(body) != 1 or not isinstance(body[0], (ast.Expr, ast.Return)) or body[0].value is None:
            return None
        e = body[0].value
        parent = None
        for p_ in ast.walk(d.node):
            for ch in ast.iter_child_nodes(p_):
                if ch is attr_node:
                    parent = p_
        is_call = isinstance(parent, ast.Call) and parent.func is attr_node
        if not is_call:
            if isinstance(m.node, ast.AsyncFunctionDef):
                if not (isinstance(e, ast.Await) and isinstance(body[0], ast.Return)):
                    return None
                e = e.value
            if not (isinstance(e, ast.Call) and not e.keywords and len(e.args) == len(params) and all(isinstance(x, ast.Name) and x.id == p for x, p in zip(e.args, params))):
                return None
            if any(isinstance(x, ast.Name) and x.id in params for x in ast.walk(e.func)):
                return None
            tgt = copy.deepcopy(e.func)
            if first != sn:
                tgt = _Subst({first: sn}, {}).visit(tgt)
            return attr_node, tgt
        # non-awaited call of an async forwarding method
        if not isinstance(m.node, ast.AsyncFunctionDef) or not (isinstance(body[0], ast.Return) and isinstance(e, ast.Await)):
            return None
        gp = None
        for p_ in ast.walk(d.node):
            for ch in ast.iter_child_nodes(p_):
                if ch is parent:
                    gp = p_
        if isinstance(gp, ast.Await):
            return None
        if parent.keywords or len(parent.args) != len(params) or any(isinstance(x, ast.Starred) for x in parent.args):
            return None
        if any(not isinstance(x, (ast.Name, ast.Constant, ast.Attribute)) for x in parent.args):
            return None
        expr = copy.deepcopy(e.value)
        expr = _Subst({first: sn} if first != sn else {}, dict(zip(params, parent.args))).visit(expr)
        return parent, expr

    def _replace_everywhere(self, root, old, new):
        for p in ast.walk(root):
            if self._replace_child(p, old, new):
                return True
        return False

    # ------------------------------------------------------------- constants
    def _constants(self):
        for rel, tree in self.trees.items():
            inv = self.inv.get(rel)
            if inv is None:
                continue
            known = set(inv['constants'])
            mod_consts = {}
            counts = {}
            for st in tree.body:
                if isinstance(st, ast.Assign) and len(st.targets) == 1 and isinstance(st.targets[0], ast.Name):
                    counts[st.targets[0].id] = counts.get(st.targets[0].id, 0) + 1
                    if st.targets[0].id not in known and _static_value(st.value):
                        mod_consts[st.targets[0].id] = st.value
            mod_consts = {k: v for k, v in mod_consts.items() if counts.get(k) == 1 and not self._mutated(tree, k, v)}
            cls_consts = {}
            for cname, c in self.classes[rel].items():
                for st in c.body:
                    if isinstance(st, ast.Assign) and len(st.targets) == 1 and isinstance(st.targets[0], ast.Name):
                        q = f'{cname}.{st.targets[0].id}'
                        if q not in known and _static_value(st.value) and not self._mutated(tree, st.targets[0].id, st.value):
                            cls_consts[(cname, st.targets[0].id)] = st.value
                    # `NAME: ClassVar[..] = <literal>` (not a dataclass field)
                    elif isinstance(st, ast.AnnAssign) and isinstance(st.target, ast.Name) and st.value is not None and any((isinstance(x, ast.Name) and x.id == 'ClassVar') or (isinstance(x, ast.Attribute) and x.attr == 'ClassVar') for x in ast.walk(st.annotation)):
                        q = f'{cname}.{st.target.id}'
                        if q not in known and _static_value(st.value) and not self._mutated(tree, st.target.id, st.value):
                            cls_consts[(cname, st.target.id)] = st.value
            if not mod_consts and not cls_consts:
                continue
            # constants may refer to each other
            for _ in range(3):
                for k, v in list(mod_consts.items()):
                    mod_consts[k] = self._subst_consts_expr(v, mod_consts, {}, None, set())
            for d in self.defs[rel]:
                if d.owner is not None:
                    continue
                cname = d.cls.name if d.cls is not None else None
                self._subst_consts_func(d.node, mod_consts, cls_consts, cname, rel)
            # class bodies (constants used by other class-level statements)
            for cname, c in self.classes[rel].items():
                for st in c.body:
                    if isinstance(st, ast.Assign):
                        st.value = self._subst_consts_expr(st.value, mod_consts, cls_consts, cname, set())

    _MUTATORS = {'update', 'append', 'add', 'setdefault', 'pop', 'popitem', 'clear', 'extend', 'insert', 'remove', 'discard', 'sort', 'reverse', '__setitem__', '__delitem__'}

    def _mutated(self, tree, name, value) -> bool:
        """is the constant rebound anywhere, or (for a mutable literal) modified through its name?"""
        stores = 0
        mutable = not isinstance(value, (ast.Constant, ast.Tuple, ast.Name, ast.Attribute, ast.UnaryOp, ast.BinOp)) and not (isinstance(value, ast.Call) and getattr(value.func, 'id', getattr(value.func, 'attr', None)) in ('frozenset', 'tuple', 'bytes', 'compile', 'MappingProxyType'))

        def is_ref(n):
            return (isinstance(n, ast.Name) and n.id == name) or (isinstance(n, ast.Attribute) and n.attr == name)

        if mutable:
            # a mutable literal may only be folded when every use is a pure read in place: an alias (`q = CONST`), an argument,
            # a return value ... could be modified through the other name (folding would then hide shared state)
            parents = {}
            for n in ast.walk(tree):
                for c in ast.iter_child_nodes(n):
                    parents[id(c)] = n
            READERS = {'get', 'keys', 'items', 'values', 'copy', 'index', 'count', 'union', 'intersection', 'difference', 'issubset', 'issuperset'}
            for n in ast.walk(tree):
                if is_ref(n) and isinstance(n.ctx, ast.Load):
                    par = parents.get(id(n))
                    ok = False
                    if isinstance(par, ast.Subscript) and par.value is n and isinstance(par.ctx, ast.Load):
                        ok = True
                    elif isinstance(par, ast.Compare) and n in par.comparators and all(isinstance(o, (ast.In, ast.NotIn)) for o in par.ops):
                        ok = True
                    elif isinstance(par, (ast.For, ast.AsyncFor, ast.comprehension)) and par.iter is n:
                        ok = True
                    elif isinstance(par, ast.Attribute) and par.value is n and par.attr in READERS:
                        ok = True
                    elif isinstance(par, ast.Call) and n in par.args and isinstance(par.func, ast.Name) and par.func.id in ('len', 'sorted', 'list', 'tuple', 'set', 'frozenset', 'dict', 'any', 'all', 'isinstance'):
                        ok = True
                    elif isinstance(par, ast.Call) and n in par.args and isinstance(par.func, ast.Attribute) and par.func.attr in ('fromkeys', 'join') and isinstance(par.func.value, (ast.Name, ast.Constant)):
                        ok = True
                    elif isinstance(par, (ast.Starred, ast.keyword)) and (not isinstance(par, ast.keyword) or par.arg is None):
                        ok = True
                    elif isinstance(par, ast.Attribute) and par.value is not n:
                        ok = True  # self.CONST handled by the enclosing attribute node
                    if not ok and isinstance(par, ast.Call) and (n in par.args or any(k.value is n for k in par.keywords)):
                        ok = self._param_read_only(tree, par, n, READERS)
                    if not ok:
                        return True
        for n in ast.walk(tree):
            if is_ref(n) and isinstance(n.ctx, (ast.Store, ast.Del)):
                stores += 1
            elif isinstance(n, ast.Global) and name in n.names:
                return True
            elif isinstance(n, ast.AugAssign) and is_ref(n.target):
                return True
            elif mutable and isinstance(n, ast.Subscript) and is_ref(n.value) and isinstance(n.ctx, (ast.Store, ast.Del)):
                return True
            elif mutable and isinstance(n, ast.Call) and isinstance(n.func, ast.Attribute) and n.func.attr in self._MUTATORS and is_ref(n.func.value):
                return True
        return stores != 1

    def _param_read_only(self, tree, call, arg, READERS):
        """the constant is passed to a function of this module that only reads the corresponding parameter"""
        fname = call.func.id if isinstance(call.func, ast.Name) else (call.func.attr if isinstance(call.func, ast.Attribute) and isinstance(call.func.value, ast.Name) and call.func.value.id in ('self', 'cls') else None)
        if fname is None:
            return False
        cands = [f for f in ast.walk(tree) if isinstance(f, FuncNode) and f.name == fname]
        if len(cands) != 1:
            return False
        f = cands[0]
        params = [a.arg for a in f.args.posonlyargs + f.args.args]
        is_static = any(isinstance(d_, ast.Name) and d_.id == 'staticmethod' for d_ in f.decorator_list)
        if isinstance(call.func, ast.Attribute) and params and not is_static:
            params = params[1:]
        pname = None
        if arg in call.args:
            i = call.args.index(arg)
            pname = params[i] if i < len(params) else None
        else:
            for k in call.keywords:
                if k.value is arg:
                    pname = k.arg
        if pname is None:
            return False
        parents = {}
        for n in ast.walk(f):
            for c in ast.iter_child_nodes(n):
                parents[id(c)] = n
        for n in ast.walk(f):
            if isinstance(n, ast.Name) and n.id == pname:
                if not isinstance(n.ctx, ast.Load):
                    return False
                par = parents.get(id(n))
                ok = (
                    (isinstance(par, ast.Subscript) and par.value is n and isinstance(par.ctx, ast.Load))
                    or (isinstance(par, ast.Compare) and n in par.comparators)
                    or (isinstance(par, (ast.For, ast.AsyncFor, ast.comprehension)) and par.iter is n)
                    or (isinstance(par, ast.Attribute) and par.value is n and par.attr in READERS)
                    or (isinstance(par, ast.Call) and n in par.args and isinstance(par.func, ast.Name) and par.func.id in ('len', 'sorted', 'list', 'tuple', 'set', 'frozenset', 'dict', 'any', 'all', 'isinstance'))
                )
                if not ok:
                    return False
        return True

    def _subst_consts_func(self, fn, mod_consts, cls_consts, cname, rel):
        shadow = _stores(fn) | {a.arg for a in fn.args.args + fn.args.kwonlyargs + fn.args.posonlyargs}
        for n in ast.walk(fn):
            if isinstance(n, FuncNode) and n is not fn:
                shadow |= _stores(n) | {a.arg for a in n.args.args + n.args.kwonlyargs + n.args.posonlyargs}
        norm = self

        class T(ast.NodeTransformer):
            def visit_Name(self, n):
                if isinstance(n.ctx, ast.Load) and n.id in mod_consts and n.id not in shadow:
                    norm.stats['constants'] += 1
                    return ast.copy_location(copy.deepcopy(mod_consts[n.id]), n)
                return n

            def visit_Attribute(self, n):
                self.generic_visit(n)
                if isinstance(n.ctx, ast.Load) and isinstance(n.value, ast.Name) and n.value.id in ('self', 'cls', cname):
                    v = cls_consts.get((cname, n.attr))
                    if v is not None:
                        norm.stats['constants'] += 1
                        return ast.copy_location(copy.deepcopy(v), n)
                if isinstance(n.ctx, ast.Load) and isinstance(n.value, ast.Name):
                    v = cls_consts.get((n.value.id, n.attr))
                    if v is not None:
                        norm.stats['constants'] += 1
                        return ast.copy_location(copy.deepcopy(v), n)
                return n

        T().visit(fn)
        ast.fix_missing_locations(fn)

    def _subst_consts_expr(self, e, mod_consts, cls_consts, cname, shadow):
        class T(ast.NodeTransformer):
            def visit_Name(self, n):
                if isinstance(n.ctx, ast.Load) and n.id in mod_consts and mod_consts[n.id] is not e:
                    return ast.copy_location(copy.deepcopy(mod_consts[n.id]), n)
                return n

        holder = ast.Expr(value=copy.deepcopy(e))
        T().visit(holder)
        ast.fix_missing_locations(holder)
        return holder.value

    # ------------------------------------------------------------ dead defs
    def _remove_dead(self):
        refs = {}
        for rel, tree in self.trees.items():
            for n in ast.walk(tree):
                if isinstance(n, ast.Name):
                    refs[n.id] = refs.get(n.id, 0) + 1
                elif isinstance(n, ast.Attribute):
                    refs[n.attr] = refs.get(n.attr, 0) + 1
                elif isinstance(n, ast.Constant) and isinstance(n.value, str) and n.value.isidentifier():
                    refs[n.value] = refs.get(n.value, 0) + 1
        changed = True
        rounds = 0
        while changed and rounds < 4:
            changed = False
            rounds += 1
            for rel in self.trees:
                for d in list(self.defs[rel]):
                    if not self.transparent(d) or getattr(d.node, '_dehoisted_from', None):
                        continue
                    holder = None
                    for par in ast.walk(self.trees[rel]):
                        for fld in ('body', 'orelse', 'finalbody'):
                            blk = getattr(par, fld, None)
                            if isinstance(blk, list) and any(x is d.node for x in blk):
                                holder = blk
                    if holder is None:
                        continue
                    d.parent_body = holder
                    own = sum(1 for n in ast.walk(d.node) if (isinstance(n, ast.Name) and n.id == d.name) or (isinstance(n, ast.Attribute) and n.attr == d.name))
                    if refs.get(d.name, 0) - own > 0:
                        continue
                    d.parent_body.remove(d.node)
                    if not d.parent_body:
                        d.parent_body.append(ast.Pass())
                    for n in ast.walk(d.node):
                        if isinstance(n, ast.Name):
                            refs[n.id] = refs.get(n.id, 0) - 1
                        elif isinstance(n, ast.Attribute):
                            refs[n.attr] = refs.get(n.attr, 0) - 1
                    self.stats['removed_defs'] += 1
                    self.log.append(f'removed expanded helper {d.rel}::{d.qual}')
                    changed = True

    # -------------------------------------------------------------------- run
    def _class_index(self):
        for rel, tree in self.trees.items():
            self.classes.setdefault(rel, {})
            for st in tree.body:
                if isinstance(st, ast.ClassDef):
                    self.classes[rel][st.name] = st

    def _rehome_methods(self):
        """a private method of the inventory that now exists as a module-level function of the same name (it never used
        `self`) is a method again: definition moved back into the class, calls `f(..)` become `self.f(..)`"""
        for rel, tree in self.trees.items():
            inv = self.inv.get(rel)
            if inv is None:
                continue
            known = set(inv['functions'])
            for cname, cnode in list(self.classes.get(rel, {}).items()):
                have = {st.name for st in cnode.body if isinstance(st, FuncNode)}
                missing = {q.split('.', 1)[1] for q in known if q.startswith(cname + '.') and q.count('.') == 1} - have
                cands = [st for st in tree.body if isinstance(st, FuncNode) and st.name in missing and st.name not in known]
                # ... or under another name: an unknown module-level function whose body looks like exactly one missing method
                prof = inv.get('profiles', {})
                unknown = [st for st in tree.body if isinstance(st, FuncNode) and st.name not in known and st not in cands]
                for mname in sorted(missing - {c.name for c in cands}):
                    pm = prof.get(f'{cname}.{mname}')
                    if not pm or not pm.get('tokens'):
                        continue
                    want_t = set(pm['tokens'])
                    scored = []
                    for st in unknown:
                        got = set(fingerprint(st))
                        union = want_t | got
                        sim = len(want_t & got) / len(union) if union else 0.0
                        nargs = len(st.args.posonlyargs + st.args.args + st.args.kwonlyargs)
                        if sim >= 0.8 and nargs == pm.get('nargs', -1) - 1 and isinstance(st, ast.AsyncFunctionDef) == bool(pm.get('async')):
                            scored.append((sim, st))
                    if len(scored) == 1:
                        st = scored[0][1]
                        old_name = st.name
                        for n in ast.walk(tree):
                            if isinstance(n, ast.Name) and n.id == old_name:
                                n.id = mname
                        st.name = mname
                        cands.append(st)
                        unknown.remove(st)
                        self.log.append(f'{rel}: module-level {old_name} is taken to be the former method {cname}.{mname} (similarity {scored[0][0]:.2f})')
                if not cands:
                    continue
                names = {f.name for f in cands}
                # every call site must be inside a method of this class (where `self` exists) or inside another moved function
                ok = True
                sites = []
                for top in tree.body:
                    holders = []
                    if isinstance(top, ast.ClassDef) and top is cnode:
                        holders = [(m, (m.args.posonlyargs + m.args.args)[0].arg if (m.args.posonlyargs + m.args.args) else None) for m in top.body if isinstance(m, FuncNode)]
                    elif isinstance(top, FuncNode) and top in cands:
                        holders = [(top, 'self')]
                    elif any(isinstance(n, ast.Name) and n.id in names for n in ast.walk(top)) and not (isinstance(top, FuncNode) and top in cands):
                        ok = False
                    for h, selfname in holders:
                        for n in ast.walk(h):
                            if isinstance(n, ast.Name) and n.id in names and isinstance(n.ctx, ast.Load):
                                if selfname is None or any(isinstance(d_, ast.Name) and d_.id == 'staticmethod' for d_ in h.decorator_list):
                                    ok = False
                                sites.append((h, n, selfname))
                if not ok:
                    continue
                for h, n, selfname in sites:
                    new = ast.copy_location(ast.Attribute(value=ast.copy_location(ast.Name(id=selfname, ctx=ast.Load()), n), attr=n.id, ctx=ast.Load()), n)
                    self._replace_everywhere(h, n, new)
                for f in cands:
                    tree.body.remove(f)
                    f.args.args.insert(0, ast.arg(arg='self'))
                    cnode.body.append(f)
                    self.stats['rehomed'] = self.stats.get('rehomed', 0) + 1
                    self.log.append(f'{rel}: module-level {f.name} is taken to be the method {cname}.{f.name}')
                ast.fix_missing_locations(tree)

    def _records_to_dicts(self):
        """A new private record type (NamedTuple / dataclass that the design tree does not have) that only bundles the
        values a function returns - built by `R(a=x, ..)`, read as `r.a` / `r._asdict()` by the callers - is the dict
        `{'a': x, ..}` the function returned before the type was introduced.  Applied only when every use of every
        value of the type is one of those forms (otherwise the type is left alone)."""
        for rel, tree in self.trees.items():
            recs = {}
            for cname in self.classes.get(rel, {}):
                f = self._record_fields(rel, cname)
                if f:
                    recs[cname] = f
            if not recs:
                continue
            funcs = [n for n in ast.walk(tree) if isinstance(n, FuncNode)]
            for cname, fields in recs.items():
                ctors = [n for n in ast.walk(tree) if isinstance(n, ast.Call) and isinstance(n.func, ast.Name) and n.func.id == cname]
                annot = set()
                for n in ast.walk(tree):
                    for a_ in ([n.returns] if isinstance(n, FuncNode) and n.returns is not None else []) + ([n.annotation] if isinstance(n, (ast.arg, ast.AnnAssign)) and n.annotation is not None else []):
                        annot |= {id(x) for x in ast.walk(a_)}
                other_refs = [n for n in ast.walk(tree) if isinstance(n, ast.Name) and n.id == cname and not any(c.func is n for c in ctors) and id(n) not in annot]
                if not ctors or other_refs:
                    continue
                if any(any(isinstance(x, ast.Starred) for x in c.args) or any(k.arg is None for k in c.keywords) or len(c.args) + len(c.keywords) != len(fields) for c in ctors):
                    continue
                # functions all of whose returns construct the record
                makers = set()
                for fn in funcs:
                    rets = [r for r in _local_walk(fn) if isinstance(r, ast.Return)]
                    if rets and all(r.value is not None and any(r.value is c for c in ctors) for r in rets):
                        makers.add(fn.name)
                ctor_in_maker_return = all(any(isinstance(r, ast.Return) and r.value is c for fn in funcs if fn.name in makers for r in _local_walk(fn)) for c in ctors)
                if not makers or not ctor_in_maker_return:
                    continue
                # a maker handed around as a value (executor.submit(maker, ..)) returns into code this pass cannot follow
                called = {id(c.func) for c in ast.walk(tree) if isinstance(c, ast.Call)}
                if any((isinstance(n, ast.Name) and n.id in makers and isinstance(n.ctx, ast.Load) or isinstance(n, ast.Attribute) and n.attr in makers) and id(n) not in called for n in ast.walk(tree)):
                    continue
                ok = True
                rewrites = []  # (function, name node parent chain)
                for fn in funcs:
                    parents = {}
                    for n in ast.walk(fn):
                        for c in ast.iter_child_nodes(n):
                            parents[id(c)] = n
                    typed = set()
                    for st in _local_walk(fn):
                        if isinstance(st, ast.Assign) and len(st.targets) == 1 and isinstance(st.targets[0], ast.Name):
                            v = st.value.value if isinstance(st.value, ast.Await) else st.value
                            if isinstance(v, ast.Call):
                                callee = v.func.attr if isinstance(v.func, ast.Attribute) else getattr(v.func, 'id', None)
                                if callee in makers:
                                    typed.add(st.targets[0].id)
                    # every call of a maker must land in such a local
                    for c in _local_walk(fn):
                        if isinstance(c, ast.Call):
                            callee = c.func.attr if isinstance(c.func, ast.Attribute) else getattr(c.func, 'id', None)
                            if callee in makers:
                                par = parents.get(id(c))
                                if isinstance(par, ast.Await):
                                    par = parents.get(id(par))
                                if not (isinstance(par, ast.Assign) and len(par.targets) == 1 and isinstance(par.targets[0], ast.Name)):
                                    ok = False
                    for name in typed:
                        stores = [n for n in ast.walk(fn) if isinstance(n, ast.Name) and n.id == name and isinstance(n.ctx, (ast.Store, ast.Del))]
                        if len(stores) != 1:
                            ok = False
                        for u in [n for n in ast.walk(fn) if isinstance(n, ast.Name) and n.id == name and isinstance(n.ctx, ast.Load)]:
                            par = parents.get(id(u))
                            if isinstance(par, ast.Attribute) and isinstance(par.ctx, ast.Load) and par.attr in fields:
                                rewrites.append((fn, par, 'field'))
                            elif isinstance(par, ast.Attribute) and par.attr == '_asdict' and isinstance(parents.get(id(par)), ast.Call) and not parents[id(par)].args:
                                rewrites.append((fn, parents[id(par)], 'asdict'))
                            else:
                                ok = False
                if not ok:
                    continue
                for fn, node, kind in rewrites:
                    if kind == 'field':
                        new = ast.Subscript(value=node.value, slice=ast.Constant(value=node.attr), ctx=ast.Load())
                    else:
                        new = node.func.value
                    self._replace_everywhere(fn, node, ast.copy_location(new, node))
                for c in ctors:
                    vals = dict(zip(fields, c.args))
                    vals.update({k.arg: k.value for k in c.keywords})
                    new = ast.copy_location(ast.Dict(keys=[ast.Constant(value=f) for f in fields], values=[vals[f] for f in fields]), c)
                    for fn in funcs:
                        if any(x is c for x in ast.walk(fn)):
                            self._replace_everywhere(fn, c, new)
                self.stats['idioms'] += 1
                self.log.append(f'{rel}: record type {cname} is read as the dict its makers ({", ".join(sorted(makers))}) returned')
            ast.fix_missing_locations(tree)

    # ------------------------------------------------------- parameter names
    def _rename_params_back(self):
        """An inventory function whose parameters have the same shape but other names had its parameters renamed:
        the names of the design tree are restored (in the body and in keyword arguments at the call sites), so that
        what the rules and the term evaluator call `<param>` does not depend on the spelling."""
        by_name = {}
        escaped = None
        for rel, defs in self.defs.items():
            for d in defs:
                by_name.setdefault(d.name, []).append(d)
        for rel, defs in self.defs.items():
            inv = self.inv.get(rel)
            if inv is None:
                continue
            for d in defs:
                q = self.canonical.get(id(d), d.qual)
                prof = inv.get('profiles', {}).get(q)
                if not prof or 'params' not in prof:
                    continue
                a = d.node.args
                cur = a.posonlyargs + a.args + a.kwonlyargs
                shape = [len(a.posonlyargs), len(a.args), len(a.kwonlyargs), bool(a.vararg), bool(a.kwarg)]
                if shape != prof['pshape'] or [x.arg for x in cur] == prof['params']:
                    continue
                ren = {x.arg: o for x, o in zip(cur, prof['params']) if x.arg != o}
                # a function that is also handed around as a value (a table of getters, a callback) is called from sites
                # whose keyword arguments this pass cannot see: its parameter names are left as they are
                if escaped is None:
                    called = {id(c.func) for tree in self.trees.values() for c in ast.walk(tree) if isinstance(c, ast.Call)}
                    escaped = set()
                    for tree in self.trees.values():
                        for n in ast.walk(tree):
                            if isinstance(n, ast.Name) and isinstance(n.ctx, ast.Load) and id(n) not in called:
                                escaped.add(n.id)
                            elif isinstance(n, ast.Attribute) and isinstance(n.ctx, ast.Load) and id(n) not in called:
                                escaped.add(n.attr)
                if d.name in escaped and any(x.arg in ren for x in a.args + a.kwonlyargs):
                    continue
                names = _all_names(d.node)
                if any(o in names and o not in ren for o in ren.values()):
                    continue  # the old name is in use for something else
                if any(isinstance(n, FuncNode + (ast.Lambda,)) and n is not d.node and any(x.arg in ren for x in ast.walk(n.args) if isinstance(x, ast.arg)) for n in ast.walk(d.node)):
                    continue
                for x in cur:
                    if x.arg in ren:
                        x.arg = ren[x.arg]
                # two-step renaming keeps swaps (a, b -> b, a) apart
                tmp = {k: f'__p{i}__' for i, k in enumerate(ren)}
                d.node.body = [_Subst(tmp, {}).visit(st) for st in d.node.body]
                d.node.body = [_Subst({tmp[k]: v for k, v in ren.items()}, {}).visit(st) for st in d.node.body]
                kw_ren = {k: v for k, v in ren.items() if k in {x.arg for x in a.args + a.kwonlyargs} | set(ren.values()) or True}
                if len(by_name.get(d.name, [])) == 1:
                    for tree in self.trees.values():
                        for c in ast.walk(tree):
                            if isinstance(c, ast.Call) and ((isinstance(c.func, ast.Name) and c.func.id == d.name) or (isinstance(c.func, ast.Attribute) and c.func.attr == d.name)):
                                for k in c.keywords:
                                    if k.arg in kw_ren:
                                        k.arg = kw_ren[k.arg]
                self.stats['params_renamed_back'] = self.stats.get('params_renamed_back', 0) + 1
                self.log.append(f'{rel}: parameters of {q} are read under the names of the design tree ({", ".join(f"{k}->{v}" for k, v in ren.items())})')

    # -------------------------------------------------------- call argument form
    def _positional_calls(self):
        """`Wrapper(file=f, rate_limiter=self)` is `Wrapper(f, self)`: a call of a package class / function by simple name
        that passes ALL its arguments by keyword, each naming a positional parameter and together filling the leading
        positions, is read in positional form (the form the design tree uses for such calls)."""
        sigs = {}
        for rel, tree in self.trees.items():
            for st in tree.body:
                if isinstance(st, FuncNode):
                    a = st.args
                    sigs.setdefault(st.name, []).append([x.arg for x in a.posonlyargs + a.args] if not a.posonlyargs else None)
                elif isinstance(st, ast.ClassDef):
                    init = next((m for m in st.body if isinstance(m, FuncNode) and m.name == '__init__'), None)
                    if init is not None:
                        a = init.args
                        sigs.setdefault(st.name, []).append([x.arg for x in (a.posonlyargs + a.args)[1:]] if not a.posonlyargs else None)
        for tree in self.trees.values():
            for c in ast.walk(tree):
                if not (isinstance(c, ast.Call) and isinstance(c.func, ast.Name) and not c.args and c.keywords):
                    continue
                sg = sigs.get(c.func.id)
                if not sg or len(sg) != 1 or sg[0] is None:
                    continue
                params = sg[0]
                names = [k.arg for k in c.keywords]
                if None in names or len(set(names)) != len(names) or set(names) != set(params[: len(names)]):
                    continue
                by = {k.arg: k.value for k in c.keywords}
                c.args = [by[p_] for p_ in params[: len(names)]]
                c.keywords = []
                self.stats['idioms'] += 1

    # ------------------------------------------------- moved definitions / new bases
    def _rehome_moved_definitions(self):
        """A top-level function / class of the inventory that is gone from its module while a definition of the same name
        now lives in another module of the package was MOVED (and is imported back): it is read where the design tree
        had it.  The imports of the module it came from are carried along."""
        for rel, inv in self.inv.items():
            tree = self.trees.get(rel)
            if tree is None:
                continue
            present = {st.name for st in tree.body if isinstance(st, FuncNode + (ast.ClassDef,))}
            want = {q for q in inv.get('functions', []) if '.' not in q} | {q for q in inv.get('classes', []) if '.' not in q}
            renamed = {}
            for name in sorted(want - present):
                variants = [name] + [v for v in (name.lstrip('_'), '_' + name) if v != name and v]
                homes = []
                for v in variants:
                    homes = [(rel2, st) for rel2, t2 in self.trees.items() if rel2 != rel for st in t2.body if isinstance(st, FuncNode + (ast.ClassDef,)) and st.name == v]
                    if homes:
                        break
                if len(homes) != 1:
                    continue
                rel2, node = homes[0]
                found = node.name
                if found in {q for q in self.inv.get(rel2, {}).get('functions', []) + self.inv.get(rel2, {}).get('classes', [])}:
                    continue  # it belongs there
                # only when this module still refers to it (imports it back, or reaches it through the imported module)
                mod_aliases = {(a.asname or a.name) for st_ in tree.body if isinstance(st_, ast.ImportFrom) for a in st_.names if self._module_of_import(rel, st_.level, ((st_.module + '.') if st_.module else '') + a.name) == rel2}
                by_name = any(isinstance(n, ast.ImportFrom) and any(a.name == found for a in n.names) for n in ast.walk(tree))
                by_attr = any(isinstance(n, ast.Attribute) and n.attr == found and isinstance(n.value, ast.Name) and n.value.id in mod_aliases for n in ast.walk(tree))
                if not by_name and not by_attr and not any(isinstance(n, ast.Attribute) and n.attr == found for n in ast.walk(tree)):
                    continue
                if found != name:
                    if not by_attr and not by_name:
                        continue
                    renamed[found] = name
                    node.name = name
                if by_attr:
                    for par in ast.walk(tree):
                        for fld, val in ast.iter_fields(par):
                            vals = val if isinstance(val, list) else [val]
                            for i_, x in enumerate(vals):
                                if isinstance(x, ast.Attribute) and x.attr == found and isinstance(x.value, ast.Name) and x.value.id in mod_aliases:
                                    nn = ast.copy_location(ast.Name(id=name, ctx=x.ctx), x)
                                    if isinstance(val, list):
                                        val[i_] = nn
                                    else:
                                        setattr(par, fld, nn)
                self.trees[rel2].body.remove(node)
                tree.body.append(node)
                have = {ast.dump(st) for st in tree.body if isinstance(st, (ast.Import, ast.ImportFrom))}
                k = 0
                for st in self.trees[rel2].body:
                    if isinstance(st, ast.Import) and ast.dump(st) not in have:
                        tree.body.insert(k, copy.deepcopy(st))
                        k += 1
                    elif isinstance(st, ast.ImportFrom) and ast.dump(st) not in have and not (st.level and st.module is None and rel.endswith('__init__.py') is False and False):
                        # relative imports are re-based only when both modules sit in the same package directory
                        if st.level == 0 or os.path.dirname(rel2) == os.path.dirname(rel):
                            tree.body.insert(k, copy.deepcopy(st))
                            k += 1
                # drop the import that brought the name back (it would shadow the definition for the loader)
                for st in list(tree.body):
                    if isinstance(st, ast.ImportFrom):
                        st.names = [a for a in st.names if (a.asname or a.name) != name]
                        if not st.names:
                            tree.body.remove(st)
                self.stats['rehomed'] = self.stats.get('rehomed', 0) + 1
                self.log.append(f'{rel}: {name} (now defined in {rel2}{" as " + found if found != name else ""}) is read in the module the design tree has it in')
                ast.fix_missing_locations(tree)
            if renamed:
                # the moved definitions call each other by their new names
                for st_ in tree.body:
                    if isinstance(st_, FuncNode + (ast.ClassDef,)) and st_.name in renamed.values():
                        for n in ast.walk(st_):
                            if isinstance(n, ast.Name) and n.id in renamed:
                                n.id = renamed[n.id]

    def _flatten_new_bases(self):
        """A class of the inventory that now inherits from a NEW class of the package (a mixin / extracted base that the
        design tree does not have) is read with the members of that class as its own: extracting a base class does not
        change what the class does."""
        all_classes = {}
        for rel, tree in self.trees.items():
            for st in tree.body:
                if isinstance(st, ast.ClassDef):
                    all_classes.setdefault(st.name, []).append((rel, st))
        known = {c for inv in self.inv.values() for c in inv.get('classes', [])}
        used_as_base = {}
        for rel, tree in self.trees.items():
            inv = self.inv.get(rel)
            if inv is None:
                continue
            for st in tree.body:
                if not (isinstance(st, ast.ClassDef) and st.name in inv.get('classes', [])):
                    continue
                for _round in range(3):
                    changed = False
                    for b in list(st.bases):
                        bname = b.id if isinstance(b, ast.Name) else (b.attr if isinstance(b, ast.Attribute) else None)
                        if bname is None or bname in known or len(all_classes.get(bname, [])) != 1:
                            continue
                        rel2, B = all_classes[bname][0]
                        if B.decorator_list or B.keywords:
                            continue
                        own = {m.name for m in st.body if isinstance(m, FuncNode + (ast.ClassDef,))} | {t.id for m in st.body if isinstance(m, ast.Assign) for t in m.targets if isinstance(t, ast.Name)} | {m.target.id for m in st.body if isinstance(m, ast.AnnAssign) and isinstance(m.target, ast.Name)}
                        add = []
                        for m in B.body:
                            nm = m.name if isinstance(m, FuncNode + (ast.ClassDef,)) else None
                            if isinstance(m, ast.Expr) and isinstance(m.value, ast.Constant) and isinstance(m.value.value, str):
                                continue
                            if isinstance(m, ast.Assign):
                                if any(isinstance(t, ast.Name) and t.id in own for t in m.targets):
                                    continue
                            elif isinstance(m, ast.AnnAssign) and isinstance(m.target, ast.Name) and m.target.id in own:
                                continue
                            elif nm is not None and nm in own:
                                continue
                            if isinstance(m, ast.Pass):
                                continue
                            add.append(copy.deepcopy(m))
                        k = 1 if st.body and isinstance(st.body[0], ast.Expr) and isinstance(st.body[0].value, ast.Constant) and isinstance(st.body[0].value.value, str) else 0
                        st.body[k:k] = add
                        idx = st.bases.index(b)
                        newb = [x for x in B.bases if ast.dump(x) not in {ast.dump(y) for y in st.bases}]
                        st.bases[idx : idx + 1] = [copy.deepcopy(x) for x in newb]
                        if rel2 != rel:
                            have = {ast.dump(x) for x in tree.body if isinstance(x, (ast.Import, ast.ImportFrom))}
                            k2 = 0
                            for x in self.trees[rel2].body:
                                if isinstance(x, ast.Import) and ast.dump(x) not in have:
                                    tree.body.insert(k2, copy.deepcopy(x))
                                    k2 += 1
                        used_as_base.setdefault(bname, []).append(st.name)
                        self.stats['flattened_bases'] = self.stats.get('flattened_bases', 0) + 1
                        self.log.append(f'{rel}: {st.name} is read with the members of its new base {bname} as its own')
                        changed = True
                    if not changed:
                        break
                ast.fix_missing_locations(tree)
        # a new base all of whose users were flattened and that nothing else mentions is dropped
        for bname, users in used_as_base.items():
            rel2, B = all_classes[bname][0]
            others = [n for t in self.trees.values() for n in ast.walk(t) if (isinstance(n, ast.Name) and n.id == bname) or (isinstance(n, ast.Attribute) and n.attr == bname) or (isinstance(n, ast.alias) and n.name == bname)]
            if not [n for n in others if not isinstance(n, ast.alias)]:
                if B in self.trees[rel2].body:
                    self.trees[rel2].body.remove(B)
                for t in self.trees.values():
                    for st in list(t.body):
                        if isinstance(st, ast.ImportFrom):
                            st.names = [a for a in st.names if a.name != bname]
                            if not st.names:
                                t.body.remove(st)

    # ------------------------------------------------------------ re-outline
    def _reoutline(self):
        """A single-exit method of the inventory that no longer exists, while its statements (up to a renaming of
        locals) now stand inside another function, was expanded into that caller: the statements become the call
        again and the method is restored from the inventory, so rules anchored in it see what they saw before."""
        for rel, tree in self.trees.items():
            inv = self.inv.get(rel)
            if not inv or not inv.get('sources'):
                continue
            classes = {st.name: st for st in tree.body if isinstance(st, ast.ClassDef)}
            for q, source in sorted(inv['sources'].items()):
                cname, mname = q.split('.', 1)
                cnode = classes.get(cname)
                if cnode is None or any(isinstance(n, FuncNode) and n.name == mname for n in ast.walk(tree)):
                    continue
                if any(isinstance(n, ast.Attribute) and n.attr == mname for n in ast.walk(tree)):
                    continue  # still referenced: it lives somewhere else (a base class, a rename to come)
                try:
                    F = ast.parse(source).body[0]
                except SyntaxError:
                    continue
                body = _strip_doc(F.body)
                fa = F.args
                if fa.vararg or fa.kwarg or any(isinstance(d, ast.Name) and d.id in ('staticmethod', 'classmethod', 'property') for d in F.decorator_list):
                    continue
                all_params = [a.arg for a in fa.posonlyargs + fa.args + fa.kwonlyargs]
                if not all_params:
                    continue
                selfp, params = all_params[0], all_params[1:]
                flocals = set(all_params) | {n.id for st in body for n in ast.walk(st) if isinstance(n, ast.Name) and isinstance(n.ctx, (ast.Store, ast.Del))} | {h.name for st in body for h in ast.walk(st) if isinstance(h, ast.ExceptHandler) and h.name}
                last = body[-1]
                ret_name = last.value.id if isinstance(last, ast.Return) and isinstance(last.value, ast.Name) and last.value.id in flocals else None
                pattern = body[:-1] if ret_name is not None else body
                if len(pattern) < 2:
                    continue
                done = False
                for G in [n for n in ast.walk(cnode) if isinstance(n, FuncNode)]:
                    if done:
                        break
                    gargs = G.args.posonlyargs + G.args.args
                    for holder in ast.walk(G):
                        for fld in ('body', 'orelse', 'finalbody'):
                            blk = getattr(holder, fld, None)
                            if not (isinstance(blk, list) and blk and isinstance(blk[0], ast.stmt)) or done:
                                continue
                            for i in range(0, len(blk) - len(pattern) + 1):
                                seq = blk[i : i + len(pattern)]
                                if holder is G and len(seq) == len(_strip_doc(G.body)):
                                    continue  # a whole body: that is a renamed function, not an expansion
                                m, rm = {}, {}
                                if not all(self._unify(a, b, m, rm, flocals) for a, b in zip(pattern, seq)):
                                    continue
                                tail = None
                                if ret_name is None and isinstance(last, ast.Return):
                                    # the returned expression is the value of the last matched statement
                                    tail = seq[-1]
                                    if not isinstance(tail, (ast.Assign, ast.Return, ast.Expr)):
                                        continue
                                if any(p_ not in m for p_ in params) or (ret_name is not None and ret_name not in m):
                                    continue
                                if selfp in m and (not gargs or m[selfp] != gargs[0].arg) and m.get(selfp) != 'self':
                                    continue
                                # locals of the method must not be visible in the caller outside the matched statements
                                inside = {id(x) for st in seq for x in ast.walk(st)}
                                leak = {m[l] for l in flocals if l in m and l not in all_params and l != ret_name}
                                if any(isinstance(x, ast.Name) and x.id in leak and id(x) not in inside for x in ast.walk(G)):
                                    continue
                                recv = ast.Name(id=m.get(selfp, gargs[0].arg if gargs else 'self'), ctx=ast.Load())
                                npos = len(fa.posonlyargs + fa.args) - 1
                                call = ast.Call(func=ast.Attribute(value=recv, attr=mname, ctx=ast.Load()), args=[ast.Name(id=m[p_], ctx=ast.Load()) for p_ in params[:npos]], keywords=[ast.keyword(arg=p_, value=ast.Name(id=m[p_], ctx=ast.Load())) for p_ in params[npos:]])
                                value = ast.Await(value=call) if isinstance(F, ast.AsyncFunctionDef) else call
                                if ret_name is not None:
                                    new = ast.Assign(targets=[ast.Name(id=m[ret_name], ctx=ast.Store())], value=value, type_comment=None)
                                else:
                                    continue  # expression results are left to the rules
                                ast.copy_location(new, seq[0])
                                ast.fix_missing_locations(new)
                                blk[i : i + len(pattern)] = [new]
                                ast.copy_location(F, seq[0])
                                for x in ast.walk(F):
                                    if hasattr(x, 'lineno'):
                                        x.lineno = x.end_lineno = seq[0].lineno
                                cnode.body.append(F)
                                self.stats['reoutlined'] = self.stats.get('reoutlined', 0) + 1
                                self.log.append(f'{rel}: statements at line {seq[0].lineno} of {G.name} are the body of the former {q}: read as a call of it again')
                                done = True
                                break

    def _unify(self, a, b, m, rm, flocals):
        if type(a) is not type(b):
            return False
        if isinstance(a, ast.Name):
            if type(a.ctx) is not type(b.ctx):
                return False
            return self._unify_name(a.id, b.id, m, rm, flocals)
        if isinstance(a, ast.arg):
            return self._unify_name(a.arg, b.arg, m, rm, flocals | {a.arg})
        if isinstance(a, ast.ExceptHandler):
            if (a.name is None) != (b.name is None):
                return False
            if a.name is not None and not self._unify_name(a.name, b.name, m, rm, flocals):
                return False
            if (a.type is None) != (b.type is None) or (a.type is not None and not self._unify(a.type, b.type, m, rm, flocals)):
                return False
            return self._unify_list(a.body, b.body, m, rm, flocals)
        for f in a._fields:
            x, y = getattr(a, f, None), getattr(b, f, None)
            if isinstance(x, list):
                if not isinstance(y, list) or not self._unify_list(x, y, m, rm, flocals):
                    return False
            elif isinstance(x, ast.AST):
                if not isinstance(y, ast.AST) or not self._unify(x, y, m, rm, flocals):
                    return False
            elif x != y:
                return False
        return True

    def _unify_list(self, xs, ys, m, rm, flocals):
        return len(xs) == len(ys) and all((self._unify(x, y, m, rm, flocals) if isinstance(x, ast.AST) and isinstance(y, ast.AST) else x == y) for x, y in zip(xs, ys))

    @staticmethod
    def _unify_name(x, y, m, rm, flocals):
        if x in flocals:
            if m.setdefault(x, y) != y or rm.setdefault(y, x) != x:
                return False
            return True
        return x == y and y not in rm

    def _record_methods_to_functions(self):
        """New methods / properties added to the small record classes of a module (NamedTuple, dataclass) and used on
        arbitrary receivers (`chunk.size`, `file.grow(n)`, `state.begin_file(p)`) become module-level helpers taking the
        receiver as first argument, so that the ordinary helper expansion applies:  X.m(a) -> _rm_m(X, a) ; X.p -> _rm_p(X).
        Only for names that are new to the module (no inventory function, field or constant has them) and whose
        definitions agree between the classes that have them."""
        for rel, tree in self.trees.items():
            inv = self.inv.get(rel)
            if inv is None:
                continue
            known_last = {q.rsplit('.', 1)[-1] for q in inv['functions']} | {q.rsplit('.', 1)[-1] for q in inv['constants']}
            recs = []
            for c in tree.body:
                if not isinstance(c, ast.ClassDef):
                    continue
                is_rec = any((_dotted(b) or '').rsplit('.', 1)[-1] in ('NamedTuple', 'TypedDict') for b in c.bases) or any((_dotted(d.func if isinstance(d, ast.Call) else d) or '').rsplit('.', 1)[-1] == 'dataclass' for d in c.decorator_list)
                if is_rec:
                    recs.append(c)
            if not recs:
                continue
            fields = {st.target.id for c in recs for st in c.body if isinstance(st, ast.AnnAssign) and isinstance(st.target, ast.Name)}
            groups = {}
            for c in recs:
                for st in c.body:
                    if isinstance(st, ast.FunctionDef) and f'{c.name}.{st.name}' not in inv['functions'] and not (st.name.startswith('__') and st.name.endswith('__')):
                        groups.setdefault(st.name, []).append((c, st))
            for name, defs in groups.items():
                if name in known_last or name in fields:
                    continue
                kinds = set()
                for c, st in defs:
                    decs = [(_dotted(d) or '') for d in st.decorator_list]
                    if decs == ['property']:
                        kinds.add('property')
                    elif not decs:
                        kinds.add('method')
                    else:
                        kinds.add('other')
                if len(kinds) != 1 or 'other' in kinds:
                    continue
                kind = kinds.pop()
                a0 = defs[0][1].args
                if a0.vararg or a0.kwarg or not (a0.posonlyargs + a0.args):
                    continue

                def norm(st):
                    cp = copy.deepcopy(st)
                    cp.decorator_list = []
                    cp.returns = None
                    first = (cp.args.posonlyargs + cp.args.args)[0].arg
                    for a_ in cp.args.posonlyargs + cp.args.args + cp.args.kwonlyargs:
                        a_.annotation = None
                    if first != 'self':
                        cp.body = [_Subst({first: 'self'}, {}).visit(b) for b in cp.body]
                        (cp.args.posonlyargs + cp.args.args)[0].arg = 'self'
                    cp.body = [b for b in cp.body if not (isinstance(b, ast.Expr) and isinstance(b.value, ast.Constant) and isinstance(b.value.value, str))] or [ast.Pass()]
                    return cp

                normed = [norm(st) for _, st in defs]
                if len({ast.dump(n.args) + ''.join(ast.dump(b) for b in n.body) for n in normed}) != 1:
                    continue
                # uses
                class_nodes = {id(st) for _, st in defs}
                uses, bad = [], False
                parents = {}
                for n in ast.walk(tree):
                    for ch in ast.iter_child_nodes(n):
                        parents[id(ch)] = n
                for n in ast.walk(tree):
                    if isinstance(n, ast.Attribute) and n.attr == name:
                        if not isinstance(n.ctx, ast.Load):
                            bad = True
                            break
                        par = parents.get(id(n))
                        if kind == 'method' and not (isinstance(par, ast.Call) and par.func is n):
                            bad = True
                            break
                        uses.append((n, par))
                if bad or not uses:
                    continue
                fname = f'_rm_{name}'
                if any(isinstance(x, ast.Name) and x.id == fname for x in ast.walk(tree)):
                    continue
                fn = normed[0]
                fn.name = fname
                for c, st in defs:
                    c.body = [b for b in c.body if b is not st] or [ast.Pass()]
                for n, par in uses:
                    if kind == 'property':
                        new = ast.Call(func=ast.Name(id=fname, ctx=ast.Load()), args=[n.value], keywords=[])
                        self._replace_everywhere(tree, n, ast.copy_location(new, n))
                    else:
                        par.args = [n.value] + par.args
                        par.func = ast.copy_location(ast.Name(id=fname, ctx=ast.Load()), n)
                # put the helper right after the last record class
                idx = max(i for i, b in enumerate(tree.body) if any(b is c for c, _ in defs)) + 1
                tree.body.insert(idx, ast.copy_location(fn, defs[0][1]))
                ast.fix_missing_locations(tree)
                self.stats['idioms'] += 1
                self.log.append(f'record-class member {name} ({kind}) of {", ".join(c.name for c, _ in defs)} turned into the helper {fname}')

    def _new_record_fields_to_locals(self):
        """A field with a default that was ADDED to a record class (not in the inventory) and is only reached through the one
        instance a function creates (`state = _State()` ... `state.table[k]`) is that function's local again:
        `table = {}` next to the construction, `state.table` -> `table`."""
        for rel, tree in self.trees.items():
            inv = self.inv.get(rel)
            if inv is None:
                continue
            known = set(inv['constants'])
            newf = {}
            for c in tree.body:
                if not isinstance(c, ast.ClassDef) or c.name not in inv['classes']:
                    continue
                for st in c.body:
                    if isinstance(st, ast.AnnAssign) and isinstance(st.target, ast.Name) and st.value is not None and f'{c.name}.{st.target.id}' not in known:
                        v = st.value
                        init = None
                        if isinstance(v, ast.Call) and (_dotted(v.func) or '').rsplit('.', 1)[-1] == 'field':
                            df = next((k.value for k in v.keywords if k.arg == 'default_factory'), None)
                            dv = next((k.value for k in v.keywords if k.arg == 'default'), None)
                            if isinstance(df, ast.Name) and df.id in ('dict', 'list', 'set'):
                                init = {'dict': ast.Dict(keys=[], values=[]), 'list': ast.List(elts=[], ctx=ast.Load()), 'set': ast.Call(func=ast.Name(id='set', ctx=ast.Load()), args=[], keywords=[])}[df.id]
                            elif dv is not None and isinstance(dv, ast.Constant):
                                init = dv
                        elif isinstance(v, ast.Constant):
                            init = v
                        if init is not None:
                            newf.setdefault(c.name, {})[st.target.id] = (c, st, init)
            if not newf:
                continue
            for cname, fields in newf.items():
                # every use of `.field` in the module must be on such a local instance
                for fname, (c, st, init) in list(fields.items()):
                    uses = [n for n in ast.walk(tree) if isinstance(n, ast.Attribute) and n.attr == fname]
                    if not uses:
                        continue
                    funcs = [f for f in ast.walk(tree) if isinstance(f, FuncNode)]
                    done = True
                    plan = []
                    for u in uses:
                        if not (isinstance(u.value, ast.Name) and isinstance(u.ctx, ast.Load)):
                            done = False
                            break
                        # the outermost function that binds the receiver by `recv = Cls()` without field arguments
                        owner = None
                        for f in funcs:
                            if any(x is u for x in ast.walk(f)):
                                binds = [a for a in _local_walk(f) if isinstance(a, ast.Assign) and len(a.targets) == 1 and isinstance(a.targets[0], ast.Name) and a.targets[0].id == u.value.id]
                                if len(binds) == 1 and isinstance(binds[0].value, ast.Call) and isinstance(binds[0].value.func, ast.Name) and binds[0].value.func.id == cname and not any(k.arg == fname for k in binds[0].value.keywords) and not binds[0].value.args:
                                    owner = (f, binds[0])
                                    break
                        if owner is None:
                            done = False
                            break
                        plan.append((u, owner))
                    if not done or not plan:
                        continue
                    for f, bind in {id(o[0]): o for _, o in plan}.values():
                        names = {x.id for x in ast.walk(f) if isinstance(x, ast.Name)} | {a.arg for a in ast.walk(f) if isinstance(a, ast.arg)}
                        local = fname if fname not in names else self._fresh(fname, names)
                        for u, (f2, _b) in plan:
                            if f2 is f:
                                self._replace_everywhere(f, u, ast.copy_location(ast.Name(id=local, ctx=ast.Load()), u))
                        # insert the local right after the construction
                        for blk_owner in ast.walk(f):
                            for fld in ('body', 'orelse', 'finalbody'):
                                blk = getattr(blk_owner, fld, None)
                                if isinstance(blk, list) and any(b is bind for b in blk):
                                    i = next(k for k, b in enumerate(blk) if b is bind)
                                    blk.insert(i + 1, ast.copy_location(ast.Assign(targets=[ast.Name(id=local, ctx=ast.Store())], value=copy.deepcopy(init)), bind))
                    c.body = [b for b in c.body if b is not st] or [ast.Pass()]
                    ast.fix_missing_locations(tree)
                    self.stats['idioms'] += 1
                    self.log.append(f'new field {cname}.{fname} turned back into a local of the function that creates the instance')

    def _explode_parameter_objects(self):
        """"Introduce parameter object" undone: a NEW record class R (not in the inventory) whose instances are only built to
        be handed, as the single argument, to functions declared `def f(self, p: R)` that read nothing but `p.<field>`:
        f gets the fields as keyword-only parameters again and `g(src)` with `src = R(a=x, b=y)` becomes `g(a=x, b=y)`."""
        for rel, tree in self.trees.items():
            inv = self.inv.get(rel)
            if inv is None:
                continue
            for c in [c for c in tree.body if isinstance(c, ast.ClassDef) and c.name not in inv['classes']]:
                is_rec = any((_dotted(b) or '').rsplit('.', 1)[-1] == 'NamedTuple' for b in c.bases) or any((_dotted(d.func if isinstance(d, ast.Call) else d) or '').rsplit('.', 1)[-1] == 'dataclass' for d in c.decorator_list)
                if not is_rec or any(isinstance(b, FuncNode) for b in c.body):
                    continue
                fields = [st.target.id for st in c.body if isinstance(st, ast.AnnAssign) and isinstance(st.target, ast.Name)]
                if not fields or any(st.value is not None for st in c.body if isinstance(st, ast.AnnAssign)):
                    continue
                R = c.name
                takers = []
                ok = True
                for f in [f for f in ast.walk(tree) if isinstance(f, FuncNode)]:
                    a = f.args
                    ann = [p_ for p_ in a.posonlyargs + a.args + a.kwonlyargs if p_.annotation is not None and any(isinstance(x, ast.Name) and x.id == R for x in ast.walk(p_.annotation))]
                    if not ann:
                        continue
                    ps = [p_ for p_ in a.posonlyargs + a.args if p_.arg not in ('self', 'cls')]
                    if len(ann) != 1 or len(ps) != 1 or ps[0] is not ann[0] or a.kwonlyargs or a.vararg or a.kwarg or a.defaults:
                        ok = False
                        break
                    pn = ann[0].arg
                    parents = {}
                    for n in ast.walk(f):
                        for ch in ast.iter_child_nodes(n):
                            parents[id(ch)] = n
                    uses = [n for n in ast.walk(f) if isinstance(n, ast.Name) and n.id == pn]
                    if not all(isinstance(parents.get(id(u)), ast.Attribute) and parents[id(u)].attr in fields and isinstance(parents[id(u)].ctx, ast.Load) for u in uses):
                        ok = False
                        break
                    locals_ = {n.id for n in ast.walk(f) if isinstance(n, ast.Name) and n.id != pn} | {x.arg for x in ast.walk(f.args) if isinstance(x, ast.arg) and x.arg != pn}
                    if locals_ & set(fields):
                        ok = False
                        break
                    takers.append((f, pn, [parents[id(u)] for u in uses]))
                if not ok or not takers:
                    continue
                # constructions: `v = R(...)` with v used only as the single argument of calls
                cons = [n for n in ast.walk(tree) if isinstance(n, ast.Call) and isinstance(n.func, ast.Name) and n.func.id == R]
                other_refs = [n for n in ast.walk(tree) if isinstance(n, ast.Name) and n.id == R and not any(n is k.func for k in cons)]
                other_refs = [n for n in other_refs if not any(any(n is x for x in ast.walk(p_.annotation)) for f, _, _ in takers for p_ in f.args.posonlyargs + f.args.args if p_.annotation is not None)]
                if other_refs or not cons:
                    continue
                plan = []
                for k in cons:
                    if any(isinstance(x, ast.Starred) for x in k.args) or any(kw.arg is None for kw in k.keywords) or len(k.args) > len(fields):
                        ok = False
                        break
                    vals = dict(zip(fields, k.args))
                    vals.update({kw.arg: kw.value for kw in k.keywords})
                    if set(vals) != set(fields):
                        ok = False
                        break
                    host = next((f for f in ast.walk(tree) if isinstance(f, FuncNode) and any(k is x for x in _local_walk(f))), None)
                    if host is None:
                        ok = False
                        break
                    parents = {}
                    for n in ast.walk(host):
                        for ch in ast.iter_child_nodes(n):
                            parents[id(ch)] = n
                    par = parents.get(id(k))
                    if isinstance(par, ast.Call) and par.args == [k] and not par.keywords:
                        plan.append((par, vals, None, host))
                        continue
                    if not (isinstance(par, ast.Assign) and len(par.targets) == 1 and isinstance(par.targets[0], ast.Name)):
                        ok = False
                        break
                    v = par.targets[0].id
                    if sum(1 for n in ast.walk(host) if isinstance(n, ast.Name) and n.id == v and isinstance(n.ctx, ast.Store)) != 1:
                        ok = False
                        break
                    for u in [n for n in ast.walk(host) if isinstance(n, ast.Name) and n.id == v and isinstance(n.ctx, ast.Load)]:
                        up = parents.get(id(u))
                        if not (isinstance(up, ast.Call) and len(up.args) == 1 and up.args[0] is u and not up.keywords):
                            ok = False
                            break
                        plan.append((up, vals, par, host))
                    if not ok:
                        break
                    if not all(isinstance(x, (ast.Name, ast.Constant)) for x in vals.values()):
                        ok = False
                        break
                if not ok or not plan:
                    continue
                for call, vals, asg, host in plan:
                    call.args = []
                    call.keywords = [ast.keyword(arg=fl, value=copy.deepcopy(vals[fl])) for fl in fields]
                for asg, host in {id(a): (a, h) for _, _, a, h in plan if a is not None}.values():
                    for blk_owner in ast.walk(host):
                        for fld in ('body', 'orelse', 'finalbody'):
                            blk = getattr(blk_owner, fld, None)
                            if isinstance(blk, list) and any(b is asg for b in blk):
                                blk[:] = [b for b in blk if b is not asg] or [ast.Pass()]
                for f, pn, attrs in takers:
                    for at in attrs:
                        self._replace_everywhere(f, at, ast.copy_location(ast.Name(id=at.attr, ctx=ast.Load()), at))
                    a = f.args
                    keep = [p_ for p_ in a.posonlyargs + a.args if p_.arg in ('self', 'cls')]
                    a.posonlyargs, a.args = [], keep
                    a.kwonlyargs = [ast.arg(arg=fl, annotation=None) for fl in fields]
                    a.kw_defaults = [None for _ in fields]
                tree.body = [b for b in tree.body if b is not c]
                ast.fix_missing_locations(tree)
                self.stats['idioms'] += 1
                self.log.append(f'parameter object {R} exploded back into keyword-only parameters ({len(takers)} functions, {len(plan)} call sites)')

    def _new_class_to_closures(self):
        """"Extract class" undone: a NEW dataclass K (not in the inventory) that is instantiated at exactly one place,
        `x = K(..)` inside a function F, and used there only as `x.<field>` (read) and `x.<method>`: the fields are F's
        locals again (the constructor argument when that is a plain name, a new local otherwise) and the methods are nested
        functions of F that close over them - the form the code had before the shared state was moved into an object."""
        for rel, tree in self.trees.items():
            inv = self.inv.get(rel)
            if inv is None:
                continue
            for K in [c for c in tree.body if isinstance(c, ast.ClassDef) and c.name not in inv['classes']]:
                if not any((_dotted(d.func if isinstance(d, ast.Call) else d) or '').rsplit('.', 1)[-1] == 'dataclass' for d in K.decorator_list) or K.bases:
                    continue
                fields, ok = [], True
                methods = []
                for st in K.body:
                    if isinstance(st, ast.AnnAssign) and isinstance(st.target, ast.Name):
                        fields.append((st.target.id, st.value))
                    elif isinstance(st, ast.FunctionDef) and not st.decorator_list and not (st.name.startswith('__') and st.name.endswith('__')):
                        methods.append(st)
                    elif isinstance(st, ast.Expr) and isinstance(st.value, ast.Constant):
                        continue
                    elif isinstance(st, ast.Pass):
                        continue
                    else:
                        ok = False
                if not ok or not methods or not fields:
                    continue
                cons = [n for n in ast.walk(tree) if isinstance(n, ast.Call) and isinstance(n.func, ast.Name) and n.func.id == K.name]
                refs = [n for n in ast.walk(tree) if isinstance(n, ast.Name) and n.id == K.name]
                if len(cons) != 1 or len(refs) != 1:
                    continue
                con = cons[0]
                F = None
                for f in ast.walk(tree):
                    if isinstance(f, FuncNode) and any(con is x for x in _local_walk(f)):
                        F = f
                if F is None:
                    continue
                parents = {}
                for n in ast.walk(F):
                    for ch in ast.iter_child_nodes(n):
                        parents[id(ch)] = n
                asg = parents.get(id(con))
                if not (isinstance(asg, ast.Assign) and len(asg.targets) == 1 and isinstance(asg.targets[0], ast.Name)):
                    continue
                x = asg.targets[0].id
                if sum(1 for n in ast.walk(F) if isinstance(n, ast.Name) and n.id == x and isinstance(n.ctx, (ast.Store, ast.Del))) != 1:
                    continue
                fnames = [f_ for f_, _ in fields]
                mnames = [m.name for m in methods]
                uses = [n for n in ast.walk(F) if isinstance(n, ast.Name) and n.id == x and isinstance(n.ctx, ast.Load)]
                if not all(isinstance(parents.get(id(u)), ast.Attribute) and parents[id(u)].value is u and isinstance(parents[id(u)].ctx, ast.Load) and parents[id(u)].attr in fnames + mnames for u in uses):
                    continue
                # constructor arguments
                if any(isinstance(a, ast.Starred) for a in con.args) or any(k.arg is None for k in con.keywords) or len(con.args) > len(fnames):
                    continue
                vals = dict(zip(fnames, con.args))
                vals.update({k.arg: k.value for k in con.keywords})
                taken = {n.id for n in ast.walk(F) if isinstance(n, ast.Name)} | {a.arg for a in ast.walk(F) if isinstance(a, ast.arg)}
                alias, new_locals = {}, []
                for fname, default in fields:
                    v = vals.get(fname)
                    if v is None:
                        if isinstance(default, ast.Call) and (_dotted(default.func) or '').rsplit('.', 1)[-1] == 'field':
                            df = next((k.value for k in default.keywords if k.arg == 'default_factory'), None)
                            dv = next((k.value for k in default.keywords if k.arg == 'default'), None)
                            if df is not None:
                                v = {'dict': ast.Dict(keys=[], values=[]), 'list': ast.List(elts=[], ctx=ast.Load())}.get(df.id) if isinstance(df, ast.Name) and df.id in ('dict', 'list') else ast.Call(func=copy.deepcopy(df), args=[], keywords=[])
                            elif dv is not None:
                                v = copy.deepcopy(dv)
                        elif default is not None and isinstance(default, ast.Constant):
                            v = copy.deepcopy(default)
                    if v is None:
                        ok = False
                        break
                    if isinstance(v, ast.Name):
                        alias[fname] = v.id
                    else:
                        ln = fname if fname not in taken else self._fresh(fname, taken)
                        taken.add(ln)
                        alias[fname] = ln
                        new_locals.append(ast.Assign(targets=[ast.Name(id=ln, ctx=ast.Store())], value=copy.deepcopy(v)))
                if not ok:
                    continue
                # methods -> nested functions
                mlocal = {}
                for m in methods:
                    ln = m.name if m.name not in taken else self._fresh(m.name, taken)
                    taken.add(ln)
                    mlocal[m.name] = ln
                nested = []
                for m in methods:
                    a = m.args
                    if not (a.posonlyargs + a.args):
                        ok = False
                        break
                    sname = (a.posonlyargs + a.args)[0].arg
                    cp = copy.deepcopy(m)
                    if cp.args.posonlyargs:
                        cp.args.posonlyargs.pop(0)
                    else:
                        cp.args.args.pop(0)
                    mp = {}
                    for n in ast.walk(cp):
                        for ch in ast.iter_child_nodes(n):
                            mp[id(ch)] = n
                    params = {q.arg for q in ast.walk(cp.args) if isinstance(q, ast.arg)}
                    locs = {n.id for n in ast.walk(cp) if isinstance(n, ast.Name) and isinstance(n.ctx, ast.Store)} | params
                    if locs & (set(alias.values()) | set(mlocal.values())):
                        ok = False
                        break
                    for u in [n for n in ast.walk(cp) if isinstance(n, ast.Name) and n.id == sname]:
                        at = mp.get(id(u))
                        if not (isinstance(at, ast.Attribute) and at.value is u and at.attr in fnames + mnames and isinstance(at.ctx, ast.Load)):
                            ok = False
                            break
                        tgt = alias[at.attr] if at.attr in alias else mlocal[at.attr]
                        self._replace_everywhere(cp, at, ast.copy_location(ast.Name(id=tgt, ctx=ast.Load()), at))
                    if not ok:
                        break
                    cp.name = mlocal[m.name]
                    cp.returns = None
                    nested.append(cp)
                if not ok:
                    continue
                for u in uses:
                    at = parents[id(u)]
                    tgt = alias[at.attr] if at.attr in alias else mlocal[at.attr]
                    self._replace_everywhere(F, at, ast.copy_location(ast.Name(id=tgt, ctx=ast.Load()), at))
                done = False
                for owner in ast.walk(F):
                    for fld in ('body', 'orelse', 'finalbody'):
                        blk = getattr(owner, fld, None)
                        if isinstance(blk, list) and any(b is asg for b in blk):
                            i = next(k for k, b in enumerate(blk) if b is asg)
                            blk[i : i + 1] = [ast.copy_location(n_, asg) for n_ in new_locals] + [ast.copy_location(n_, asg) for n_ in nested]
                            done = True
                if not done:
                    continue
                tree.body = [b for b in tree.body if b is not K]
                ast.fix_missing_locations(tree)
                self.stats['idioms'] += 1
                self.log.append(f'new class {K.name} (one instance in {F.name}) turned back into locals and nested functions of {F.name}')

    def _expand_composed_decorators(self, tree):
        """`def deco(f): return A(B(f))` used as `@deco` is the decorator stack `@A` / `@B`."""
        composed = {}
        for st in tree.body:
            if not isinstance(st, ast.FunctionDef) or st.decorator_list:
                continue
            a = st.args
            if len(a.args) != 1 or a.vararg or a.kwarg or a.kwonlyargs or a.posonlyargs:
                continue
            body = [b for b in st.body if not (isinstance(b, ast.Expr) and isinstance(b.value, ast.Constant))]
            if len(body) != 1 or not isinstance(body[0], ast.Return) or body[0].value is None:
                continue
            chain, e = [], body[0].value
            while isinstance(e, ast.Call) and len(e.args) == 1 and not e.keywords and not any(isinstance(x, ast.Name) and x.id == a.args[0].arg for x in ast.walk(e.func)):
                chain.append(e.func)
                e = e.args[0]
            if len(chain) >= 2 and isinstance(e, ast.Name) and e.id == a.args[0].arg:
                composed[st.name] = (st, chain)
        if not composed:
            return
        used = set()
        for n in ast.walk(tree):
            if isinstance(n, (ast.FunctionDef, ast.AsyncFunctionDef, ast.ClassDef)):
                out = []
                for d in n.decorator_list:
                    if isinstance(d, ast.Name) and d.id in composed:
                        out += [copy.deepcopy(c) for c in composed[d.id][1]]
                        used.add(d.id)
                        self.log.append(f'decorator @{d.id} on {n.name} expanded into its stack')
                    else:
                        out.append(d)
                n.decorator_list = out
        for name in used:
            others = [x for x in ast.walk(tree) if isinstance(x, ast.Name) and x.id == name]
            if not others:
                tree.body = [b for b in tree.body if b is not composed[name][0]]
            self.stats['idioms'] += 1

    def run(self):
        for tree in self.trees.values():
            la = _LocalAnnAssign()
            la.visit(tree)
            self.stats['idioms'] += la.n
            li = _LoopIdioms()
            li.visit(tree)
            self.stats['idioms'] += li.n
            self._expand_composed_decorators(tree)
            ast.fix_missing_locations(tree)
        self._rehome_moved_definitions()
        self._flatten_new_bases()
        self._new_class_to_closures()
        self._record_methods_to_functions()
        self._new_record_fields_to_locals()
        self._explode_parameter_objects()
        self._positional_calls()
        self._reoutline()
        self._class_index()
        self._rehome_methods()
        self._index()
        self._match_renames()
        self._rename_params_back()
        self._constants()
        for rel in sorted(self.trees):
            for d in list(self.defs[rel]):
                self.expand(d)
        self._remove_dead()
        self._records_to_dicts()
        for tree in self.trees.values():
            yf = _YieldFromGenExp()
            yf.visit(tree)
            self.stats['idioms'] += yf.n
            ci = _CallIdioms()
            ci.visit(tree)
            self.stats['idioms'] += ci.n
            hi = _HandlerIsinstance()
            hi.visit(tree)
            self.stats['idioms'] += hi.n
            t = _NotCompare()
            t.visit(tree)
            _FoldFString().visit(tree)
            ai = _AttrIdioms()
            ai.visit(tree)
            self.stats['idioms'] += ai.n
            self.stats['idioms'] += t.n
            ast.fix_missing_locations(tree)
        return self.trees


def normalize(trees: Dict[str, ast.Module]):
    n = Normalizer(trees)
    n.run()
    return n
