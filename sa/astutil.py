"""Small AST helpers shared by the rules."""
from __future__ import annotations

import ast
from typing import Iterator, Optional

FuncNode = (ast.FunctionDef, ast.AsyncFunctionDef)
ScopeNode = (ast.FunctionDef, ast.AsyncFunctionDef, ast.Lambda, ast.ClassDef)


def dotted(node) -> Optional[str]:
    """'self.backend.upload' for Name/Attribute chains, else None."""
    parts = []
    while isinstance(node, ast.Attribute):
        parts.append(node.attr)
        node = node.value
    if isinstance(node, ast.Name):
        parts.append(node.id)
        return '.'.join(reversed(parts))
    return None


def walk_local(node) -> Iterator[ast.AST]:
    """Walk `node` without descending into nested function / class bodies
    (the nested def node itself is yielded; lambdas are descended: they run in
    place in this code base)."""
    stack = [node]
    first = True
    while stack:
        n = stack.pop()
        yield n
        if not first and isinstance(n, (ast.FunctionDef, ast.AsyncFunctionDef, ast.ClassDef)):
            continue
        first = False
        stack.extend(reversed(list(ast.iter_child_nodes(n))))


def walk_stmt_exprs(stmt) -> Iterator[ast.AST]:
    """Expressions evaluated *by this statement itself* (not by the statements
    nested in its body): for compound statements only the header."""
    if isinstance(stmt, (ast.If, ast.While)):
        roots = [stmt.test]
    elif isinstance(stmt, (ast.For, ast.AsyncFor)):
        roots = [stmt.iter, stmt.target]
    elif isinstance(stmt, (ast.With, ast.AsyncWith)):
        roots = [i for it in stmt.items for i in (it.context_expr, it.optional_vars) if i is not None]
    elif isinstance(stmt, ast.Try):
        roots = []
    elif isinstance(stmt, (ast.FunctionDef, ast.AsyncFunctionDef, ast.ClassDef)):
        roots = list(stmt.decorator_list)
    elif isinstance(stmt, ast.ExceptHandler):
        roots = [stmt.type] if stmt.type is not None else []
    else:
        roots = [stmt]
    for r in roots:
        for n in walk_local(r):
            yield n


def parent(node):
    return getattr(node, '_parent', None)


def ancestors(node) -> Iterator[ast.AST]:
    cur = parent(node)
    while cur is not None:
        yield cur
        cur = parent(cur)


def enclosing_stmt(node) -> Optional[ast.stmt]:
    cur = node
    while cur is not None and not isinstance(cur, (ast.stmt, ast.ExceptHandler)):
        cur = parent(cur)
    return cur


def enclosing_func(node):
    for a in ancestors(node):
        if isinstance(a, FuncNode):
            return a
    return None


def is_within(node, container) -> bool:
    if node is container:
        return True
    return any(a is container for a in ancestors(node))


def in_body(node, stmts) -> bool:
    return any(is_within(node, s) for s in stmts)


def calls_in(node, local=True):
    it = walk_local(node) if local else ast.walk(node)
    for n in it:
        if isinstance(n, ast.Call):
            yield n


def call_name(call: ast.Call) -> Optional[str]:
    return dotted(call.func)


def const_value(node, default=None):
    if isinstance(node, ast.Constant):
        return node.value
    return default


def kwarg(call: ast.Call, name):
    for k in call.keywords:
        if k.arg == name:
            return k.value
    return None


def names_in(node):
    return {n.id for n in ast.walk(node) if isinstance(n, ast.Name)}


def src(node, limit=120) -> str:
    try:
        s = ast.unparse(node)
    except Exception:  # pragma: no cover
        s = repr(node)
    s = ' '.join(s.split())
    return s if len(s) <= limit else s[: limit - 3] + '...'


def handler_catches(handler: ast.ExceptHandler):
    """Names of the exception classes a handler catches ([] for bare)."""
    t = handler.type
    if t is None:
        return []
    elts = t.elts if isinstance(t, ast.Tuple) else [t]
    return [dotted(e) or src(e) for e in elts]


def is_catch_all(handler: ast.ExceptHandler, accept_exception=True) -> bool:
    names = handler_catches(handler)
    if not names:
        return True
    for n in names:
        last = n.rsplit('.', 1)[-1]
        if last == 'BaseException' or (accept_exception and last == 'Exception'):
            return True
    return False


def body_always_raises(stmts) -> bool:
    """Every path through the statement list ends in raise (structural)."""
    for st in stmts:
        if isinstance(st, ast.Raise):
            return True
        if isinstance(st, ast.If):
            if st.orelse and body_always_raises(st.body) and body_always_raises(st.orelse):
                return True
        elif isinstance(st, ast.Try):
            fin = body_always_raises(st.finalbody) if st.finalbody else False
            if fin:
                return True
            main = body_always_raises(st.body + st.orelse) if st.orelse else body_always_raises(st.body)
            if main and all(body_always_raises(h.body) for h in st.handlers):
                return True
        elif isinstance(st, (ast.With, ast.AsyncWith)):
            if body_always_raises(st.body):
                return True
        elif isinstance(st, (ast.Return, ast.Continue, ast.Break)):
            return False
    return False


def handler_reraises(handler: ast.ExceptHandler) -> bool:
    return body_always_raises(handler.body)


def loc(module, node) -> str:
    return f'{module.rel}:{getattr(node, "lineno", 0)}'


def unique_def(fn_node, name):
    """the value expression of the only binding of `name` in the function (plain `name = expr`,
    also as walrus), or None when it is a parameter, bound several times or bound otherwise"""
    found = []
    for n in walk_local(fn_node):
        if isinstance(n, ast.Assign) and any(isinstance(t, ast.Name) and t.id == name for t in n.targets):
            found.append(n.value)
        elif isinstance(n, ast.AnnAssign) and isinstance(n.target, ast.Name) and n.target.id == name and n.value is not None:
            found.append(n.value)
        elif isinstance(n, ast.NamedExpr) and n.target.id == name:
            found.append(n.value)
        elif isinstance(n, ast.Name) and n.id == name and isinstance(n.ctx, (ast.Store, ast.Del)):
            p = parent(n)
            if not isinstance(p, (ast.Assign, ast.AnnAssign, ast.NamedExpr)):
                found.append(None)  # loop target, with-as, tuple unpacking, augmented ...
        elif isinstance(n, ast.AugAssign) and isinstance(n.target, ast.Name) and n.target.id == name:
            found.append(None)
    if isinstance(fn_node, FuncNode):
        a = fn_node.args
        if name in {x.arg for x in a.posonlyargs + a.args + a.kwonlyargs} or (a.vararg and a.vararg.arg == name) or (a.kwarg and a.kwarg.arg == name):
            return None
    if len(found) == 1 and found[0] is not None:
        return found[0]
    return None


def deref(fn_node, expr, depth=4):
    """follow single-assignment local names (and walrus expressions) to the expression they stand for"""
    for _ in range(depth):
        if isinstance(expr, ast.NamedExpr):
            expr = expr.value
            continue
        if isinstance(expr, ast.Name):
            v = unique_def(fn_node, expr.id)
            if v is None:
                return expr
            expr = v
            continue
        break
    return expr
