"""Type-checked AST of src/adapters.cpp through clang's JSON dump (a stub
pybind11 header stands in for the missing one).  Nothing is compiled or run."""
from __future__ import annotations

import json
import os
import subprocess
import tempfile
from typing import List, Optional

from .loader import AnalysisError

STUBS = os.path.join(os.path.dirname(os.path.abspath(__file__)), 'stubs')
CLANG = 'clang++'
STRIP = {'ImplicitCastExpr', 'ParenExpr', 'CStyleCastExpr', 'CXXStaticCastExpr', 'ExprWithCleanups', 'MaterializeTemporaryExpr', 'CXXFunctionalCastExpr', 'ConstantExpr'}


def dump(cpp_path: str, source: Optional[str] = None, filt='gclmulchunker') -> List[dict]:
    tmp = None
    try:
        if source is not None:
            tmp = tempfile.NamedTemporaryFile('w', suffix='.cpp', delete=False)
            tmp.write(source)
            tmp.close()
            cpp_path = tmp.name
        if not os.path.exists(cpp_path):
            raise AnalysisError(f'anchor file missing: {cpp_path}')
        with open(cpp_path, encoding='utf-8') as fh:
            _SRC['text'] = fh.read()
        cmd = [CLANG, '-std=c++17', '-mpclmul', '-msse2', '-msse4.1', '-fsyntax-only', '-Xclang', '-ast-dump=json', '-Xclang', f'-ast-dump-filter={filt}', '-I', STUBS, cpp_path]
        try:
            r = subprocess.run(cmd, capture_output=True, text=True, timeout=120)
        except FileNotFoundError:
            raise AnalysisError('clang++ not available')
        if r.returncode != 0:
            raise AnalysisError('clang rejects the translation unit (with the stub pybind11 header): ' + r.stderr.strip().splitlines()[0] if r.stderr.strip() else 'clang failed')
        s = r.stdout
    finally:
        if tmp is not None:
            os.unlink(tmp.name)
    dec = json.JSONDecoder()
    docs = []
    i = 0
    n = len(s)
    while i < n:
        j = s.find('\n{', i - 1 if i else 0)
        if s.startswith('{', i):
            start = i
        elif j >= 0:
            start = j + 1
        else:
            break
        d, end = dec.raw_decode(s, start)
        docs.append(d)
        i = end
    if not docs:
        raise AnalysisError('clang produced no AST for the chunker class')
    return docs


def strip(n):
    while n is not None and n.get('kind') in STRIP and n.get('inner'):
        n = n['inner'][-1] if n['kind'] == 'CStyleCastExpr' else n['inner'][0]
    return n


def walk(n):
    stack = [n]
    while stack:
        x = stack.pop()
        yield x
        stack.extend(reversed(x.get('inner', []) or []))


_SRC = {'text': None}


def _offset_of(n):
    for key in ('range', 'loc'):
        v = n.get(key)
        if not v:
            continue
        b = v.get('begin', v)
        for cand in (b, b.get('expansionLoc', {}), b.get('spellingLoc', {})):
            if 'offset' in cand:
                return cand['offset']
    return None


def line_of(n):
    off = _offset_of(n)
    if off is not None and _SRC['text'] is not None:
        return _SRC['text'].count('\n', 0, off) + 1
    for key in ('loc', 'range'):
        v = n.get(key)
        if not v:
            continue
        if 'line' in v:
            return v['line']
        b = v.get('begin', {})
        if 'line' in b:
            return b['line']
        if 'expansionLoc' in b and 'line' in b['expansionLoc']:
            return b['expansionLoc']['line']
    return 0


def expr(n) -> str:
    """Render an expression (casts stripped)."""
    n = strip(n)
    if n is None:
        return '?'
    k = n.get('kind')
    inner = n.get('inner', [])
    if k == 'IntegerLiteral':
        return str(n.get('value'))
    if k == 'DeclRefExpr':
        return n.get('referencedDecl', {}).get('name', '?')
    if k == 'MemberExpr':
        base = strip(inner[0]) if inner else None
        if base is not None and base.get('kind') == 'CXXThisExpr':
            return 'this.' + n.get('name', '?')
        return f'{expr(base)}.{n.get("name")}'
    if k == 'BinaryOperator' or k == 'CompoundAssignOperator':
        return f'({expr(inner[0])} {n.get("opcode")} {expr(inner[1])})'
    if k == 'UnaryOperator':
        return f'{n.get("opcode")}{expr(inner[0])}' if not n.get('isPostfix') else f'{expr(inner[0])}{n.get("opcode")}'
    if k == 'ArraySubscriptExpr':
        return f'{expr(inner[0])}[{expr(inner[1])}]'
    if k == 'CallExpr' or k == 'CXXMemberCallExpr':
        return f'{expr(inner[0])}(' + ', '.join(expr(a) for a in inner[1:]) + ')'
    if k == 'CXXThisExpr':
        return 'this'
    if k == 'CXXBoolLiteralExpr':
        return str(n.get('value')).lower()
    return k or '?'


def method(docs, name):
    for d in docs:
        if d.get('kind') == 'CXXMethodDecl' and d.get('name') == name and any(c.get('kind') == 'CompoundStmt' for c in d.get('inner', [])):
            return d
    raise AnalysisError(f'anchor C++ method missing: gclmulchunker::{name}')


def record(docs):
    for d in docs:
        if d.get('kind') == 'CXXRecordDecl':
            return d
    raise AnalysisError('anchor C++ class missing: gclmulchunker')


def body(m):
    for c in m.get('inner', []):
        if c.get('kind') == 'CompoundStmt':
            return c
    return None


def params(m):
    return [c.get('name') for c in m.get('inner', []) if c.get('kind') == 'ParmVarDecl']


def member_writes(m):
    """Assignments / increments whose target is a member of *this."""
    out = []
    for n in walk(m):
        k = n.get('kind')
        if k in ('BinaryOperator', 'CompoundAssignOperator') and n.get('opcode', '').endswith('=') and n.get('opcode') not in ('==', '!=', '<=', '>='):
            tgt = strip(n['inner'][0])
            if _is_member(tgt):
                out.append((n, expr(tgt)))
        elif k == 'UnaryOperator' and n.get('opcode') in ('++', '--'):
            tgt = strip(n['inner'][0])
            if _is_member(tgt):
                out.append((n, expr(tgt)))
    return out


def _is_member(n):
    while n is not None and n.get('kind') in ('ArraySubscriptExpr',):
        n = strip(n['inner'][0])
    if n is None or n.get('kind') != 'MemberExpr':
        return False
    base = strip(n['inner'][0]) if n.get('inner') else None
    return base is not None and base.get('kind') == 'CXXThisExpr'


def member_reads(m):
    out = set()
    for n in walk(m):
        if n.get('kind') == 'CXXMemberCallExpr':
            continue
        if n.get('kind') == 'MemberExpr' and _is_member(n) and 'bound member function' not in (n.get('type', {}) or {}).get('qualType', ''):
            out.add(n.get('name'))
    return sorted(out)
