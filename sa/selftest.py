"""Self-validation of the checkers (thorough tier): every rule is tested both ways
on in-memory variants of the CURRENT sources -

  * seeded breaks: one small edit that breaks one rule instance; the check must
    report a violation of the expected rule (a miss means the checker is blind
    -> ANALYSIS-ERROR, never a pass);
  * neutral transforms: behaviour-preserving rewrites (ast.unparse normal form,
    renaming of local identifiers); the check must stay silent with the same
    verdicts;
  * the independently produced seeded defects stored in /verif/seeded (applied
    to a scratch copy outside /repo and /verif, removed afterwards).

Nothing is executed: variants are analysed exactly like /repo."""
from __future__ import annotations

import ast
import json
import os
import shutil
import subprocess
import tempfile

from .loader import AnalysisError, Corpus
from .report import Ctx

R = 'replicat/repository.py'
A = 'replicat/utils/adapters.py'
U = 'replicat/utils/__init__.py'
L = 'replicat/backends/local.py'
S = 'replicat/backends/s3c.py'
B = 'replicat/backends/b2.py'
M = 'replicat/__main__.py'
CL = 'replicat/utils/cli.py'
CF = 'replicat/utils/config.py'
CPP = 'src/adapters.cpp'

# (variant id, file, old, new, expected rule prefix)
VARIANTS = {
    'C01': [
        ('serialize-non-ascii', 'replicat/repository.py', "        return bytes(string, 'ascii')", "        return bytes(string, 'utf-8', 'surrogateescape')", 'C01.R11'),
        ('finish-empty-by-truthy-path', 'replicat/repository.py', '            for file_path, digests in files_digests.items():\n                if not digests:', '            for file_path, digests in files_digests.items():\n                if not file_path:', 'C01.R9'),
        ('record-done-before-exists', 'replicat/repository.py', '                exists = await self._exists(chunk.location)', '                _chunk_done(chunk)\n                exists = await self._exists(chunk.location)', 'C01.R10'),
        ('dedup-dropped', R, 'return list(dict.fromkeys(flattened))', 'return list(flattened)', 'C01.R1'),
        ('counter-not-advanced', R, '                            state.bytes_with_padding += padding_length\n', '', 'C01.R2'),
        ('sort-by-index', R, "key=lambda x: x['counter'])", "key=lambda x: x['index'])", 'C01.R3'),
        ('ref-field-renamed', R, "                        'counter': chunk.counter,", "                        'order': chunk.counter,", 'C01.R4'),
        ('consult-existing-size', R, "            file.seek(offset)\n            file.write(data)", "            file.truncate(max(os.path.getsize(path), offset + len(data)))\n            file.seek(offset)\n            file.write(data)", 'C01.R5'),
        ('no-presizing', R, "                with restore_path.open('wb') as file:\n                    file.truncate(files_sizes[file_path])", "                restore_path.touch()", 'C01.R5'),
        ('write-outside-target', R, "        with path.open('r+b') as file:", "        Path('/tmp', path.name).write_bytes(data)\n        with path.open('r+b') as file:", 'C01.R6'),
        ('no-finalisation-loop', R, "        for _, file in state.files:\n            if file.path not in snapshot_files:", "        for _, file in []:\n            if file.path not in snapshot_files:", 'C01.R7'),
        ('early-clear', R, "            for future in concurrent.futures.as_completed(writer_futures):\n                future.result()\n", "", 'C01.R8'),
    ],
    'C02': [
        ('upload-other-payload', 'replicat/repository.py', '                chunk = _SnapshotChunk(\n                    contents=encrypted_contents,', '                chunk = _SnapshotChunk(\n                    contents=bytes(len(encrypted_contents)),', 'C02.R7'),
        ('chunks-deleted-first', 'replicat/repository.py', '        with finished_snapshots_tracker:\n            await asyncio.gather(*map(_delete_snapshot, snapshots_locations))\n', '        with finished_snapshots_tracker:\n            asyncio.ensure_future(asyncio.gather(*map(_delete_snapshot, snapshots_locations)))\n', 'C02.R9'),
        ('skip-before-keep', R, "            else:\n                chunks_to_keep.update(body['chunks'])", "            elif body['data'] is not None:\n                chunks_to_keep.update(body['chunks'])", 'C02.R1'),
        ('clean-with-filter', R, "y async for _, x in self._load_snapshots() for y in x['chunks']", "y async for _, x in self._load_snapshots(snapshot_regex='^') for y in x['chunks']", 'C02.R2'),
        ('loader-swallows', R, "            return self._download_snapshot_threadsafe(path, digest, loop=loop)", "            try:\n                return self._download_snapshot_threadsafe(path, digest, loop=loop)\n            except exceptions.ReplicatError:\n                return None", 'C02.R3'),
        ('subtract-too-late', R, "        chunks_to_delete.difference_update(chunks_to_keep)\n", "", 'C02.R4'),
        ('handmade-location', R, "location=self._chunk_digest_to_location(digest),", "location='data/' + digest.hex(),", 'C02.R5'),
        ('table-shrinks', R, "                    logger.info('Added digest %s to the table (I=%d)', digest, index)", "                    chunks_table.pop(digest, None)", 'C02.R6'),
        ('memo-exists', R, "                exists = await self._exists(chunk.location)", "                exists = chunk.location in getattr(self, '_seen', ()) or await self._exists(chunk.location)", 'C02.R8'),
    ],
    'C03': [
        ('b2-exists-403-is-false', 'replicat/backends/b2.py', '            if e.response.status_code == httpx.codes.NOT_FOUND:\n                return False\n            raise\n        else:\n            return True', '            if e.response.status_code in (httpx.codes.NOT_FOUND, httpx.codes.FORBIDDEN):\n                return False\n            raise\n        else:\n            return True', 'C03.R6'),
        ('handler-forgets-raise', R, "            except:\n                abort.set()\n                raise\n            finally:", "            except:\n                abort.set()\n            finally:", 'C03.R1'),
        ('producer-not-awaited', R, "            finally:\n                await chunk_producer\n", "            finally:\n                pass\n", 'C03.R1'),
        ('merged-deletes', R, "            await asyncio.gather(*map(_delete_snapshot, snapshots_locations))", "            await asyncio.gather(*map(_delete_snapshot, snapshots_locations), *map(_delete_chunk, chunks_to_delete))", 'C03.R2'),
        ('return-exceptions', R, "await asyncio.gather(*map(_delete_snapshot, snapshots_locations))", "await asyncio.gather(*map(_delete_snapshot, snapshots_locations), return_exceptions=True)", 'C03.R3'),
        ('direct-write', L, "            temp.write_bytes(data)", "            destination.write_bytes(data)", 'C03.R4'),
        ('replace-inside-with', L, "                shutil.copyfileobj(stream, file, length=chunk_size)\n            temp.replace(destination)", "                shutil.copyfileobj(stream, file, length=chunk_size)\n                temp.replace(destination)", 'C03.R4'),
        ('suffix-one-side', L, "suffix='.tmp',", "suffix='.part',", 'C03.R5'),
    ],
    'C04': [
        ('verify-only-encrypted', R, "            if self.props.hash_digest(decrypted_contents) != digest:\n                raise exceptions.ReplicatError(f'Chunk at {location!r} is corrupted')", "            if self.props.encrypted and self.props.hash_digest(decrypted_contents) != digest:\n                raise exceptions.ReplicatError(f'Chunk at {location!r} is corrupted')", 'C04.R1'),
        ('write-unverified-buffer', R, "decrypted_view = memoryview(decrypted_contents)", "decrypted_view = memoryview(contents)", 'C04.R1'),
        ('snapshot-compare-dropped', R, "            if self.props.hash_digest(contents) != expected_digest:\n                raise exceptions.ReplicatError(f'Snapshot at {path!r} is corrupted')\n", "", 'C04.R2'),
        ('registered-handler-widened', R, "            except exceptions.DecryptionError:\n                body['data'] = None", "            except Exception:\n                body['data'] = None", 'C04.R3'),
        ('result-dropped', R, "            for future in concurrent.futures.as_completed(writer_futures):\n                future.result()\n", "", 'C04.R4'),
    ],
    'C05': [
        ('log-to-stdout', 'replicat/__main__.py', '    logging.basicConfig(level=level)', '    logging.basicConfig(level=level, stream=sys.stdout)', 'C05.R4'),
        ('plaintext-chunk', R, "                    encrypted_contents = self.props.encrypt(\n                        output_chunk, self.props.derive_shared_subkey(digest)\n                    )", "                    encrypted_contents = output_chunk", 'C05.R1'),
        ('plain-name', R, "            digest_mac = self.props.mac(digest)\n            digest_mac_mac = self.props.mac(digest_mac)", "            digest_mac = digest\n            digest_mac_mac = self.props.mac(digest_mac)", 'C05.R1'),
        ('nonce-from-data', A, "        nonce = os.urandom(self._nonce_bytes)", "        nonce = hashlib.sha256(data).digest()[: self._nonce_bytes]", 'C05.R2'),
        ('data-under-shared-key', R, "                self.serialize(snapshot_body['data']), self.props.userkey\n            )", "                self.serialize(snapshot_body['data']), self.props.derive_shared_subkey(b'')\n            )", 'C05.R3'),
    ],
    'C06': [
        ('decoded-body-memoised', 'replicat/repository.py', '    def _decrypt_snapshot_body(self, contents):', '    @functools.lru_cache(maxsize=None)\n    def _decrypt_snapshot_body(self, contents):', 'C06.R6'),
        ('unlock-precondition-dropped', R, "            if password is None or key is None:\n                raise exceptions.ReplicatError(\n                    'Both password and key are needed to unlock this repository'\n                )\n", "", 'C06.R1'),
        ('refusal-dropped', R, "                if (snapshot_data := body['data']) is None:\n                    raise exceptions.ReplicatError(\n                        f'Cannot delete snapshot {name} (different key)'\n                    )\n", "                snapshot_data = body['data']\n", 'C06.R2'),
        ('restore-unfiltered', R, "snapshots = [x async for _, x in snapshots_gen if x['data'] is not None]", "snapshots = [x async for _, x in snapshots_gen]", 'C06.R3'),
        ('clean-tag-dropped', R, "                if self.props.mac(bytes.fromhex(name)) != bytes.fromhex(tag):\n                    logger.info('Tag for %s did not match, skipping', location)\n                    continue\n", "", 'C06.R4'),
        ('always-shared', R, "        else:\n            private = None\n            if self._unlocked:", "        else:\n            private = self.props.private if self._unlocked else None\n            if self._unlocked:", 'C06.R5'),
    ],
    'C07': [
        ('salted-name', R, "            f'{tag[4:]}-{name}',\n        )", "            f'{tag[4:]}-{name}-{time.strftime(\"%Y\")}',\n        )", 'C07.R1'),
        ('params-always-none', R, "        params = self.private['chunker_params'] if self.encrypted else None", "        params = None", 'C07.R2'),
        ('upload-unconditionally', R, "                if exists:\n                    _chunk_done(chunk)\n                    state.bytes_reused += chunk.stream_end - chunk.stream_start\n                else:", "                if False:\n                    pass\n                else:", 'C07.R3'),
        ('insert-without-lookup', R, "                try:\n                    index = chunks_table[digest]\n                except KeyError:\n                    index = chunks_table[digest] = len(chunks_table)", "                if True:\n                    index = chunks_table[digest] = len(chunks_table)", 'C07.R4'),
        ('sort-not-total', R, "files.sort(key=lambda file: (file.stat().st_size, str(file)))", "files.sort(key=lambda file: file.stat().st_size)", 'C07.R5'),
    ],
    'C08': [
        ('batch-limit', R, "            await asyncio.gather(*map(_delete_chunk, to_delete))", "            await asyncio.gather(*map(_delete_chunk, list(to_delete)[:1000]))", 'C08.R4'),
        ('tag-on-hex-string', R, "self.props.mac(bytes.fromhex(name)) != bytes.fromhex(tag):\n                    logger.info('Tag for %s did not match", "self.props.mac(name.encode()) != bytes.fromhex(tag):\n                    logger.info('Tag for %s did not match", 'C08.R3'),
        ('prefix-stripped', R, "self._aiter(self.backend.list_files, self.CHUNK_PREFIX)", "self._aiter(self.backend.list_files, self.CHUNK_PREFIX.rstrip('/'))", 'C08.R1'),
        ('referenced-test-dropped', R, "            if location in referenced_locations:\n                logger.info('Chunk %s is referenced, skipping', location)\n                continue\n", "", 'C08.R2'),
        ('delete-swallowed', R, "            logger.info('Deleting %s', location)\n            return await self._maybe_run_in_executor(\n                self.backend.delete, location, executor=executor\n            )", "            logger.info('Deleting %s', location)\n            try:\n                return await self._maybe_run_in_executor(\n                    self.backend.delete, location, executor=executor\n                )\n            except Exception:\n                logger.warning('delete failed')", 'C08.R5'),
    ],
    'C09': [
        ('digest-cleared-before-results', 'replicat/repository.py', '            for future in concurrent.futures.as_completed(writer_futures):\n                future.result()\n\n            for file_path in referenced_paths:', '            for file_path in []:\n                pass\n\n            for file_path in referenced_paths:', 'C09.R7'),
        ('exists-without-slot', R, "                exists = await self._exists(chunk.location)", "                exists = await self._maybe_run_in_executor(self.backend.exists, chunk.location)", 'C09.R1'),
        ('release-not-in-finally', R, "        slot = await self._slots.get()\n        try:\n            yield slot\n        finally:\n            self._slots.put_nowait(slot)", "        slot = await self._slots.get()\n        yield slot\n        self._slots.put_nowait(slot)", 'C09.R2'),
        ('nested-acquisition', R, "                    async with self._acquire_slot() as slot:\n                        length = len(chunk.contents)", "                    async with self._acquire_slot() as slot:\n                        await self._exists(chunk.location)\n                        length = len(chunk.contents)", 'C09.R3'),
        ('threadsafe-from-loop', R, "        props = self._parse_config(await self._download('config'))\n\n        if props.encrypted:\n            self.display_status('Unlocking repository')", "        props = self._parse_config(self._download_threadsafe('config', loop=asyncio.get_running_loop()))\n\n        if props.encrypted:\n            self.display_status('Unlocking repository')", 'C09.R4'),
        ('abort-not-set', R, "            except:\n                abort.set()\n                raise", "            except:\n                raise", 'C09.R5'),
        ('blocking-put', R, "                        chunk_queue.put(chunk, timeout=queue_timeout)", "                        chunk_queue.put(chunk)", 'C09.R5'),
        ('decision-outside-lock', R, "                    finished = not digests\n                    if finished:\n                        restore_path, metadata = files_metadata.pop(file_path)\n\n                if finished:", "                    pass\n\n                if not digests:\n                    with glock:\n                        restore_path, metadata = files_metadata.pop(file_path)\n                if not digests:", 'C09.R6'),
        ('refcount-outside-lock', R, "                bytes_tracker.update(chunk_size)\n                flocks_refcounts[restore_to] -= 1", "                bytes_tracker.update(chunk_size)\n            flocks_refcounts[restore_to] -= 1\n            with glock:", 'C09.R6'),
        ('extra-token', R, "for slot in range(2, concurrent + 2):", "for slot in range(2, concurrent + 3):", 'C09.R8'),
    ],
    'C10': [
        ('zero-cut-emitted', 'replicat/utils/adapters.py', '                if not pos:\n                    break\n', '                if pos is None:\n                    break\n', 'C10.R5'),
        ('delete-other-prefix', A, "                del buffer[:pos]", "                del buffer[: pos - 1]", 'C10.R4'),
        ('state-on-self', A, "        buffer = bytearray()\n        it = iter(chunk_iterator)", "        buffer = self._carry = getattr(self, '_carry', bytearray())\n        it = iter(chunk_iterator)", 'C10.R3'),
        ('final-by-truthiness', A, "bool(next_chunk is None)", "not next_chunk", 'C10.R4'),
        ('cpp-member-write', CPP, "    if (max_index < min_length)\n        max_index = (min_length + 3) & -4;", "    if (max_index < min_length)\n        max_index = (min_length + 3) & -4;\n    max_length = max_index;", 'C10.R2'),
        ('cpp-load-forward', CPP, "_mm_loadu_si64(&buffer[offset - 4])", "_mm_loadu_si64(&buffer[offset - 8])", 'C10.R1'),
    ],
    'C11': [
        ('padding-removed-mod', R, "-(prev_file.stream_end - prev_file.stream_start) % alignment", "-(prev_file.stream_end - prev_file.stream_start) % 8", 'C11.R2'),
        ('alignment-two', A, "    alignment = 4\n", "    alignment = 2\n", 'C11.R2'),
        ('key-ignored', A, "self.min_length, self.max_length, params\n        )", "self.min_length, self.max_length, b'\\xFF' * 16\n        )", 'C11.R3'),
        ('cpp-position-state', CPP, "    uint64_t max_value = 0;", "    uint64_t max_value = 0;\n    min_length = min_length + 0;", 'C11.R1'),
    ],
    'C12': [
        ('stale-bucket-kept', 'replicat/backends/b2.py', '                    self._bucket = utils.DefaultNamespace(\n                        id=bucket_id, name=bucket_name\n                    )\n                    return self._bucket', '                    self._cached_bucket = self._bucket = utils.DefaultNamespace(\n                        id=bucket_id, name=bucket_name\n                    )\n                    return self._cached_bucket', None),
        ('undecorated-exists', L, "    @backoff_on_oserror\n    def exists(self, name):", "    def exists(self, name):", 'C12.R1'),
        ('max-tries-removed', S, "    max_tries=4,\n    giveup=_check_403,\n)", "    giveup=_check_403,\n)", 'C12.R1'),
        ('narrow-handler', B, "                content=utils.aiter_chunks(stream, chunk_size=chunk_size),\n            )\n        except:", "                content=utils.aiter_chunks(stream, chunk_size=chunk_size),\n            )\n        except httpx.HTTPError:", 'C12.R2'),
        ('no-rewind', L, "            with file:\n                shutil.copyfileobj(file, stream, length=chunk_size)\n        except:\n            stream.seek(0)\n            raise", "            with file:\n                shutil.copyfileobj(file, stream, length=chunk_size)\n        except:\n            raise", 'C12.R2'),
        ('truncate-not-forwarded', U, "        new_size = self._stream.truncate(size)", "        new_size = self._stream.truncate()", 'C12.R3'),
        ('decorators-swapped', B, "    @utils.requires_auth\n    @backoff_reauth\n    async def delete(self, name):", "    @backoff_reauth\n    @utils.requires_auth\n    async def delete(self, name):", 'C12.R4'),
    ],
    'C13': [
        ('tmp-listed', 'replicat/backends/local.py', "                    if path.endswith('.tmp'):\n                        continue\n", "                    if path.endswith('.temp'):\n                        continue\n", 'C13.R6'),
        ('b2-exists-true-on-error', 'replicat/backends/b2.py', '            if e.response.status_code == httpx.codes.NOT_FOUND:\n                return False\n            raise\n        else:\n            return True', '            if e.response.status_code == httpx.codes.NOT_FOUND:\n                return False\n            return True\n        else:\n            return True', 'C13.R7'),
        ('token-never-assigned', S, "                elif tag == 'NextContinuationToken':\n                    continuation_token = element.text\n", "", 'C13.R2'),
        ('b2-break-on-empty', B, "            if decoded['nextFileName'] is None:\n                break", "            if not decoded['files']:\n                break", 'C13.R2'),
        ('prefix-first-page-only', S, "        if prefix:\n            query['prefix'] = prefix", "        if prefix and continuation_token is None:\n            query['prefix'] = prefix", 'C13.R3'),
        ('unlink-not-idempotent', L, "(self.path / name).unlink(missing_ok=True)", "(self.path / name).unlink()", 'C13.R4'),
        ('b2-unquoted-url', B, "url = f'{self._auth.downloadUrl}/file/{bucket.name}/{quote(name)}'\n        headers = {'authorization': self._auth.authorizationToken}\n        response = await self._client.get(url, headers=headers)", "url = f'{self._auth.downloadUrl}/file/{bucket.name}/{name}'\n        headers = {'authorization': self._auth.authorizationToken}\n        response = await self._client.get(url, headers=headers)", 'C13.R5'),
        ('signature-deviates', L, "    def download_stream(self, name, stream, chunk_size=DEFAULT_STREAM_CHUNK_SIZE):", "    def download_stream(self, name, chunk_size, stream=None):", 'C13.R1'),
    ],
    'C14': [
        ('local-time-stamp', 'replicat/repository.py', '        now = datetime.utcnow()', '        now = datetime.now()', 'C14.R8'),
        ('nonce-split-mismatch', 'replicat/utils/adapters.py', '        nonce, ciphertext = data[: self._nonce_bytes], data[self._nonce_bytes :]', '        nonce, ciphertext = data[:12], data[12:]', 'C14.R7'),
        ('upgrade-on-read', 'replicat/repository.py', "            else:\n                body['data'] = self.deserialize(data)\n\n        return body", "            else:\n                body['data'] = self.deserialize(data)\n                body['data']['utc_timestamp'] = body['data']['utc_timestamp'][:19]\n\n        return body", 'C14.R6'),
        ('default-separators', R, "            object, separators=(',', ':'), default=self.default_serialization_hook", "            object, default=self.default_serialization_hook", 'C14.R3'),
        ('legacy-fallback-removed', R, "        try:\n            ns = (metadata['st_atime_ns'], metadata['st_mtime_ns'])\n        except KeyError:\n            os.utime(path, times=(metadata['st_atime'], metadata['st_mtime']))\n        else:\n            os.utime(path, ns=ns)", "        ns = (metadata['st_atime_ns'], metadata['st_mtime_ns'])\n        os.utime(path, ns=ns)", 'C14.R4'),
        ('table-under-userkey', R, "                    self.props.derive_shared_subkey(\n                        self.props.hash_digest(encrypted_private_data)\n                    ),\n                ),\n                'data': encrypted_private_data,", "                    self.props.userkey,\n                ),\n                'data': encrypted_private_data,", 'C14.R1'),
        ('tag-layout', R, "        return posixpath.join(self.SNAPSHOT_PREFIX, tag[:2], f'{tag[2:]}-{name}')", "        return posixpath.join(self.SNAPSHOT_PREFIX, tag[:3], f'{tag[3:]}-{name}')", 'C14.R1'),
        ('extra-key-field', R, "            'kdf_params': user_kdf.generate_derivation_params(),\n            'private': private,\n        }", "            'kdf_params': user_kdf.generate_derivation_params(),\n            'private': private,\n            'version': 2,\n        }", 'C14.R2'),
        ('b64-urlsafe', U, "str(base64.standard_b64encode(object), 'ascii')", "str(base64.urlsafe_b64encode(object), 'ascii')", 'C14.R3'),
    ],
    'C15': [
        ('name-truncated', R, "    def _format_snapshot_name(self, *, path, chunks, data):\n        return self.parse_snapshot_location(path).name", "    def _format_snapshot_name(self, *, path, chunks, data):\n        return self.parse_snapshot_location(path).name[:16]", 'C15.R1'),
        ('oldest-first', R, "snapshots.sort(key=lambda x: x['data']['utc_timestamp'], reverse=True)", "snapshots.sort(key=lambda x: x['data']['utc_timestamp'])", 'C15.R2'),
        ('match-not-search', R, "if file_re is not None and file_re.search(file_path) is None:", "if file_re is not None and file_re.match(file_path) is None:", 'C15.R3'),
        ('refusal-after-delete', R, "        if remaining_names:\n            raise exceptions.ReplicatError(\n                f'Snapshots {\", \".join(remaining_names)} are not available'\n            )\n", "", 'C15.R4'),
        ('size-from-index', R, "        ranges_it = (cd['range'] for cd in file_data['chunks'])\n        return utils.bytes_to_human(sum(r[1] - r[0] for r in ranges_it))", "        ranges_it = (cd['range'] for cd in file_data['chunks'])\n        return utils.bytes_to_human(sum(r[1] for r in ranges_it))", 'C15.R5'),
    ],
    'C16': [
        ('second-clock-reading', S, "        date = f'{now:%Y%m%d}'", "        date = f'{datetime.utcnow():%Y%m%d}'", 'C16.R1'),
        ('url-unquoted', S, "        url = self.url + encoded_canonical_uri", "        url = self.url + canonical_uri", 'C16.R1'),
        ('stream-empty-digest', S, "                content=utils.aiter_chunks(stream, chunk_size=chunk_size),\n                payload_digest=payload_digest,", "                content=utils.aiter_chunks(stream, chunk_size=chunk_size),\n                payload_digest=_empty_payload_digest,", 'C16.R2'),
        ('region-service-swapped', S, "    date_region_key = _hmac_sha256_digest(date_key, region.encode())\n    date_region_service_key = _hmac_sha256_digest(date_region_key, service.encode())", "    date_region_key = _hmac_sha256_digest(date_key, service.encode())\n    date_region_service_key = _hmac_sha256_digest(date_region_key, region.encode())", 'C16.R3'),
        ('quote-plus', S, "urlencode(sorted(query.items()), quote_via=quote)", "urlencode(sorted(query.items()))", 'C16.R4'),
    ],
    'C17': [
        ('upload-before-key', R, "        props = RepositoryProps(**self._instantiate_config(config))\n\n        if props.encrypted:\n            self.display_status('Generating new key')", "        props = RepositoryProps(**self._instantiate_config(config))\n        await self._upload_data('config', self.serialize(config))\n\n        if props.encrypted:\n            self.display_status('Generating new key')", 'C17.R1'),
        ('blake2b-unchecked', A, "        if (\n            not isinstance(length, int)\n            or not 1 <= length <= hashlib.blake2b.MAX_DIGEST_SIZE\n        ):\n            raise ValueError('Invalid digest size')\n", "", 'C17.R2'),
        ('role-unchecked', R, "        self._check_adapter_role(hasher_type, adapters.HashAdapter, 'hashing')\n", "", 'C17.R2'),
        ('bind-partial', A, "        bound_args = signature.bind(**kwargs)", "        bound_args = signature.bind_partial(**kwargs)", 'C17.R3'),
        ('key-under-callers-key', R, "            self.serialize(key['private']),\n            key_props['userkey'],", "            self.serialize(key['private']),\n            props.userkey,", 'C17.R5'),
        ('kdf-truncates', A, "            context, salt=params, digest_size=self.digest_size, key=key_material\n        ).digest()", "            context, salt=params, digest_size=self.digest_size, key=key_material[:64]\n        ).digest()", 'C17.R6'),
    ],
    'C18': [
        ('loaded-result-dropped-when-falsy', 'replicat/repository.py', '            if (body := await task) is None:\n                continue', '            if not (body := await task):\n                continue', 'C18.R6'),
        ('cache-unverified', R, "                if self.props.hash_digest(contents) != expected_digest:\n                    logger.info('Cached copy of %s is damaged, discarding it', path)\n                    self._delete_cached(path)\n                    contents = None", "                pass", 'C18.R1'),
        ('store-before-compare', R, "            contents = self._download_threadsafe(path, loop=loop)\n", "            contents = self._download_threadsafe(path, loop=loop)\n            if self._cache_directory is not None:\n                self._store_cached(path, contents)\n", 'C18.R2'),
        ('delete-cached-unguarded', R, "            await self._delete(location)\n            if self._cache_directory is not None:\n                self._delete_cached(location)\n            finished_snapshots_tracker.update()", "            await self._delete(location)\n            self._delete_cached(location)\n            finished_snapshots_tracker.update()", 'C18.R4'),
        ('exclusive-store', R, "        file.write_bytes(data)", "        with file.open('xb') as f:\n            f.write(data)", 'C18.R5'),
    ],
    'C19': [
        ('env-before-file', M, "    cfg.apply_env()\n\n    # Fall back on log level", "    # Fall back on log level", None),
        ('no-defaults-on-clean', CL, "    clean_parser = subparsers.add_parser('clean', parents=parent_parsers)\n    clean_parser.set_defaults(**defaults)", "    clean_parser = subparsers.add_parser('clean', parents=parent_parsers)", 'C19.R2'),
        ('defaults-win', CF, "                defaults.update(sections[profile])", "                defaults = dict(sections[profile], **defaults)", 'C19.R3'),
        ('concurrent-int', CL, "    type=_natural_number,\n    help='The number of concurrent connections", "    type=int,\n    help='The number of concurrent connections", 'C19.R4'),
        ('env-only-if-unset', CF, "        try:\n            self.password = _get_environb('REPLICAT_PASSWORD')", "        if self.password is not None:\n            return\n        try:\n            self.password = _get_environb('REPLICAT_PASSWORD')", 'C19.R4'),
        ('password-not-exclusive', CL, "password_options = common_options_parser.add_mutually_exclusive_group()", "password_options = common_options_parser.add_argument_group()", 'C19.R5'),
    ],
    'C20': [
        ('restore-unlimited', R, "            if rate_limiter is not None:\n                limited_wrapper = rate_limiter.wrap(stream)\n            else:\n                limited_wrapper = stream\n\n            with self._acquire_slot_threadsafe(loop=loop) as slot:", "            limited_wrapper = stream\n\n            with self._acquire_slot_threadsafe(loop=loop) as slot:", 'C20.R1'),
        ('limiter-per-chunk', R, "                        if rate_limiter is not None:\n                            limited_wrapper = rate_limiter.wrap(stream)\n                        else:\n                            limited_wrapper = stream\n\n                        tqdm_wrapper = utils.TQDMIOReader(\n                            limited_wrapper,\n                            desc=f'Chunk", "                        if rate_limiter is not None:\n                            limited_wrapper = utils.RateLimitedIO(rate_limit).wrap(stream)\n                        else:\n                            limited_wrapper = stream\n\n                        tqdm_wrapper = utils.TQDMIOReader(\n                            limited_wrapper,\n                            desc=f'Chunk", 'C20.R2'),
        ('default-chunk-size', R, "            rate_limiter = utils.RateLimitedIO(rate_limit)\n            upload_chunk_size = max(rate_limit // (self._concurrent * 16), 1)\n        else:\n            rate_limiter = None\n            upload_chunk_size = DEFAULT_STREAM_CHUNK_SIZE\n\n        async def _upload_file(path):", "            rate_limiter = utils.RateLimitedIO(rate_limit)\n            upload_chunk_size = DEFAULT_STREAM_CHUNK_SIZE\n        else:\n            rate_limiter = None\n            upload_chunk_size = DEFAULT_STREAM_CHUNK_SIZE\n\n        async def _upload_file(path):", 'C20.R3'),
        ('debt-outside-lock', U, "    def pause_reads(self, seconds):\n        with self._read_lock:\n            self._read_sleep_amortised += seconds", "    def pause_reads(self, seconds):\n        self._read_sleep_amortised += seconds\n        with self._read_lock:\n            pass", 'C20.R4'),
        ('helpful-slice', U, "        self._rate_limiter.pause_reads(max(expected_elapsed - real_elapsed, 0))\n        return data", "        self._rate_limiter.pause_reads(max(expected_elapsed - real_elapsed, 0))\n        return data[:size]", 'C20.R5'),
    ],
}
VARIANTS['C19'][0] = ('env-before-file', M, "            remaining_file_options = cfg.apply_known(file_options)\n    else:\n        logger.info('Skipping configuration file')\n\n    cfg.apply_env()\n", "            cfg.apply_env()\n            remaining_file_options = cfg.apply_known(file_options)\n    else:\n        logger.info('Skipping configuration file')\n", 'C19.R1')

# local identifiers renamed by the neutral transform (must not be anchors)
RENAMES = {
    'glock': 'big_lock', 'abort': 'stop_flag', 'digests': 'pending_set', 'chunks_to_keep': 'kept', 'chunks_to_delete': 'doomed',
    'snapshots_locations': 'doomed_snapshots', 'to_delete': 'orphans', 'referenced_locations': 'live_locations', 'referenced_digests': 'live_digests',
    'files_digests': 'pending_by_file', 'files_metadata': 'plan_by_file', 'files_sizes': 'length_by_file', 'chunks_references': 'refs_by_chunk',
    'flocks': 'file_locks', 'flocks_refcounts': 'file_lock_users', 'chunk_queue': 'handover', 'chunk_producer': 'producer_future',
    'rate_limiter': 'limiter', 'limited_wrapper': 'throttled', 'tqdm_wrapper': 'progress_stream', 'upload_chunk_size': 'up_block', 'download_chunk_size': 'down_block',
    'snapshot_files': 'records', 'chunks_table': 'table', 'encrypted_contents': 'payload', 'output_chunk': 'piece', 'decrypted_contents': 'plain',
    'decrypted_view': 'plain_view', 'writer_futures': 'pending_writes', 'referenced_paths': 'touched', 'remaining_names': 'wanted',
    'padding_length': 'pad', 'prev_file': 'previous', 'source_file': 'fh', 'ordered_chunks': 'in_order', 'chunk_position': 'position',
    'restore_to': 'target_path', 'restore_path': 'final_path', 'next_chunk': 'lookahead', 'buffer': 'carry',
    'is_truncated': 'more', 'continuation_token': 'token', 'start_file_name': 'resume_at', 'decoded': 'page',
    'encoded_canonical_uri': 'quoted_path', 'query_string': 'qs', 'signing_key': 'skey', 'string_to_sign': 'sts',
}


def _apply(files, variant):
    vid, path, old, new, rule = variant
    text = files.get(path)
    if text is None or text.count(old) != 1:
        return None
    out = dict(files)
    out[path] = text.replace(old, new)
    return out


class _Renamer(ast.NodeTransformer):
    def visit_Name(self, n):
        if n.id in RENAMES:
            n.id = RENAMES[n.id]
        return n

    def visit_arg(self, n):
        return n

    def visit_keyword(self, n):
        self.generic_visit(n)
        return n


def neutral_variants(files):
    out = []
    # N1: ast.unparse normal form of every module (layout, comments, line numbers change)
    n1 = {}
    for p, t in files.items():
        if p.endswith('.py'):
            try:
                n1[p] = ast.unparse(ast.parse(t)) + '\n'
            except SyntaxError:
                return out
    out.append(('N1-unparse-normal-form', {**files, **n1}))
    # N2: renaming of local identifiers (keyword-argument names of calls are not Names and stay)
    n2 = {}
    for p, t in files.items():
        if p.endswith('.py') and not p.endswith(('cli.py', 'config.py', '__main__.py')):
            tree = _Renamer().visit(ast.parse(t))
            # parameters with renamed names: rename consistently when they are plain function parameters
            for fn in ast.walk(tree):
                if isinstance(fn, (ast.FunctionDef, ast.AsyncFunctionDef)):
                    for a in fn.args.args + fn.args.kwonlyargs:
                        if a.arg in RENAMES and not _is_public_param(fn, a.arg):
                            a.arg = RENAMES[a.arg]
            n2[p] = ast.unparse(tree) + '\n'
    # keyword uses of renamed parameters (continuation_token=, start_file_name=) follow the parameter
    for p in list(n2):
        for old in ('continuation_token', 'start_file_name'):
            n2[p] = n2[p].replace(f'{old}=', f'{RENAMES[old]}=')
    out.append(('N2-local-renaming', {**files, **n2}))
    # N3: every local variable of every function renamed
    n3 = {}
    for p, t in files.items():
        if p.endswith('.py'):
            n3[p] = rename_all_locals(t)
    out.append(('N3-all-locals-renamed', {**files, **n3}))
    return out


def _is_public_param(fn, name):
    return False


def rename_all_locals(text):
    """N3: rename EVERY local variable of every function (names bound by assignment,
    loops, with/except-as, comprehensions, walrus - not parameters, not globals) to
    `<name>_r`, consistently through nested functions (closures)."""
    tree = ast.parse(text)

    def bound_names(fn):
        names, params = set(), set()
        for n in ast.walk(fn):
            if isinstance(n, (ast.FunctionDef, ast.AsyncFunctionDef, ast.Lambda)):
                a = n.args
                for x in a.posonlyargs + a.args + a.kwonlyargs + ([a.vararg] if a.vararg else []) + ([a.kwarg] if a.kwarg else []):
                    params.add(x.arg)
                if n is not fn and not isinstance(n, ast.Lambda):
                    names.add(n.name)
            elif isinstance(n, ast.Name) and isinstance(n.ctx, (ast.Store, ast.Del)):
                names.add(n.id)
            elif isinstance(n, ast.ExceptHandler) and n.name:
                names.add(n.name)
            elif isinstance(n, (ast.Global,)):
                params |= set(n.names)
        return names - params

    class Ren(ast.NodeTransformer):
        def __init__(self, names):
            self.names = names

        def visit_Name(self, n):
            if n.id in self.names:
                n.id = n.id + '_r'
            return n

        def visit_ExceptHandler(self, n):
            if n.name in self.names:
                n.name = n.name + '_r'
            self.generic_visit(n)
            return n

        def visit_FunctionDef(self, n):
            if n.name in self.names:
                n.name = n.name + '_r'
            self.generic_visit(n)
            return n

        visit_AsyncFunctionDef = visit_FunctionDef

        def visit_Nonlocal(self, n):
            n.names = [x + '_r' if x in self.names else x for x in n.names]
            return n

    def outer_functions(node):
        for c in ast.iter_child_nodes(node):
            if isinstance(c, (ast.FunctionDef, ast.AsyncFunctionDef)):
                yield c
            elif isinstance(c, (ast.ClassDef, ast.If, ast.Try)):
                yield from outer_functions(c)

    for fn in outer_functions(tree):
        names = bound_names(fn)
        names.discard(fn.name)
        body_ren = Ren(names)
        for st in fn.body:
            body_ren.visit(st)
    return ast.unparse(tree) + '\n'


def _run(prop, files, extra):
    import importlib

    corpus = Corpus(None, filemap={**files, **extra})
    ctx = Ctx(prop, corpus, tier='thorough', quiet=True, use_known=True)
    ctx.corpus.repo = None
    mod = importlib.import_module(f'sa.rules.{prop.lower()}')
    try:
        mod.run(ctx)
    except AnalysisError:
        if not ctx.failures:
            raise
    return ctx


def _patched_run(args):
    """worker: apply one stored patch to a scratch copy of the current tree and run the property's rules on it"""
    import importlib

    prop, repo, overlay, kind, name, pp = args
    tmp = tempfile.mkdtemp(prefix=f'sa_{kind}_')
    out = {'status': 'ok', 'failed_rules': [], 'first_failure': None, 'error': None}
    try:
        subprocess.run(f'git -C {repo} archive HEAD | tar -x -C {tmp}', shell=True, check=True, capture_output=True)
        # analyse the working tree, not HEAD: overlay the current files
        for rel, text in overlay.items():
            os.makedirs(os.path.dirname(os.path.join(tmp, rel)), exist_ok=True)
            with open(os.path.join(tmp, rel), 'w', encoding='utf-8') as fh:
                fh.write(text)
        r = subprocess.run(['patch', '-p1', '-s', '--no-backup-if-mismatch', '-i', pp], cwd=tmp, capture_output=True, text=True)
        if r.returncode != 0:
            out['status'] = 'skip'
            return out
        c = Ctx(prop, Corpus(tmp), tier='thorough', quiet=True, use_known=True)
        try:
            importlib.import_module(f'sa.rules.{prop.lower()}').run(c)
        except Exception as e:  # AnalysisError or an internal error: "not decided" (established violations stay)
            out['error'] = f'{type(e).__name__}: {e}'[:300]
        if c.failures:
            out['failed_rules'] = sorted({o.rule for o in c.failures})
            o = c.failures[0]
            out['first_failure'] = f'{o.rule} {o.site} {o.what}'[:400]
    except Exception as e:
        out['status'] = 'ok'
        out['error'] = f'{type(e).__name__}: {e}'[:300]
    finally:
        shutil.rmtree(tmp, ignore_errors=True)
    return out


def run(ctx, prop):
    """Called by check.py in the thorough tier when the current tree has no violation."""
    files = dict(ctx.corpus.files)
    extra = dict(ctx.corpus.extra_files)
    base = {(o.rule, o.status) for o in ctx.obligations}
    stats = {'variants': 0, 'caught': 0, 'stale': 0, 'neutral_runs': 0, 'seeded_patches': 0, 'seeded_caught': 0, 'seeded_expected_miss': 0}
    samples = []
    for v in VARIANTS.get(prop, []):
        vid, path, old, new, rule = v
        allf = {**files, **extra}
        mutated = _apply(allf, v)
        if mutated is None:
            stats['stale'] += 1
            print(f'SELFTEST {prop} variant {vid}: anchor text not present in the current tree (stale variant, skipped)')
            continue
        stats['variants'] += 1
        try:
            c2 = _run(prop, {k: t for k, t in mutated.items() if k.endswith('.py') and k.startswith('replicat/')}, {k: t for k, t in mutated.items() if not (k.endswith('.py') and k.startswith('replicat/'))})
            fails = [o for o in c2.failures if rule is None or o.rule.startswith(rule)]
            anyfail = bool(c2.failures)
        except AnalysisError as e:
            raise AnalysisError(f'self-test {prop}/{vid}: the variant makes the analysis give up instead of reporting ({e})')
        if not fails:
            raise AnalysisError(f'self-test {prop}/{vid}: seeded break of {rule} in {path} was NOT reported (checker blind); other failures: {[o.rule for o in c2.failures][:3]}')
        stats['caught'] += 1
        samples.append({'variant': vid, 'file': path, 'expected_rule': rule, 'reported': sorted({o.rule for o in c2.failures})})
        print(f'SELFTEST {prop} variant {vid}: reported by {sorted({o.rule for o in fails})}')
    for nid, nf in neutral_variants({**files}):
        try:
            c3 = _run(prop, nf, extra)
        except AnalysisError as e:
            raise AnalysisError(f'self-test {prop}/{nid}: analysis breaks on a behaviour-preserving transform: {e}')
        if c3.failures:
            o = c3.failures[0]
            raise AnalysisError(f'self-test {prop}/{nid}: FALSE ALARM on a behaviour-preserving transform: {o.rule} {o.site} {o.what}')
        got = {(o.rule, o.status) for o in c3.obligations}
        if {r for r, _ in got} != {r for r, _ in base}:
            raise AnalysisError(f'self-test {prop}/{nid}: rule set changed under a neutral transform: {sorted({r for r, _ in base} ^ {r for r, _ in got})}')
        stats['neutral_runs'] += 1
        print(f'SELFTEST {prop} neutral {nid}: silent, same rules')
    # independently seeded defects and behaviour-preserving refactorings: each patch is applied to a scratch copy of the
    # current tree and analysed in a worker process (the patches are independent of each other)
    root = os.path.dirname(os.path.dirname(os.path.abspath(__file__)))
    sdir, bdir = os.path.join(root, 'seeded'), os.path.join(root, 'benign')
    stats['benign_refactorings'] = 0
    tasks = []
    if ctx.corpus.repo:
        overlay = {**files, **extra}
        if os.path.isdir(sdir):
            for name in sorted(os.listdir(sdir)):
                mp, pp = os.path.join(sdir, name, 'meta.json'), os.path.join(sdir, name, 'patch.diff')
                if not (os.path.exists(mp) and os.path.exists(pp)):
                    continue
                meta = json.load(open(mp))
                expect = prop in meta.get('checks_flagging', {}) and meta['checks_flagging'][prop].get('exit') == 1
                if meta.get('property') != prop and not expect:
                    continue
                tasks.append(('seed', name, pp, expect, []))
        if os.path.isdir(bdir):
            for name in sorted(os.listdir(bdir)):
                pp = os.path.join(bdir, name, 'patch.diff')
                if not os.path.exists(pp):
                    continue
                und = []
                mpath = os.path.join(bdir, name, 'meta.json')
                if os.path.exists(mpath):
                    try:
                        und = json.load(open(mpath)).get('expected_undecided', [])
                    except Exception:
                        und = []
                tasks.append(('benign', name, pp, False, und))
    results = []
    if tasks:
        import concurrent.futures as _cf
        import multiprocessing as _mp

        workers = max(1, min(len(tasks), int(os.environ.get('VERIF_JOBS', '0') or 0) or (os.cpu_count() or 2)))
        payload = [(prop, ctx.corpus.repo, overlay, kind, name, pp) for kind, name, pp, _e, _u in tasks]
        try:
            with _cf.ProcessPoolExecutor(max_workers=workers, mp_context=_mp.get_context('fork')) as ex:
                results = list(ex.map(_patched_run, payload, chunksize=1))
        except Exception:  # no process pool available: run in this process
            results = [_patched_run(x) for x in payload]
    for (kind, name, pp, expect, und), r in zip(tasks, results):
        if r['status'] == 'skip':
            print(f'SELFTEST {prop} {kind} {name}: patch does not apply to the current tree (skipped)')
            continue
        if kind == 'seed':
            stats['seeded_patches'] += 1
            if r['failed_rules']:
                stats['seeded_caught'] += 1
                print(f'SELFTEST {prop} seeded {name}: reported by {r["failed_rules"]}')
            elif expect:
                raise AnalysisError(f'self-test {prop}: seeded defect {name} was caught when it was recorded but is no longer reported')
            else:
                stats['seeded_expected_miss'] += 1
                print(f'SELFTEST {prop} seeded {name}: not reported (recorded as a miss of this check in meta.json)')
        else:
            if r['failed_rules']:
                raise AnalysisError(f'self-test {prop}: FALSE ALARM on the behaviour-preserving refactoring benign/{name}: {r["first_failure"]}')
            if r['error']:
                if prop in und:
                    stats['benign_undecided'] = stats.get('benign_undecided', 0) + 1
                    continue  # recorded: the refactoring removes an anchor this check names; "cannot decide" is the honest answer
                raise AnalysisError(f'self-test {prop}: analysis gives up on the behaviour-preserving refactoring benign/{name}: {r["error"]}')
            stats['benign_refactorings'] += 1
    if any(k == 'benign' for k, *_ in tasks):
        print(f'SELFTEST {prop} benign: silent on {stats["benign_refactorings"]} stored refactorings ({stats.get("benign_undecided", 0)} recorded as undecided)')
    ctx.extra_evidence = dict(getattr(ctx, 'extra_evidence', None) or {})
    ctx.extra_evidence['self_validation'] = {**stats, 'variant_samples': samples[:6]}
    print(f'SELFTEST {prop}: {stats}')
