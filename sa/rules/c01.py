"""C01 - Backup round trip is the identity on file trees.

Decides: input-path uniqueness; stream accounting pairing; order-key
provenance; writer/reader field agreement; non-interference of pre-existing
target state; write confinement; per-file obligation coverage; metadata last.
Not decided: byte equality for all sizes/configs (range arithmetic, chunker)."""
from __future__ import annotations

import ast

from ..astutil import deref, ancestors, calls_in, dotted, enclosing_stmt, is_within, src, walk_local
from ..cfg import cfg_of, deref_at
from ..loader import AnalysisError
from ..terms import Evaluator, alts, contains, find, show, walk
from .common import stream_producers, evaluate, func_label, loc, nested_by_role, repo_cls, self_calls

EXPLANATION = (
    'Provenance of the list of files that is streamed (a uniqueness-establishing operation on the flattened, resolved paths), pairing of every yield of the stream '
    'producer with the offset/hasher updates for the same bytes, provenance of the field restore sorts references by (a per-chunk strictly increasing counter), '
    'agreement of the record keys written by snapshot with those read by restore and the listings, absence of any flow from the existing target file into what is '
    'written to it plus a length-establishing operation per planned file that dominates the downloads, confinement of every file-system mutation of restore to '
    'the target directory, per-file obligations discharged in loops over the files (not over chunks), metadata restored after all writes. Rules C01.R1-R8.'
    ' Added with the seeded-defect rounds: leftovers of a finished loop are not used in a later loop (reaching definitions), handlers around source reads re-raise, closing code of snapshot() writes complete file records, plus the rules of neighbouring properties that are necessary conditions here (stateless chunker, UTC timestamp, legacy-metadata fallback).'
    ' Round 6: per-run stop flags, restore never probes the target, complete pagination, queue hand-over never drops a chunk.'
)
NOT_DECIDED = 'byte equality for every size / chunking configuration / concurrency (range arithmetic over runtime offsets composed with the native chunker)'
TRUSTED = ['CPython ast', 'dict.fromkeys / set remove duplicates', 'open(path, "wb") truncates']
ASSUMPTIONS = ['resolved paths identify files (no hard-link aliasing)']

UNIQ = ('dict.fromkeys', 'set', 'frozenset')


def r1_unique(ctx):
    corpus = ctx.corpus
    snap = corpus.func('repository', 'Repository.snapshot')
    producers = _stream_producers(snap)
    ctx.floor('C01.R1', 'stream producer', len(producers))
    p = producers[0]
    loop = next((n for n in p.node.body if isinstance(n, ast.For) and isinstance(n.iter, ast.Name)), None)
    if loop is None:
        raise AnalysisError('C01.R1: outer loop of the stream producer not found')
    lst = loop.iter.id
    ev = evaluate(corpus, snap, modes={'encrypted': False}, depth=6)
    t = ev.entry_env.vars.get(lst)
    if t is None:
        raise AnalysisError(f'C01.R1: `{lst}` not bound in snapshot')
    uniq = contains(t, lambda y: y[0] == 'call' and y[1][0] == 'name' and y[1][1] in UNIQ and y[2])
    ctx.check(
        uniq,
        'C01.R1',
        f'{func_label(snap)}|streamed-files-unique',
        loc(snap, loop),
        f'the list `{lst}` streamed by the producer is duplicate-free by construction (dict.fromkeys/set over the flattened, resolved paths)',
        f'nothing removes duplicates from the streamed list `{lst}` ({show(t, limit=140)}): a path given twice (or a file and its directory) is streamed twice and restored at twice its length',
    )
    # the per-path record map is keyed by the same path string and appends ranges: the reason uniqueness is necessary
    return p


def _stream_producers(snap):
    return stream_producers(snap)


def r2_accounting(ctx, p):
    ctx.analysed(p)
    # the global counter: attribute path used for stream_start in the per-file record constructor
    ctor = None
    for c in calls_in(p.node):
        kws = {k.arg: k.value for k in c.keywords}
        if 'stream_start' in kws and 'stream_end' in kws:
            ctor = c
    if ctor is None:
        raise AnalysisError('C01.R2: per-file record constructor (stream_start=, stream_end=) not found')
    kws = {k.arg: k.value for k in ctor.keywords}

    def _d(e):
        return deref_at(p.node, e) if isinstance(e, ast.Name) else e

    G = dotted(_d(kws['stream_start']))
    ctx.check(
        G is not None and dotted(_d(kws['stream_end'])) == G,
        'C01.R2',
        f'{func_label(p)}|file-offsets-from-stream-counter',
        loc(p, ctor),
        f'a file starts (and initially ends) at the current value of the stream counter `{G}`',
        'stream_start / stream_end of a file are not both initialised from the same stream counter',
    )
    fvar = None
    st = enclosing_stmt(ctor)
    if isinstance(st, ast.Assign) and isinstance(st.targets[0], ast.Name):
        fvar = st.targets[0].id
    yields = [n for n in walk_local(p.node) if isinstance(n, ast.Yield)]
    ctx.floor('C01.R2', 'yields of the stream producer', len(yields), 2)
    for y in yields:
        yst = enclosing_stmt(y)
        block = _block_of(yst)
        v = y.value
        is_pad = isinstance(v, ast.Call) and dotted(v.func) == 'bytes' and v.args
        if is_pad:
            amount = ast.dump(v.args[0])
            want = lambda inc: ast.dump(inc) == amount
            label = f'bytes({src(v.args[0])})'
        elif isinstance(v, ast.Name):
            want = lambda inc, nm=v.id: isinstance(inc, ast.Call) and dotted(inc.func) == 'len' and inc.args and isinstance(inc.args[0], ast.Name) and inc.args[0].id == nm
            label = v.id
        else:
            ctx.fail('C01.R2', f'{func_label(p)}|yield-shape', loc(p, yst), f'unrecognised yield `{src(v)}` in the stream producer')
            continue
        before = block[: block.index(yst)] if yst in block else []
        incs = [s for s in before if isinstance(s, ast.AugAssign) and isinstance(s.op, ast.Add) and dotted(s.target) == G]
        good = len(incs) == 1 and (want(incs[0].value) or want(_d(incs[0].value)))
        ctx.check(
            good,
            'C01.R2',
            f'{func_label(p)}|stream-counter-advanced-once-per-yield:{"padding" if is_pad else "data"}',
            loc(p, yst),
            f'`{G} += len({label})` exactly once before `yield {label}`',
            f'the stream counter `{G}` is not advanced by exactly the length of the yielded `{label}` ({len(incs)} matching updates): every later file/chunk offset is shifted and restored data is misattributed',
        )
        if not is_pad and fvar:
            ends = [s for s in before if isinstance(s, ast.AugAssign) and isinstance(s.op, ast.Add) and dotted(s.target) == f'{fvar}.stream_end']
            ctx.check(
                len(ends) == 1 and (want(ends[0].value) or want(_d(ends[0].value))),
                'C01.R2',
                f'{func_label(p)}|file-end-advanced-once-per-yield',
                loc(p, yst),
                f'`{fvar}.stream_end += len({label})` exactly once before the yield',
                f"the file's own end offset is not advanced by the yielded data",
            )
            feeds = [s for s in before if isinstance(s, ast.Expr) and isinstance(s.value, ast.Call) and isinstance(s.value.func, ast.Attribute) and s.value.func.attr in ('feed', 'update') and s.value.args and isinstance(s.value.args[0], ast.Name) and s.value.args[0].id == v.id]
            ctx.check(
                len(feeds) == 1,
                'C01.R2',
                f'{func_label(p)}|hasher-fed-with-yielded-bytes',
                loc(p, yst),
                f'the file hasher is fed exactly the yielded `{label}`',
                'the recorded file digest is not computed over exactly the streamed bytes',
            )


def _block_of(stmt):
    par = getattr(stmt, '_parent', None)
    for field in ('body', 'orelse', 'finalbody'):
        b = getattr(par, field, None)
        if isinstance(b, list) and any(s is stmt for s in b):
            return b
    return []


def r3_order_key(ctx):
    corpus = ctx.corpus
    fn = corpus.func('repository', 'Repository.restore')
    sorts = []
    for c in calls_in(fn.node):
        if dotted(c.func) == 'sorted' and c.args and any(isinstance(x, ast.Constant) and x.value == 'chunks' for x in ast.walk(deref_at(fn.node, c.args[0]) if isinstance(c.args[0], ast.Name) else c.args[0])):
            sorts.append(c)
    ctx.floor('C01.R3', "sorted(file['chunks'], key=...) in restore", len(sorts))
    snap = corpus.func('repository', 'Repository.snapshot')
    for c in sorts:
        key = next((k.value for k in c.keywords if k.arg == 'key'), None)
        F = None
        if isinstance(key, ast.Lambda) and isinstance(key.body, ast.Subscript) and isinstance(key.body.slice, ast.Constant):
            F = key.body.slice.value
        # writer: dict literal with 'range' key
        w_ok = False
        why = f'field {F!r} not written'
        for f in [snap] + list(snap.all_nested()):
            for d in walk_local(f.node):
                if isinstance(d, ast.Dict) and any(isinstance(k, ast.Constant) and k.value == 'range' for k in d.keys):
                    for k, v in zip(d.keys, d.values):
                        if isinstance(k, ast.Constant) and k.value == F and isinstance(v, ast.Attribute):
                            attr = v.attr
                            # the record constructor fills attr from a counter incremented once per produced chunk
                            for g in [snap] + list(snap.all_nested()):
                                for cc in calls_in(g.node):
                                    kw = {x.arg: x.value for x in cc.keywords}
                                    if attr in kw and 'contents' in kw:
                                        src_attr = dotted(kw[attr])
                                        loops = [a for a in ancestors(cc) if isinstance(a, (ast.For, ast.While))]
                                        if src_attr and loops:
                                            outer = loops[-1]
                                            incs = [s for s in outer.body if isinstance(s, ast.AugAssign) and isinstance(s.op, ast.Add) and dotted(s.target) == src_attr and isinstance(s.value, ast.Constant) and isinstance(s.value.value, int) and s.value.value > 0]
                                            if len(incs) == 1 and incs[0].lineno < cc.lineno:
                                                w_ok = True
                                            else:
                                                why = f'`{src_attr}` is not incremented exactly once per produced chunk before use'
                                        else:
                                            why = f'field {F!r} <- chunk.{attr} <- `{src(kw[attr])}` is not a per-chunk counter'
        # the sorted list is what the offset accumulation iterates
        st = enclosing_stmt(c)
        it_ok = False
        if isinstance(st, ast.Assign) and isinstance(st.targets[0], ast.Name):
            nm = st.targets[0].id
            it_ok = any(isinstance(l, ast.For) and isinstance(l.iter, ast.Name) and l.iter.id == nm for l in walk_local(fn.node))
        elif isinstance(st, ast.For) and any(x is c for x in ast.walk(st.iter)):
            it_ok = True  # for ... in sorted(...): the sorted sequence is iterated directly
        ctx.check(
            w_ok and it_ok and F is not None,
            'C01.R3',
            f'{func_label(fn)}|references-replayed-in-stream-order',
            loc(fn, c),
            f"restore orders a file's references by `{F}`, which snapshot fills from a counter incremented once per produced chunk, and accumulates offsets in that order",
            f"restore orders a file's references by {F!r}: {why if not w_ok else 'the sorted list is not the one iterated'} - references are replayed out of stream order and the file is assembled wrongly",
        )


FILE_KEYS_MIN = {'path', 'chunks'}


def _record_literals(snap):
    files, refs = [], []
    for f in [snap] + list(snap.all_nested()):
        for d in walk_local(f.node):
            if isinstance(d, ast.Dict) and all(isinstance(k, ast.Constant) for k in d.keys):
                ks = {k.value for k in d.keys}
                if FILE_KEYS_MIN <= ks:
                    files.append((f, d, ks))
                if 'range' in ks:
                    refs.append((f, d, ks))
    return files, refs


def _read_keys(corpus):
    """Constant keys read from file records / chunk references by restore and the listings."""
    cls = repo_cls(corpus)
    file_keys, ref_keys = {}, {}
    funcs = [corpus.func('repository', 'Repository.restore'), corpus.func('repository', 'Repository.list_files')] + [m for m in cls.methods.values() if m.name.startswith(('_format_file_', '_extract_snapshot_'))]
    for f in funcs:
        kinds = {}
        if 'file_data' in [a.arg for a in f.node.args.kwonlyargs + f.node.args.args]:
            kinds['file_data'] = 'file'

        def kind_of(e):
            if isinstance(e, ast.Name):
                return kinds.get(e.id)
            if isinstance(e, ast.Call) and dotted(e.func) in ('sorted', 'list', 'reversed') and e.args:
                return kind_of(e.args[0])
            if isinstance(e, ast.Subscript) and isinstance(e.slice, ast.Constant):
                if e.slice.value == 'files':
                    return 'files'
                if e.slice.value == 'chunks' and kind_of(e.value) == 'file':
                    return 'refs'
            return None

        for _ in range(3):
            for n in ast.walk(f.node):
                if isinstance(n, ast.Assign) and len(n.targets) == 1 and isinstance(n.targets[0], ast.Name):
                    k = kind_of(n.value)
                    if k:
                        kinds[n.targets[0].id] = k
                if isinstance(n, (ast.For, ast.comprehension)) and isinstance(n.target, ast.Name):
                    k = kind_of(n.iter)
                    if k == 'files':
                        kinds[n.target.id] = 'file'
                    elif k == 'refs':
                        kinds[n.target.id] = 'ref'
                if isinstance(n, ast.Call) and dotted(n.func) == 'sorted' and n.args and kind_of(n.args[0]) == 'refs':
                    for kw in n.keywords:
                        if kw.arg == 'key' and isinstance(kw.value, ast.Lambda):
                            la = kw.value.args.args[0].arg
                            for s in ast.walk(kw.value.body):
                                if isinstance(s, ast.Subscript) and isinstance(s.value, ast.Name) and s.value.id == la and isinstance(s.slice, ast.Constant):
                                    ref_keys.setdefault(s.slice.value, (f, s))
        for n in ast.walk(f.node):
            if isinstance(n, ast.Subscript) and isinstance(n.slice, ast.Constant) and isinstance(n.slice.value, str) and isinstance(n.value, ast.Name):
                k = kinds.get(n.value.id)
                if k == 'file':
                    file_keys.setdefault(n.slice.value, (f, n))
                elif k == 'ref':
                    ref_keys.setdefault(n.slice.value, (f, n))
            if isinstance(n, ast.Call) and isinstance(n.func, ast.Attribute) and n.func.attr == 'get' and isinstance(n.func.value, ast.Name) and n.args and isinstance(n.args[0], ast.Constant):
                k = kinds.get(n.func.value.id)
                if k == 'file':
                    file_keys.setdefault(n.args[0].value, (f, n))
    return file_keys, ref_keys


def r4_fields(ctx):
    corpus = ctx.corpus
    snap = corpus.func('repository', 'Repository.snapshot')
    files, refs = _record_literals(snap)
    ctx.floor('C01.R4', 'file-record literals in snapshot', len(files))
    ctx.floor('C01.R4', 'chunk-reference literals in snapshot', len(refs))
    fk = set.intersection(*[ks for _, _, ks in files])
    for f, d, ks in files:
        ctx.check(ks == fk, 'C01.R4', f'{func_label(f)}|file-record-literals-agree', loc(f, d), f'file record literal has the common key set {sorted(fk)}', f'file record literals disagree on their keys: {sorted(ks)} vs {sorted(fk)}')
    rk = set.intersection(*[ks for _, _, ks in refs])
    rfile, rref = _read_keys(corpus)
    ctx.floor('C01.R4', 'keys read from file records', len(rfile), 3)
    ctx.floor('C01.R4', 'keys read from chunk references', len(rref), 2)
    for k, (f, n) in sorted(rfile.items()):
        ctx.check(k in fk, 'C01.R4', f'{func_label(f)}|file-key-written:{k}', loc(f, n), f'file-record key {k!r} read by {f.name} is written by snapshot', f'{f.name} reads file-record key {k!r} which snapshot does not write (written: {sorted(fk)})')
    for k, (f, n) in sorted(rref.items()):
        ctx.check(k in rk, 'C01.R4', f'{func_label(f)}|ref-key-written:{k}', loc(f, n), f'chunk-reference key {k!r} read by {f.name} is written by snapshot', f'{f.name} reads chunk-reference key {k!r} which snapshot does not write (written: {sorted(rk)})')
    for k in sorted(rk - set(rref)):
        if k in ('range', 'index', 'counter'):
            ctx.fail('C01.R4', f'{func_label(snap)}|ref-key-read:{k}', loc(snap, refs[0][1]), f'chunk-reference key {k!r} is written but never read by restore')


TARGET_READS = ('tell', 'stat', 'getsize', 'lstat', 'getvalue')


def r5_non_interference(ctx):
    corpus = ctx.corpus
    cls = repo_cls(corpus)
    fn = corpus.func('repository', 'Repository.restore')
    writers = [corpus.method(cls, '_write_file_part')] + [f for f in fn.all_nested() if any(True for _ in self_calls(f.node, {'_write_file_part'}))]
    writers = [w for w in writers if w is not None]
    # ... or the positioned write itself, wherever it is written out: a nested function that opens a target for update and writes
    for f in fn.all_nested():
        opens_rw = any(isinstance(c.func, ast.Attribute) and c.func.attr == 'open' and any(isinstance(a, ast.Constant) and isinstance(a.value, str) and '+' in a.value for a in list(c.args) + [k.value for k in c.keywords]) for c in calls_in(f.node))
        writes = any(isinstance(c.func, ast.Attribute) and c.func.attr == 'write' for c in calls_in(f.node))
        if opens_rw and writes and f not in writers:
            writers.append(f)
    ctx.floor('C01.R5', 'functions writing to restore targets', len(writers))
    for w in writers:
        ctx.analysed(w)
        bad = []
        for c in calls_in(w.node):
            nm = (dotted(c.func) or '').rsplit('.', 1)[-1] if dotted(c.func) else (c.func.attr if isinstance(c.func, ast.Attribute) else '')
            if nm in TARGET_READS and not (isinstance(c.func, ast.Attribute) and isinstance(c.func.value, ast.Name) and c.func.value.id in [a.arg for a in w.node.args.args]):
                bad.append(c)
            if nm == 'seek' and len(c.args) >= 2:
                whence = c.args[1]
                if not (isinstance(whence, ast.Constant) and whence.value == 0) and 'SEEK_SET' not in src(whence):
                    bad.append(c)
            opened = {i.optional_vars.id for ws in walk_local(w.node) if isinstance(ws, ast.With) for i in ws.items if isinstance(i.optional_vars, ast.Name)}
            if nm == 'read' and isinstance(c.func, ast.Attribute) and isinstance(c.func.value, ast.Name) and c.func.value.id in opened:
                bad.append(c)
        ctx.check(
            not bad,
            'C01.R5',
            f'{func_label(w)}|writes-independent-of-existing-target',
            loc(w, w.node),
            f'{w.name}: nothing read back from the target file (end position, size, contents) influences what is written',
            f'{w.name}: `{src(bad[0], 60) if bad else ""}` reads the existing target; what restore leaves then depends on what was already there',
        )
        # positioned writes open without truncating/creating: the length is established elsewhere
        for c in calls_in(w.node):
            if isinstance(c.func, ast.Attribute) and c.func.attr == 'truncate':
                arg_names = {n.id for a in c.args for n in ast.walk(a) if isinstance(n, ast.Name)}
                ctx.check(False, 'C01.R5', f'{func_label(w)}|no-size-decision-in-positioned-writer', loc(w, c), '', f'{w.name}: truncate({src(c.args[0]) if c.args else ""}) inside the per-chunk writer decides the file length from partial knowledge')
    # length-establishing operation per planned file dominates the downloads
    cfg = cfg_of(fn.node)
    est = []
    for l in walk_local(fn.node):
        if isinstance(l, ast.For) and any(isinstance(x, ast.Attribute) and x.attr in ('items', 'values') for x in ast.walk(l.iter)):
            opens = [c for c in calls_in(l) if isinstance(c.func, ast.Attribute) and c.func.attr == 'open' and c.args and isinstance(c.args[0], ast.Constant) and 'w' in str(c.args[0].value)]
            truncs = [c for c in calls_in(l) if isinstance(c.func, ast.Attribute) and c.func.attr == 'truncate' and c.args]
            if opens and truncs:
                est.append((l, opens, truncs))
    joins = [enclosing_stmt(c) for c in calls_in(fn.node) if isinstance(c.func, ast.Attribute) and c.func.attr == 'run_in_executor' and any(isinstance(a, ast.Name) and a.id in fn.nested for a in c.args)]
    ctx.floor('C01.R5', 'chunk loader join in restore', len(joins))
    ok = False
    why = 'no loop over the planned files that creates each file (open "w") and sets its final length (truncate) before the downloads'
    for l, opens, truncs in est:
        after = cfg.nodes_of(l, 'join')
        if all(cfg.set_dominates(after, x) for j in joins for x in cfg.nodes_of(j, ('stmt', 'with_enter'))):
            # the length derives from the snapshot's ranges
            ev = evaluate(corpus, fn, modes={'encrypted': False}, depth=5)
            tr = [e for e in ev.events if e.method == 'truncate' and e.func is fn]
            if tr and all(e.args and contains(e.args[0], lambda y: y == ('const', 'range')) and not contains(e.args[0], lambda y: y[0] == 'call' and y[1][0] == 'attr' and y[1][2] in TARGET_READS) for e in tr):
                ok = True
            else:
                why = 'the established length does not derive from the snapshot\'s chunk ranges'
    ctx.check(
        ok,
        'C01.R5',
        f'{func_label(fn)}|final-length-established-before-writes',
        loc(fn, est[0][0]) if est else loc(fn, fn.node),
        'every planned file is created with its final length (from the snapshot ranges) before any chunk is written, whatever already exists at the target',
        f'restore: {why}: a longer pre-existing file keeps its old tail',
    )


FS_MUTATORS = {'open', 'mkdir', 'write_bytes', 'write_text', 'unlink', 'replace', 'rename', 'touch', 'truncate', 'rmdir', 'symlink_to', 'chmod'}
FS_FUNCS = {'os.utime', 'os.remove', 'os.unlink', 'os.rename', 'os.replace', 'os.makedirs', 'os.mkdir', 'shutil.move', 'shutil.copy', 'shutil.copyfile', 'shutil.rmtree', 'os.chmod', 'os.truncate'}


def _rooted_at_target(t):
    """t is Path(<restore target>, *parts) possibly followed by .resolve() / .parent"""
    while True:
        if t[0] == 'attr' and t[2] == 'parent':
            t = t[1]
        elif t[0] == 'call' and t[1][0] == 'attr' and t[1][2] in ('resolve', 'absolute') :
            t = t[1][1]
        else:
            break
    if t[0] == 'alt':
        return all(_rooted_at_target(a) for a in t[1])
    if not (t[0] == 'call' and t[1] == ('name', 'pathlib.Path') and t[2]):
        return False
    first = t[2][0]
    return all(
        contains(f, lambda z: z == ('param', 'path')) or (contains(f, lambda z: z[0] == 'call' and z[1] == ('name', 'pathlib.Path') and not z[2]))
        for f in alts(first)
    )


def _is_cache_path(t):
    while t[0] == 'attr' and t[2] == 'parent':
        t = t[1]
    if t[0] == 'alt':
        return all(_is_cache_path(a) for a in t[1])
    return t[0] == 'call' and t[1] == ('name', 'pathlib.Path') and bool(t[2]) and t[2][0][0] == 'attr' and t[2][0][2] == '_cache_directory'


def KNOWN_RECORDS(corpus):
    import json, os

    inv = json.load(open(os.path.join(os.path.dirname(os.path.dirname(os.path.abspath(__file__))), 'inventory.json')))
    return {f'{rel}::{c}' for rel, v in inv.items() for c in v.get('classes', [])}


def r6_confinement(ctx):
    corpus = ctx.corpus
    fn = corpus.func('repository', 'Repository.restore')
    n = 0
    for enc in (False,):
        ev = evaluate(corpus, fn, modes={'encrypted': enc}, depth=6)
        ctx.count('terms_built', ev.terms_built)
        for e in ev.events:
            tgt = None
            what = None
            if e.method in FS_MUTATORS and e.receiver is not None:
                if e.method == 'open':
                    mode = e.arg(0, 'mode')
                    if not (mode and mode[0] == 'const' and any(ch in str(mode[1]) for ch in 'wax+')):
                        continue
                if e.method == 'truncate' and not contains(e.receiver, lambda y: y[0] == 'call' and y[1][0] == 'attr' and y[1][2] == 'open'):
                    continue
                tgt, what = e.receiver, e.method
                if e.method == 'truncate':
                    # file object obtained from <path>.open(...): the target is that path
                    opens = [x for a in alts(tgt) for x in [a] if a[0] == 'call' and a[1][0] == 'attr' and a[1][2] == 'open']
                    if opens and len(opens) == len(alts(tgt)):
                        from ..terms import alt as _alt

                        tgt = _alt(*[o[1][1] for o in opens])
            elif e.callee[0] == 'name' and e.callee[1] in FS_FUNCS and e.args:
                tgt, what = e.args[0], e.callee[1]
            if tgt is None:
                continue
            if _is_cache_path(tgt) or (tgt[0] == 'call' and tgt[1] == ('name', 'io.BytesIO')):
                continue
            n += 1
            inside = all(_rooted_at_target(a) for a in alts(tgt))
            if not inside and any(a and a[0] == 'record' and a[1] not in KNOWN_RECORDS(corpus) for a in alts(tgt)):
                # the path travels inside an object of a class this analysis has no model of: no verdict either way
                raise AnalysisError(f'C01.R6: the target of `{what}` at {e.loc} is carried by an object of a class introduced after the design tree ({show(tgt, limit=60)}); the path cannot be traced through it')
            ctx.check(
                inside,
                'C01.R6',
                f'{func_label(fn)}|fs-mutation-confined:{what}',
                e.loc,
                f'restore: `{what}` acts on Path(<target directory>, *<recorded path parts>) (or its parent)',
                f'restore: `{what}` acts on {show(tgt, limit=140)}, which is not under the restore target directory',
            )
    ctx.floor('C01.R6', 'file-system mutations reachable from restore', n, 3)
    # the recorded path is re-rooted: parts[1:] (drops the root) under the target
    ok = any(isinstance(s, ast.Subscript) and isinstance(s.slice, ast.Slice) and isinstance(s.value, ast.Attribute) and s.value.attr == 'parts' and isinstance(s.slice.lower, ast.Constant) and s.slice.lower.value == 1 for s in ast.walk(fn.node))
    ctx.check(ok, 'C01.R6', f'{func_label(fn)}|recorded-path-rerooted', loc(fn, fn.node), 'restore re-roots the recorded absolute path under the target (Path(target, *parts[1:]))', 'restore does not strip the root of the recorded path before joining it to the target')


def r7_coverage(ctx, p):
    corpus = ctx.corpus
    snap = corpus.func('repository', 'Repository.snapshot')
    cfg = cfg_of(snap.node)
    # list the producer appends every streamed file to
    appended = None
    for c in calls_in(p.node):
        if isinstance(c.func, ast.Attribute) and c.func.attr == 'append' and dotted(c.func.value):
            appended = dotted(c.func.value)
    if appended is None:
        raise AnalysisError('C01.R7: the producer does not register streamed files in a list')
    # the map that becomes data['files']
    fmap = None
    for d in walk_local(snap.node):
        if isinstance(d, ast.Dict):
            for k, v in zip(d.keys, d.values):
                if isinstance(k, ast.Constant) and k.value == 'files':
                    names = [x.id for x in ast.walk(v) if isinstance(x, ast.Name) and x.id not in ('list', 'tuple', 'sorted')]
                    fmap = names[0] if names else None
                    data_stmt = enclosing_stmt(d)
    if fmap is None:
        raise AnalysisError("C01.R7: snapshot data literal with key 'files' not found")
    ok = False
    for l in snap.node.body:
        if isinstance(l, ast.For) and dotted(l.iter) == appended:
            creates = [a for a in walk_local(l) if isinstance(a, ast.Assign) and any(isinstance(t, ast.Subscript) and isinstance(t.value, ast.Name) and t.value.id == fmap for t in a.targets)]
            if creates and all(cfg.set_dominates(cfg.nodes_of(l, 'join'), x) for x in cfg.nodes_of(data_stmt, 'stmt')):
                # creation may only be conditional on "not yet recorded"
                cond_ok = True
                for a in creates:
                    for anc in ancestors(a):
                        if anc is l:
                            break
                        if isinstance(anc, ast.If):
                            t = anc.test
                            if not (isinstance(t, ast.Compare) and isinstance(t.ops[0], ast.NotIn) and isinstance(t.comparators[0], ast.Name) and t.comparators[0].id == fmap):
                                cond_ok = False
                ok = cond_ok
    ctx.check(
        ok,
        'C01.R7',
        f'{func_label(snap)}|every-streamed-file-recorded',
        loc(snap, snap.node),
        f'snapshot: a loop over all streamed files (`{appended}`) guarantees a record in `{fmap}` for each, before the snapshot data is built',
        f'snapshot: file records are created only from per-chunk code; a file that produced no chunk of its own (e.g. a tree of only empty files) is not recorded and is never restored',
    )
    fn = corpus.func('repository', 'Repository.restore')
    rcfg = cfg_of(fn.node)
    joins = [enclosing_stmt(c) for c in calls_in(fn.node) if isinstance(c.func, ast.Attribute) and c.func.attr == 'run_in_executor' and any(isinstance(a, ast.Name) and a.id in fn.nested for a in c.args)]
    ok_r = False
    for l in walk_local(fn.node):
        if isinstance(l, ast.For) and not any(isinstance(a, ast.For) for a in ancestors(l)):
            meta = [c for c in self_calls(l, {'restore_metadata'})]
            if meta:
                # guarded only by "no chunk references"
                g = [a for c in meta for a in ancestors(c) if isinstance(a, ast.If)]
                ok_r = all(isinstance(i.test, ast.UnaryOp) and isinstance(i.test.op, ast.Not) for i in g if is_within(i, l))
    ctx.check(
        ok_r,
        'C01.R7',
        f'{func_label(fn)}|chunkless-files-finished',
        loc(fn, fn.node),
        'restore: a loop over the planned files finishes (metadata) the files that have no chunk references; creation of every planned file is C01.R5',
        'restore: files without chunk references are only reachable from per-chunk code and are never created / given their metadata',
    )


def r8_metadata_last(ctx):
    corpus = ctx.corpus
    fn = corpus.func('repository', 'Repository.restore')
    cons = [f for f in fn.nested.values() if any(isinstance(n, ast.Attribute) and n.attr == 'download_stream' for n in walk_local(f.node))]
    for f in cons:
        cfg = cfg_of(f.node)
        metas = [enclosing_stmt(c) for c in self_calls(f.node, {'restore_metadata'})]
        ctx.floor('C01.R8', 'restore_metadata call in the chunk consumer', len(metas))
        res_loops = [l for l in walk_local(f.node) if isinstance(l, ast.For) and any(isinstance(c.func, ast.Attribute) and c.func.attr == 'result' for c in calls_in(l))]
        for m in metas:
            after = [x for l in res_loops for x in cfg.nodes_of(l, 'join')]
            ok = bool(after) and all(cfg.set_dominates(after, x) for x in cfg.nodes_of(m, 'stmt'))
            ctx.check(
                ok,
                'C01.R8',
                f'{func_label(f)}|metadata-after-writes',
                loc(f, m),
                "a file's times are restored only after every writer future of the finishing chunk was observed",
                "restore_metadata can run before the chunk's writes completed: a later write resets the modification time",
            )


def r9_plan_pairing(ctx):
    corpus = ctx.corpus
    fn = corpus.func('repository', 'Repository.restore')
    cfg = cfg_of(fn.node)
    cons = [f for f in fn.nested.values() if any(isinstance(n, ast.Attribute) and n.attr == 'download_stream' for n in walk_local(f.node))]
    # the pending dict: the one whose elements the consumer removes the digest from
    pending = None
    for f in cons:
        for c in calls_in(f.node):
            if isinstance(c.func, ast.Attribute) and c.func.attr in ('remove', 'discard') and isinstance(c.func.value, ast.Name):
                alias = c.func.value.id
                for a in walk_local(f.node):
                    if isinstance(a, ast.Assign) and isinstance(a.targets[0], ast.Name) and a.targets[0].id == alias and isinstance(a.value, ast.Subscript) and isinstance(a.value.value, ast.Name):
                        pending = a.value.value.id
    if pending is None:
        raise AnalysisError('C01.R9: pending-digest bookkeeping of the chunk consumer not found')
    # in the plan: alias of pending[file] gets .add(digest); references dict gets [digest].append(...)
    adds, apps = [], []
    alias = None
    for a in walk_local(fn.node):
        if isinstance(a, ast.Assign):
            for t in a.targets:
                if isinstance(t, ast.Subscript) and isinstance(t.value, ast.Name) and t.value.id == pending:
                    for t2 in a.targets:
                        if isinstance(t2, ast.Name):
                            alias = t2.id
    # the references mapping: the one whose items() feed the chunk consumers
    refs_names = set()
    cons_names = {f.name for f in cons}
    for c in calls_in(fn.node):
        if isinstance(c.func, ast.Attribute) and c.func.attr in ('run_in_executor', 'submit') and any(isinstance(a, ast.Name) and a.id in cons_names for a in c.args):
            for g in ast.walk(getattr(c, '_parent', c)):
                pass
    def _submits_consumer(node):
        return any(isinstance(c, ast.Call) and isinstance(c.func, ast.Attribute) and c.func.attr in ('run_in_executor', 'submit') and any(isinstance(a, ast.Name) and a.id in cons_names for a in c.args) for c in ast.walk(node))

    for n in ast.walk(fn.node):
        if isinstance(n, ast.comprehension) and isinstance(n.iter, ast.Call) and isinstance(n.iter.func, ast.Attribute) and n.iter.func.attr == 'items' and isinstance(n.iter.func.value, ast.Name):
            refs_names.add(n.iter.func.value.id)
        if isinstance(n, (ast.For, ast.AsyncFor)) and isinstance(n.iter, ast.Call) and isinstance(n.iter.func, ast.Attribute) and n.iter.func.attr == 'items' and isinstance(n.iter.func.value, ast.Name) and _submits_consumer(n):
            refs_names.add(n.iter.func.value.id)
    for c in calls_in(fn.node):
        if isinstance(c.func, ast.Attribute) and c.func.attr == 'add' and isinstance(c.func.value, ast.Name) and c.func.value.id == alias:
            adds.append(enclosing_stmt(c))
        if isinstance(c.func, ast.Attribute) and c.func.attr == 'append' and isinstance(c.func.value, ast.Subscript) and isinstance(c.func.value.value, ast.Name) and c.func.value.value.id in refs_names:
            apps.append(enclosing_stmt(c))
    ctx.floor('C01.R9', 'pending-set additions in the restore plan', len(adds))
    ctx.floor('C01.R9', 'reference appends in the restore plan', len(apps))
    loops = [l for l in walk_local(fn.node) if isinstance(l, ast.For) and any(is_within(a, l) for a in adds)]
    inner = loops[-1]
    heads = cfg.nodes_of(inner, 'loop')
    app_ok = [x for a in apps for x in cfg.nodes_of(a, 'ok')]
    add_ok = [x for a in adds for x in cfg.nodes_of(a, 'ok')]
    p1 = None
    for x in add_ok:
        p1 = p1 or cfg.path(x, heads, avoid=app_ok, kinds=('normal',))
    p2 = None
    for t in cfg.nodes_of(inner, 'true'):
        for a in apps:
            for x in cfg.nodes_of(a, 'stmt'):
                p2 = p2 or cfg.path(t, [x], avoid=add_ok + heads, kinds=('normal',))
    ctx.check(
        p1 is None and p2 is None,
        'C01.R9',
        f'{func_label(fn)}|pending-digest-iff-reference',
        loc(fn, adds[0]),
        f'restore plan: a digest is added to the file\'s pending set exactly when a reference for it is queued (the loaders clear exactly what was queued)',
        'restore plan: a chunk can be added to a file\'s pending set without a reference being queued for it (or vice versa): the file is never finished (no metadata) or finished early',
        cfg.describe_path([n for n in (p1 or p2 or []) if n.kind in ('stmt', 'true', 'false', 'test')][:10], fn.module),
    )
    # the chunk-less finishing loop tests the same pending sets
    ok = False
    for l in walk_local(fn.node):
        if isinstance(l, ast.For) and any(True for _ in self_calls(l, {'restore_metadata'})) and not any(isinstance(a, ast.For) for a in ancestors(l)):
            it_names = {n.id for n in ast.walk(l.iter) if isinstance(n, ast.Name)}
            # loop variables bound from the pending mapping (for path, digests in pending.items())
            # the value variable of `for path, digests in pending.items()` (or of `.values()`)
            lvars = set()
            if isinstance(l.iter, ast.Call) and isinstance(l.iter.func, ast.Attribute) and l.iter.func.attr == 'items' and isinstance(l.target, ast.Tuple) and len(l.target.elts) == 2 and isinstance(l.target.elts[1], ast.Name):
                lvars = {l.target.elts[1].id}
            elif isinstance(l.iter, ast.Call) and isinstance(l.iter.func, ast.Attribute) and l.iter.func.attr == 'values' and isinstance(l.target, ast.Name):
                lvars = {l.target.id}
            empty_edges = []
            for i in walk_local(l):
                if isinstance(i, ast.If):
                    t = i.test
                    if isinstance(t, ast.UnaryOp) and isinstance(t.op, ast.Not) and isinstance(t.operand, ast.Name) and t.operand.id in lvars:
                        empty_edges += cfg.nodes_of(i, 'true')
                    elif isinstance(t, ast.Name) and t.id in lvars:
                        empty_edges += cfg.nodes_of(i, 'false')
            finishes = [enclosing_stmt(c) for c in self_calls(l, {'restore_metadata'})]
            if pending in it_names and empty_edges and finishes and all(cfg.set_dominates(empty_edges, x) for st in finishes for x in cfg.nodes_of(st, 'stmt')):
                ok = True
    ctx.check(
        ok,
        'C01.R9',
        f'{func_label(fn)}|chunkless-test-on-pending-set',
        loc(fn, fn.node),
        f'restore: "no loader will visit this file" is decided on the pending sets `{pending}` themselves',
        f'restore: the files finished up-front are not chosen by their pending sets `{pending}` (the sets the loaders clear): a file can be left waiting for a loader that never comes',
    )
    digest_cleared_after_writes(ctx, 'C01.R8')


def digest_cleared_after_writes(ctx, rule):
    # the consumer clears its digest only after its own writes were observed
    fn = ctx.corpus.func('repository', 'Repository.restore')
    cons = [f for f in fn.nested.values() if any(isinstance(n, ast.Attribute) and n.attr == 'download_stream' for n in walk_local(f.node))]
    for f in cons:
        fcfg = cfg_of(f.node)
        res_loops = [l for l in walk_local(f.node) if isinstance(l, ast.For) and any(isinstance(c.func, ast.Attribute) and c.func.attr == 'result' for c in calls_in(l))]
        after = [x for l in res_loops for x in fcfg.nodes_of(l, 'join')]
        for c in calls_in(f.node):
            if isinstance(c.func, ast.Attribute) and c.func.attr in ('remove', 'discard') and isinstance(c.func.value, ast.Name):
                st = enclosing_stmt(c)
                okr = bool(after) and all(fcfg.set_dominates(after, x) for x in fcfg.nodes_of(st, 'stmt'))
                ctx.check(
                    okr,
                    rule,
                    f'{func_label(f)}|digest-cleared-after-own-writes',
                    loc(f, st),
                    f'{f.name}: the chunk is marked done for a file only after every write of this chunk was observed (result())',
                    f'{f.name}: the chunk is marked done before its writes completed: another loader can finish the file (restore its times) while a write is still pending, which resets the modification time',
                )


def r3b_chunk_record_fresh(ctx, rule='C01.R3'):
    corpus = ctx.corpus
    snap = corpus.func('repository', 'Repository.snapshot')
    producers = [f for f in snap.nested.values() if any(isinstance(n, ast.Attribute) and n.attr == 'chunkify' for n in walk_local(f.node))]
    ctx.floor(rule, 'chunk producer', len(producers))
    for f in producers:
        puts = [c for c in calls_in(f.node) if isinstance(c.func, ast.Attribute) and c.func.attr in ('put', 'put_nowait') and c.args and isinstance(c.args[0], ast.Name)]
        ctx.floor(rule, 'queue hand-over in the producer', len(puts))
        for c in puts:
            nm = c.args[0].id
            defs = [a for a in walk_local(f.node) if isinstance(a, ast.Assign) and any(isinstance(t, ast.Name) and t.id == nm for t in a.targets)]
            need = {'contents', 'index', 'location', 'counter', 'stream_start', 'stream_end'}
            ok = len(defs) == 1 and isinstance(defs[0].value, ast.Call) and need <= {k.arg for k in defs[0].value.keywords} and isinstance(defs[0].value.func, ast.Name)
            ctx.check(
                ok,
                rule,
                f'{func_label(f)}|chunk-record-built-per-occurrence',
                loc(f, c),
                f'every chunk record handed to the workers is built by the record constructor in this iteration with all per-occurrence fields (counter, stream offsets, index, location, contents)',
                f'the record handed to the workers (`{nm}`) is not freshly constructed with all per-occurrence fields for every occurrence (e.g. a cached record with only the offsets replaced): a repeated chunk keeps a stale counter / offsets and files are assembled in the wrong order',
            )
            # ... and every value that goes into the record was computed for THIS chunk (no value left over from an earlier iteration)
            if ok:
                from .shared import values_fresh_in_iteration

                ctor = defs[0]
                loops = [a for a in ancestors(ctor) if isinstance(a, (ast.For, ast.AsyncFor, ast.While)) and any(x is a for x in ast.walk(f.node))]
                if loops:
                    names = {x.id for k in ctor.value.keywords for x in ast.walk(k.value) if isinstance(x, ast.Name) and isinstance(x.ctx, ast.Load)} | {x.id for a_ in ctor.value.args for x in ast.walk(a_) if isinstance(x, ast.Name)}
                    values_fresh_in_iteration(ctx, rule, f, loops[0], ctor, names - {'self'}, 'chunk producer')


def r1b_traversal_complete(ctx):
    """utils.fs.iterative_scandir reports every regular file under the start directory: whether an entry is descended
    into / yielded depends on the entry's own kind only, never on traversal state (visited sets, counters, names)."""
    corpus = ctx.corpus
    f = corpus.module('fs').functions.get('iterative_scandir')
    if f is None:
        raise AnalysisError('C01.R1: utils.fs.iterative_scandir missing')
    ctx.analysed(f)
    params = {a.arg for a in f.node.args.posonlyargs + f.node.args.args + f.node.args.kwonlyargs}
    loops = [l for l in walk_local(f.node) if isinstance(l, ast.For) and any(isinstance(c, ast.Call) and (dotted(c.func) or '').endswith('scandir') for c in ast.walk(deref(f.node, l.iter))) or (isinstance(l, ast.For) and isinstance(l.iter, ast.Name) and any(isinstance(w, ast.With) and any(isinstance(it.optional_vars, ast.Name) and it.optional_vars.id == l.iter.id and any(isinstance(c, ast.Call) and (dotted(c.func) or '').endswith('scandir') for c in ast.walk(it.context_expr)) for it in w.items) for w in walk_local(f.node)))]
    ctx.floor('C01.R1', 'loop over os.scandir entries in iterative_scandir', len(loops))
    for l in loops:
        evar = l.target.id if isinstance(l.target, ast.Name) else None
        bad = []
        for i in walk_local(f.node):
            if isinstance(i, ast.If):
                names = {n.id for n in ast.walk(i.test) if isinstance(n, ast.Name)}
                calls = [c for c in ast.walk(i.test) if isinstance(c, ast.Call)]
                ok_calls = all(isinstance(c.func, ast.Attribute) and c.func.attr in ('is_dir', 'is_file', 'is_symlink') and isinstance(c.func.value, ast.Name) and c.func.value.id == evar for c in calls)
                if not (names <= ({evar} | params) and ok_calls):
                    bad.append(i)
        ctx.check(
            not bad,
            'C01.R1',
            f'{func_label(f)}|traversal-depends-on-entry-kind-only',
            loc(f, bad[0]) if bad else loc(f, l),
            'iterative_scandir: whether an entry is descended into or reported depends only on the entry being a directory / a file',
            f'iterative_scandir: `{src(bad[0].test, 60) if bad else ""}` makes the traversal depend on more than the kind of the entry (e.g. a visited set): '
            'a directory that is reachable under two names is scanned under one of them only and the files under the other name are neither recorded nor restored',
        )
        skips = [n for n in walk_local(l) if isinstance(n, (ast.Break, ast.Return))]
        ctx.check(not skips, 'C01.R1', f'{func_label(f)}|traversal-no-early-exit', loc(f, skips[0]) if skips else loc(f, l), 'iterative_scandir: the entry loop has no early exit', 'iterative_scandir: the entry loop can stop early: later entries are never reported')


def r11_serialization(ctx):
    from ..report import Relabel
    from .c14 import r3_bytes_tagging

    r3_bytes_tagging(Relabel(ctx, 'C01.R11'))


def run(ctx):
    from .shared import file_digest_covers_stream

    file_digest_covers_stream(ctx, 'C01.R2')
    from .shared import no_swallowed_source_errors

    no_swallowed_source_errors(ctx, 'C01.R7')
    from .shared import leftover_from_finished_loop

    _rs = ctx.corpus.func('repository', 'Repository.restore')
    _sn = ctx.corpus.func('repository', 'Repository.snapshot')
    leftover_from_finished_loop(ctx, 'C01.R3', [_rs, _sn] + list(_rs.all_nested()) + list(_sn.all_nested()), 'restore / snapshot planning')
    from .c14 import final_file_records_complete

    final_file_records_complete(ctx, 'C01.R4')
    # which version of a path is restored is decided by comparing the stored timestamps (one clock, UTC); the recorded
    # modification time is restored from the nanosecond fields, the legacy fields only when those are ABSENT; the chunker
    # carries nothing from one stream to the next
    from ..report import Relabel as _RL1
    from .c10 import r3_stateless as _st
    from .c14 import r4_legacy as _lg, r8_utc_timestamp as _utc

    _utc(_RL1(ctx, 'C01.R8'))
    _lg(_RL1(ctx, 'C01.R8'))
    _st(_RL1(ctx, 'C01.R2'))
    r11_serialization(ctx)
    r1b_traversal_complete(ctx)
    r3b_chunk_record_fresh(ctx)
    p = r1_unique(ctx)
    r2_accounting(ctx, p)
    r3_order_key(ctx)
    r4_fields(ctx)
    r5_non_interference(ctx)
    r6_confinement(ctx)
    r7_coverage(ctx, p)
    r8_metadata_last(ctx)
    r9_plan_pairing(ctx)
    from .c02 import r8_skip_upload_only_on_backend_answer

    r8_skip_upload_only_on_backend_answer(ctx, rule='C01.R10')
    from .c09 import r5b_completion_flag

    r5b_completion_flag(ctx, 'C01.R10')
    from . import shared as _sh1

    _sh1.run_flags_are_per_run(ctx, 'C01.R10')
    _sh1.restore_ignores_target_state(ctx, 'C01.R5')
    # restore takes the newest version of each file from ALL snapshots: every adapter's listing is complete
    from ..report import Relabel as _RL1
    from .c13 import r2_pagination as _pg1

    _pg1(_RL1(ctx, 'C01.R8'))
    from .shared import queue_put_retries_until_done

    queue_put_retries_until_done(ctx, 'C01.R10')
