"""C11 - Chunk boundaries are content-defined and re-synchronise after edits.

Decides locality preconditions only: the cut decision is a function of the
bytes from the current chunk start, the finality flag and the key (purity shared
with C10, no absolute position handed to the native code, buffer always starts
at the last cut); inter-file padding to the chunker alignment computed from the
bytes actually streamed, with Python/C++ alignment agreement; the key reaches
the hash.  Not decided: resynchronisation distance, coincidence of boundaries."""
from __future__ import annotations

import ast

from .. import cxx
from ..astutil import calls_in, dotted, enclosing_stmt, kwarg, src, walk_local
from ..loader import AnalysisError
from ..terms import Evaluator, alts, contains, find, show, strip_sites, walk
from . import c10
from .common import stream_producers, evaluate, func_label, loc

EXPLANATION = (
    'Locality preconditions of content-defined chunking, decided structurally: (C++, clang AST) next_cut/key write no object state and read only their buffer '
    'argument, the finality flag and constructor-set fields; both key fields are operands of the value key() returns and are set from the 16-byte key buffer; '
    '(Python) the adapter hands the native code only (carry-over buffer, finality) - no absolute position - and the buffer always starts at the previous cut (C10.R4); '
    'the adapter is stateless across calls and keyed per call (C10.R3); the stream producer pads between files with (-bytes streamed for the previous file) mod '
    'alignment zero bytes, where alignment is the chunker adapter\'s constant and is a multiple of the native candidate stride. Rules C11.R1-R3.'
    ' Added with the seeded-defect rounds: every file enters the stream once, snapshot cuts with self.props.chunkify only, cache holds snapshot objects only.'
    ' Round 6: the chunker key is the stored chunker_params entry itself; the fixed default replaces an absent key only.'
)
NOT_DECIDED = 'resynchronisation distance, coincidence of boundaries on shared suffixes, key sensitivity (statistical statements about hash values)'
TRUSTED = c10.TRUSTED
ASSUMPTIONS = ['files do not change while they are streamed beyond what the streamed-byte accounting observes']


def r1_inputs(ctx, docs):
    nc = cxx.method(docs, 'next_cut')
    key = cxx.method(docs, 'key')
    for m in (nc, key):
        reads = set(cxx.member_reads(m))
        ok = reads <= {'min_length', 'max_length', 'params', 'k1'}
        ctx.check(ok, 'C11.R1', f'src/adapters.cpp|gclmulchunker::{m["name"]}|reads-only-config', f'src/adapters.cpp:{cxx.line_of(m)}', f'gclmulchunker::{m["name"]} reads only constructor-set fields {sorted(reads)}', f'gclmulchunker::{m["name"]} reads fields {sorted(reads - {"min_length", "max_length", "params", "k1"})} that are not constructor-set configuration')
        w = cxx.member_writes(m)
        ctx.check(not w, 'C11.R1', f'src/adapters.cpp|gclmulchunker::{m["name"]}|no-member-writes', f'src/adapters.cpp:{cxx.line_of(m)}', f'gclmulchunker::{m["name"]} writes no member (a decision does not depend on earlier decisions)', f'gclmulchunker::{m["name"]} writes member {w[0][1] if w else ""}')
    ps = cxx.params(nc)
    ctx.check(len(ps) == 2, 'C11.R1', 'src/adapters.cpp|gclmulchunker::next_cut|signature', f'src/adapters.cpp:{cxx.line_of(nc)}', 'next_cut(buffer, final): no absolute stream position is an input', f'next_cut takes {ps}')
    # no globals / statics referenced
    own = {n.get('id') for n in cxx.walk(nc) if n.get('kind') in ('VarDecl', 'ParmVarDecl', 'BindingDecl', 'DecompositionDecl')}
    glob = [n for n in cxx.walk(nc) if n.get('kind') == 'DeclRefExpr' and n.get('referencedDecl', {}).get('kind') == 'VarDecl' and n['referencedDecl'].get('id') not in own]
    ctx.check(not glob, 'C11.R1', 'src/adapters.cpp|gclmulchunker::next_cut|no-globals', f'src/adapters.cpp:{cxx.line_of(nc)}', 'next_cut references only its locals', f'next_cut references non-local variable {glob[0]["referencedDecl"].get("name") if glob else ""}')
    # Python side: the native call gets exactly (buffer, finality)
    ci, f = c10._call(ctx.corpus)
    cuts = [c for c in calls_in(f.node) if isinstance(c.func, ast.Attribute) and c.func.attr == 'next_cut']
    ctx.floor('C11.R1', 'next_cut call in the adapter', len(cuts))
    for c in cuts:
        w = c.args[0] if c.args else None
        named = isinstance(w, ast.Name) or (isinstance(w, ast.Subscript) and isinstance(w.value, ast.Name) and isinstance(w.slice, ast.Slice) and w.slice.upper is None and w.slice.step is None)
        ctx.check(len(c.args) == 2 and not c.keywords and named, 'C11.R1', f'{func_label(f)}|native-inputs', loc(f, c), 'the adapter hands next_cut only the carry-over buffer and the finality flag', f'next_cut is called with {src(c, 80)}')


def _padding_expr_ok(p, expr):
    ok = False
    why = f'`{src(expr, 100)}`'
    if isinstance(expr, ast.BinOp) and isinstance(expr.op, ast.Mod):
        num, den = expr.left, expr.right
        al_ok = False
        if isinstance(den, ast.Name):
            for n in ast.walk(p.node):
                if isinstance(n, ast.NamedExpr) and isinstance(n.target, ast.Name) and n.target.id == den.id and (dotted(n.value) or '').endswith('chunker.alignment'):
                    al_ok = True
                if isinstance(n, ast.Assign) and any(isinstance(t, ast.Name) and t.id == den.id for t in n.targets) and (dotted(n.value) or '').endswith('chunker.alignment'):
                    al_ok = True
        elif (dotted(den) or '').endswith('chunker.alignment'):
            al_ok = True
        neg = isinstance(num, ast.UnaryOp) and isinstance(num.op, ast.USub)
        inner = num.operand if neg else None
        streamed = isinstance(inner, ast.BinOp) and isinstance(inner.op, ast.Sub) and isinstance(inner.left, ast.Attribute) and inner.left.attr == 'stream_end' and isinstance(inner.right, ast.Attribute) and inner.right.attr == 'stream_start' and dotted(inner.left.value) is not None and dotted(inner.left.value) == dotted(inner.right.value)
        ok = al_ok and neg and streamed
        if not streamed:
            why = f'the padded length is computed from `{src(inner if inner is not None else num, 80)}`, not from the bytes actually streamed for the previous file (its stream_end - stream_start)'
        elif not al_ok:
            why = f'the modulus `{src(den)}` is not the chunker adapter\'s alignment'
    return ok, why


def r2_padding(ctx, docs, stride):
    corpus = ctx.corpus
    snap = corpus.func('repository', 'Repository.snapshot')
    producers = stream_producers(snap)
    ctx.floor('C11.R2', 'stream producer', len(producers))
    p = producers[0]
    ctx.analysed(p)
    pad_yields = [y for y in walk_local(p.node) if isinstance(y, ast.Yield) and isinstance(y.value, ast.Call) and dotted(y.value.func) == 'bytes' and y.value.args]
    ctx.floor('C11.R2', 'padding yield (bytes(n)) in the stream producer', len(pad_yields))
    for y in pad_yields:
        arg = y.value.args[0]
        exprs = [arg]
        if isinstance(arg, ast.Name):
            from ..cfg import reaching_defs

            rd = reaching_defs(p.node, arg) or []
            vals = [d.value for d in rd if isinstance(d, ast.Assign) and len(d.targets) == 1 and isinstance(d.targets[0], ast.Name)]
            if vals and len(vals) == len(rd):
                # a zero-length padding (`return 0` when the chunker has no alignment) inserts nothing
                exprs = [v for v in vals if not (isinstance(v, ast.Constant) and v.value == 0)] or [arg]
        ok = True
        why = ''
        for expr in exprs:
            ok1, why1 = _padding_expr_ok(p, expr)
            if not ok1:
                ok, why = False, why1
        ctx.check(
            ok,
            'C11.R2',
            f'{func_label(p)}|padding-from-streamed-bytes',
            loc(p, enclosing_stmt(y)),
            'between two files (-bytes streamed for the previous file) % chunker.alignment zero bytes are inserted',
            f'inter-file padding: {why}: files after a file whose streamed length differs land off the alignment grid and never re-synchronise (no deduplication)',
        )
    # the padding is yielded when non-zero and only then; guarded by `if alignment`
    ys = [y for y in walk_local(p.node) if isinstance(y, ast.Yield) and isinstance(y.value, ast.Call) and dotted(y.value.func) == 'bytes']
    ctx.check(len(ys) == 1, 'C11.R2', f'{func_label(p)}|one-padding-yield', loc(p, p.node), 'exactly one padding yield', f'{len(ys)} padding yields')
    # stream_end advances by the bytes yielded (shared with C01.R2): checked there; here: stream_start/end fields exist
    # constants agreement
    ci = corpus.cls('adapters', 'gclmulchunker')
    al = ci.consts.get('alignment')
    alv = al.value if isinstance(al, ast.Constant) else None
    ctx.check(isinstance(alv, int) and alv > 0 and alv % stride == 0, 'C11.R2', f'{ci.module.rel}|gclmulchunker|alignment-multiple-of-native-stride', f'{ci.module.rel}:{ci.node.lineno}', f'Python alignment {alv} is a multiple of the native candidate stride {stride}', f'Python alignment {alv} is not a multiple of the native candidate stride {stride}: equal files see different candidate offsets')
    nc = cxx.method(docs, 'next_cut')
    masks = [cxx.expr(n) for n in cxx.walk(nc) if n.get('kind') == 'BinaryOperator' and n.get('opcode') == '&']
    okm = any(m.replace(' ', '').endswith(f'&-{stride})') for m in masks)
    ctx.check(okm, 'C11.R2', 'src/adapters.cpp|gclmulchunker::next_cut|min-length-rounding', f'src/adapters.cpp:{cxx.line_of(nc)}', f'the forced minimum cut is rounded to the stride ({masks})', f'the forced minimum cut is not rounded to a multiple of {stride}: {masks}')


def _is_field(t, name):
    return t[0] == 'attr' and t[2] == name or (t[0] == 'alt' and all(_is_field(x, name) for x in t[1])) or (t[0] not in ('attr', 'alt') and False) or _record_field(t, name)


def _record_field(t, name):
    # after inlining, prev_file.stream_end may be the record's field term; accept terms that are
    # accumulated lengths of yielded data rooted at the stream counter
    return contains(t, lambda y: y[0] == 'attr' and y[2] in ('bytes_with_padding',)) and name in ('stream_end', 'stream_start')


def r3_key(ctx, docs):
    key = cxx.method(docs, 'key')
    reads = set(cxx.member_reads(key))
    ctx.check({'params', 'k1'} <= reads, 'C11.R3', 'src/adapters.cpp|gclmulchunker::key|uses-key-fields', f'src/adapters.cpp:{cxx.line_of(key)}', 'key() combines the data window with both key fields (params, k1)', f'key() reads only {sorted(reads)}: the hash does not depend on the whole key')
    rec = cxx.record(docs)
    ctor = next((c for c in rec.get('inner', []) if c.get('kind') == 'CXXConstructorDecl' and any(x.get('kind') == 'CompoundStmt' for x in c.get('inner', []))), None)
    if ctor is None:
        raise AnalysisError('C11.R3: constructor not found')
    writes = {w[1] for w in cxx.member_writes(ctor)}
    uses_key = any(n.get('kind') == 'DeclRefExpr' and n.get('referencedDecl', {}).get('name') == 'key' for n in cxx.walk(ctor))
    ctx.check({'this.params', 'this.k1'} <= writes and uses_key, 'C11.R3', 'src/adapters.cpp|gclmulchunker::gclmulchunker|key-fields-from-key-buffer', f'src/adapters.cpp:{cxx.line_of(ctor)}', 'the constructor sets params and k1 from the key buffer', f'the constructor sets {sorted(writes)} / does not read the key buffer')
    # Python: params -> 16-byte expansion -> native constructor
    ci, f = c10._call(ctx.corpus)
    ev = Evaluator(ctx.corpus, depth=3)
    ev.run(f)
    nat = [e for e in ev.events if e.callee[0] == 'name' and e.callee[1].endswith('_gclmulchunker')]
    ctx.floor('C11.R3', 'native constructor call', len(nat))
    for e in nat:
        k = e.args[2] if len(e.args) > 2 else None
        ok = k is not None and any(contains(a, lambda y: y == ('param', 'params')) for a in alts(k)) and all(contains(a, lambda y: y == ('param', 'params')) or (a[0] == 'bin' and a[2][0] == 'const') for a in alts(k))
        ctx.check(ok, 'C11.R3', f'{func_label(f)}|key-reaches-native', e.loc, 'the native chunker is keyed, on every call, with the 16-byte expansion of this call\'s `params` (or the fixed default when none is given)', f'the native chunker key is {show(k, limit=100) if k else None}: it does not derive from this call\'s params')
    # the 16-byte expansion only repeats and truncates the caller's key
    pname = 'params'
    bad = []
    for a in ast.walk(f.node):
        tgt = None
        if isinstance(a, ast.Assign) and any(isinstance(t, ast.Name) and t.id == pname for t in a.targets):
            v = a.value
            okv = (
                (isinstance(v, ast.BinOp) and isinstance(v.op, ast.Mult) and isinstance(v.left, ast.Constant) and isinstance(v.left.value, bytes))
                or (isinstance(v, ast.Subscript) and isinstance(v.value, ast.Name) and v.value.id == pname and isinstance(v.slice, ast.Slice) and v.slice.lower is None and isinstance(v.slice.upper, ast.Constant))
                or (isinstance(v, ast.Call) and dotted(v.func) in ('bytes', 'bytearray') and len(v.args) == 1 and isinstance(v.args[0], ast.Name) and v.args[0].id == pname)
            )
            if not okv:
                bad.append(a)
        elif isinstance(a, ast.AugAssign) and isinstance(a.target, ast.Name) and a.target.id == pname:
            if not (isinstance(a.op, ast.Add) and isinstance(a.value, ast.Name) and a.value.id == pname):
                bad.append(a)
        elif isinstance(a, ast.Assign) and any(isinstance(t, ast.Subscript) and isinstance(t.value, ast.Name) and t.value.id == pname for t in a.targets):
            bad.append(a)
    ctx.check(
        not bad,
        'C11.R3',
        f'{func_label(f)}|key-expansion-lossless',
        loc(f, bad[0]) if bad else loc(f, f.node),
        'the chunker key is only repeated / truncated to 16 bytes before it reaches the native code (or replaced by the fixed default when absent)',
        f'the chunker key is rewritten (`{src(bad[0], 60) if bad else ""}`) before it reaches the native code: distinct keys can collapse to the same effective key',
    )
    # the fixed default replaces an ABSENT key only
    for a in ast.walk(f.node):
        if isinstance(a, ast.Assign) and any(isinstance(t, ast.Name) and t.id == pname for t in a.targets) and isinstance(a.value, ast.BinOp) and isinstance(a.value.left, ast.Constant) and isinstance(a.value.left.value, bytes):
            par = getattr(a, '_parent', None)
            okg = False
            if isinstance(par, ast.If) and any(a is x for x in par.body):
                t = par.test
                absent = (isinstance(t, ast.UnaryOp) and isinstance(t.op, ast.Not) and isinstance(t.operand, ast.Name) and t.operand.id == pname) or (
                    isinstance(t, ast.Compare) and len(t.ops) == 1 and isinstance(t.ops[0], ast.Is) and isinstance(t.left, ast.Name) and t.left.id == pname and isinstance(t.comparators[0], ast.Constant) and t.comparators[0].value is None
                )
                okg = absent
            elif isinstance(par, ast.If) and any(a is x for x in par.orelse):
                t = par.test
                okg = (isinstance(t, ast.Name) and t.id == pname) or (
                    isinstance(t, ast.Compare) and len(t.ops) == 1 and isinstance(t.ops[0], ast.IsNot) and isinstance(t.left, ast.Name) and t.left.id == pname and isinstance(t.comparators[0], ast.Constant) and t.comparators[0].value is None
                )
            ctx.check(
                okg,
                'C11.R3',
                f'{func_label(f)}|default-key-only-when-absent',
                loc(f, a),
                'the fixed default chunker key is used only when no key is given',
                f'the fixed default chunker key also replaces keys that were given (guard `{src(par.test, 60) if isinstance(par, ast.If) else "none"}`): distinct keys collapse to the public default - '
                'boundaries no longer depend on the key',
            )
    # chunkify passes the family key (shared with C07.R2)
    ck = ctx.corpus.func('repository', 'RepositoryProps.chunkify')
    ev = Evaluator(ctx.corpus, modes={'encrypted': True}, depth=3)
    r = ev.run(ck)
    ok = any(a[0] == 'call' and dict(a[3]).get('params') is not None and contains(dict(a[3])['params'], lambda y: y == ('const', 'chunker_params')) for a in alts(r))
    ctx.check(ok, 'C11.R3', f'{func_label(ck)}|family-key-passed', loc(ck, ck.node), "chunkify passes private['chunker_params'] as the chunker key", 'chunkify does not pass the family chunker key')
    from ..terms import strip_sites as _ss

    keys = [dict(a[3]).get('params') for a in alts(_ss(r)) if a[0] == 'call']
    exact = bool(keys) and all(k is not None and k[0] == 'sub' and k[2] == ('const', 'chunker_params') and k[1][0] == 'attr' and k[1][2] == 'private' for k in keys)
    ctx.check(
        exact,
        'C11.R3',
        f'{func_label(ck)}|family-key-passed-as-stored',
        loc(ck, ck.node),
        "chunkify: the chunker key is private['chunker_params'] itself - the same bytes for every key of the family",
        f"chunkify: the chunker key is {show(keys[0], limit=120) if keys else None}, not private['chunker_params'] as stored: a key of the family that differs in anything mixed in (the user key, the password) "
        'cuts the same data at other places - data uploaded through a shared key is not reused',
    )


def r4_repository_chunker(ctx, rule='C11.R3'):
    """snapshot() cuts its stream with `self.props.chunkify` - the chunker instantiated from the repository config and the
    key's chunker parameters.  A chunker built inside the command (other lengths for a rate-limited run, a copy of
    props with another chunker) makes the cut points depend on the invocation, not on (data, key): the same data is
    chunked differently from one run to the next."""
    corpus = ctx.corpus
    snap = corpus.func('repository', 'Repository.snapshot')
    n = 0
    for f in [snap] + list(snap.all_nested()):
        for c in calls_in(f.node):
            callee = c.func
            is_chunk_call = (isinstance(callee, ast.Attribute) and callee.attr == 'chunkify') or (isinstance(callee, ast.Name) and 'chunkify' in callee.id)
            if not is_chunk_call:
                continue
            n += 1
            ctx.analysed(f)
            ok = dotted(callee) == 'self.props.chunkify'
            why = f'`{src(callee, 40)}`'
            if isinstance(callee, ast.Name):
                defs = [a for g in [snap] + list(snap.all_nested()) for a in walk_local(g.node) if isinstance(a, ast.Assign) and any(isinstance(t, ast.Name) and t.id == callee.id for t in a.targets)]
                ok = bool(defs) and all(dotted(a.value) == 'self.props.chunkify' for a in defs)
                why = f'`{callee.id}` is bound to {", ".join(sorted({src(a.value, 50) for a in defs}))}'
            ctx.check(
                ok,
                rule,
                f'{func_label(f)}|stream-cut-by-the-repository-chunker',
                loc(f, c),
                'snapshot: the stream is cut by self.props.chunkify',
                f'snapshot: the stream is cut by {why}, which is not (always) the chunker of the repository: cut points depend on the options of this run (rate limit, ...) - unchanged data is cut differently and stored again',
            )
    ctx.floor(rule, 'chunkify call in snapshot', n)
    others = [c for f in [snap] + list(snap.all_nested()) for c in calls_in(f.node) if (isinstance(c.func, ast.Call) and (dotted(c.func.func) or '') == 'type') or ((dotted(c.func) or '').endswith('replace') and kwarg(c, 'chunker') is not None)]
    ctx.check(not others, rule, f'{func_label(snap)}|no-chunker-built-in-the-command', loc(snap, others[0]) if others else loc(snap, snap.node), 'snapshot builds no chunker of its own', f'snapshot builds a chunker of its own (`{src(others[0], 60) if others else ""}`)')


def run(ctx):
    docs = c10._docs(ctx)
    # stride from the candidate loop (re-derived, not assumed)
    nc = cxx.method(docs, 'next_cut')
    fors = [n for n in cxx.walk(nc) if n.get('kind') == 'ForStmt']
    if len(fors) != 1:
        raise AnalysisError('C11: candidate loop not found')
    inc = cxx.strip(fors[0]['inner'][3])
    lit = cxx.strip(inc['inner'][1]) if inc.get('kind') == 'CompoundAssignOperator' else None
    if lit is None or lit.get('kind') != 'IntegerLiteral':
        raise AnalysisError('C11: candidate stride not recognised')
    stride = int(lit['value'])
    r1_inputs(ctx, docs)
    # cut points are a function of (data, key) only: nothing is carried on the adapter from one stream to the next
    c10.r3_stateless(_Relabel(ctx, 'C11.R1'))
    r2_padding(ctx, docs, stride)
    r3_key(ctx, docs)
    from ..report import Relabel as _RL
    from .c06 import r5_key_material

    # every holder of a key of one family chunks with the same key: a shared key copies the private section unchanged
    r5_key_material(_RL(ctx, 'C11.R3'))
    # every file enters the stream once (the padding bookkeeping assumes it), and the stream is cut by the repository's own
    # chunker - the one built from the stored config and key - whatever the options of the command
    from .c01 import r1_unique as _uq

    _uq(_RL(ctx, 'C11.R2'))
    r4_repository_chunker(ctx)
    # the chunker is built from this repository's config on every unlock (the per-user cache holds snapshot objects only)
    from .c18 import r3b_cache_holds_snapshot_objects_only

    r3b_cache_holds_snapshot_objects_only(_RL(ctx, 'C11.R3'))
    c10.r4_prefix(_Relabel(ctx, 'C11.R1'))


class _Relabel:
    def __init__(self, c, rule):
        self._c = c
        self._r = rule

    def __getattr__(self, n):
        return getattr(self._c, n)

    def ok(self, rule, *a):
        return self._c.ok(self._r, *a)

    def fail(self, rule, *a, **k):
        return self._c.fail(self._r, *a, **k)

    def check(self, cond, rule, *a, **k):
        return self._c.check(cond, self._r, *a, **k)

    def floor(self, rule, *a):
        return self._c.floor(self._r, *a)
