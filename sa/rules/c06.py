"""C06 - Access rights follow key relationships.

Decides: unlock preconditions and untransformed password -> KDF, delete refusal
dominance, readers need the private part, tag gates, independent vs shared key
material, no memoisation of key-dependent results.  Not decided: the statement
over whole histories of several users; MAC/AEAD strength."""
from __future__ import annotations

import ast

from ..astutil import deref, body_always_raises, calls_in, dotted, enclosing_stmt, is_within, src, walk_local
from ..cfg import cfg_of, deref_at
from ..loader import AnalysisError
from ..terms import Evaluator, alts, contains, find, show, walk
from . import shared
from .c02 import _is_tag_guard, _loader_chain
from .c08 import _clean_roles
from .common import evaluate, func_label, loc, repo_cls, self_calls
from .gcroles import DeleteRoles

EXPLANATION = (
    'Guard dominance on the CFGs of unlock, delete_snapshots, clean, the snapshot loader and the listing/restore readers (password/key test before key '
    'instantiation; "data is None -> raise" before selection; ownership-tag test before download/selection; "data is not None" before any use of the '
    'private part), provenance of the user key (KDF of the untransformed password and the key file parameters), provenance of the new key material in '
    'add_key per mode (independent: fresh generate_* values; shared: the private section as a whole; encrypted under the key derived from the new '
    'password), absence of caches keyed without the key material. Rules C06.R1-R6.'
    ' Added with the seeded-defect rounds: every emitted key carries the sealed private section, self.props is set by init / unlock only, deletion reachable only from the deleting commands, the loader skip whitelist, one listing row per record.'
    ' Round 6: close() drops the key material on every path, list_snapshots stores a row for every loaded snapshot, complete pagination.'
)
NOT_DECIDED = 'the property over whole histories of several users (dynamic); strength of MAC / AEAD / KDF'
TRUSTED = ['CPython ast', 'AEAD authenticity (a wrong user key makes decrypt raise)']
ASSUMPTIONS = ['exceptions are not swallowed by context managers']


def _false_nodes(cfg, ifn, polarity=False):
    return cfg.nodes_of(ifn, 'true' if polarity else 'false')


def _unencrypted_edges(cfg, ifn):
    """edge nodes of an `if` on which the repository is known to be unencrypted, whatever the spelling of the test
    (`if enc:` -> false edge, `if not enc:` -> true edge, `enc or x` -> false edge, `not enc and x` -> true edge)"""
    def lit(e):
        neg = False
        while isinstance(e, ast.UnaryOp) and isinstance(e.op, ast.Not):
            e, neg = e.operand, not neg
        return ('neg' if neg else 'pos') if isinstance(e, ast.Attribute) and e.attr == 'encrypted' else None

    t = ifn.test
    if lit(t) == 'pos':
        return cfg.nodes_of(ifn, 'false')
    if lit(t) == 'neg':
        return cfg.nodes_of(ifn, 'true')
    if isinstance(t, ast.BoolOp):
        lits = [lit(v) for v in t.values]
        if isinstance(t.op, ast.Or) and 'pos' in lits:
            return cfg.nodes_of(ifn, 'false')
        if isinstance(t.op, ast.And) and 'neg' in lits:
            return cfg.nodes_of(ifn, 'true')
    return []


def r1_unlock(ctx):
    corpus = ctx.corpus
    fn = corpus.func('repository', 'Repository.unlock')
    ctx.analysed(fn)
    cfg = cfg_of(fn.node)
    calls = [enclosing_stmt(c) for c in self_calls(fn.node, {'_instantiate_key'})]
    ctx.floor('C06.R1', 'call of _instantiate_key in unlock', len(calls))
    guards = []
    for n in walk_local(fn.node):
        if isinstance(n, ast.If) and body_always_raises(n.body):
            names = set()
            for c in ast.walk(n.test):
                if isinstance(c, ast.Compare) and len(c.ops) == 1 and isinstance(c.ops[0], ast.Is) and isinstance(c.comparators[0], ast.Constant) and c.comparators[0].value is None and isinstance(c.left, ast.Name):
                    names.add(c.left.id)
            if {'password', 'key'} <= names and isinstance(n.test, ast.BoolOp) and isinstance(n.test.op, ast.Or):
                guards.append(n)
    for st in calls:
        g = [x for n in guards for x in _false_nodes(cfg, n)]
        ok = bool(g) and all(cfg.set_dominates(g, x) for x in cfg.nodes_of(st, 'stmt'))
        ctx.check(
            ok,
            'C06.R1',
            f'{func_label(fn)}|password-and-key-required',
            loc(fn, st),
            'unlock: key instantiation is reachable only when both password and key are given (otherwise raises)',
            'unlock: _instantiate_key is reachable without the `password is None or key is None -> raise` test',
        )
    ik = corpus.func('repository', 'Repository._instantiate_key')
    ctx.analysed(ik)
    ev = Evaluator(corpus, depth=5)
    r = ev.run(ik)
    ok_u = ok_p = False
    why = show(r, limit=200)
    for a in alts(r):
        if a[0] != 'dict':
            continue
        d = {k[1]: v for k, v in a[1] if k[0] == 'const'}
        uk = d.get('userkey')
        if uk and uk[0] == 'call' and uk[1][0] == 'attr' and uk[1][2] == 'derive':
            args, kw = uk[2], dict(uk[3])
            pw_ok = args and args[0] == ('param', 'password')
            params_ok = kw.get('params') == ('sub', ('param', 'key'), ('const', 'kdf_params'))
            kdf_from_key = contains(uk[1][1], lambda y: y == ('sub', ('param', 'key'), ('const', 'kdf')))
            ok_u = bool(pw_ok and params_ok and kdf_from_key)
            if not pw_ok:
                why = f'the KDF input is {show(args[0], limit=100) if args else "<none>"}, not the caller\'s password unchanged'
        pv = d.get('private')
        if pv is not None:
            dec = find(pv, lambda y: y[0] == 'call' and y[1][0] == 'attr' and y[1][2] == 'decrypt')
            ok_p = any(x[2] and x[2][0] == ('sub', ('param', 'key'), ('const', 'private')) and len(x[2]) > 1 and x[2][1] == uk for x in dec)
    ctx.check(
        ok_u,
        'C06.R1',
        f'{func_label(ik)}|userkey-is-kdf-of-password',
        loc(ik, ik.node),
        "user key = KDF(key['kdf']).derive(<password, unchanged>, params=key['kdf_params'])",
        f'user key derivation changed: {why} - different passwords may unlock the same key',
    )
    ctx.check(
        ok_p,
        'C06.R1',
        f'{func_label(ik)}|private-decrypted-under-userkey',
        loc(ik, ik.node),
        "the private section is cipher.decrypt(key['private'], <that user key>)",
        'the private section is not decrypted under the password-derived user key',
    )
    # no absorbing handler around the decrypt
    bad = [t for t in walk_local(ik.node) if isinstance(t, ast.Try)]
    ctx.check(not bad, 'C06.R1', f'{func_label(ik)}|no-handler-around-private-decrypt', loc(ik, ik.node), '_instantiate_key has no try/except: a failed authentication of the private section propagates', '_instantiate_key wraps its work in try/except: a failed authentication may be absorbed')


def r2_delete_refusal(ctx):
    corpus = ctx.corpus
    roles = DeleteRoles(corpus)
    fn, cfg = roles.fn, roles.cfg
    ctx.analysed(fn)
    sub = roles.subtraction()
    D = sub[1] if sub else roles.chunk_delete_set_name()
    sel = roles.chunks_updates(D) if D else []
    # additions to the snapshot-location set
    for n in walk_local(roles.loop):
        if isinstance(n, ast.Call) and isinstance(n.func, ast.Attribute) and n.func.attr == 'add' and n.args and isinstance(n.args[0], ast.Name) and n.args[0].id == roles.path_var:
            sel.append(enclosing_stmt(n))
    ctx.floor('C06.R2', 'selection statements in delete_snapshots', len(sel), 2)
    refusals = []
    for n in walk_local(roles.loop):
        if isinstance(n, ast.If) and body_always_raises(n.body):
            t = n.test
            for c in ast.walk(t):
                if isinstance(c, ast.Compare) and len(c.ops) == 1 and isinstance(c.ops[0], ast.Is) and isinstance(c.comparators[0], ast.Constant) and c.comparators[0].value is None:
                    left = deref(fn.node, c.left)
                    if isinstance(left, ast.Subscript) and isinstance(left.value, ast.Name) and left.value.id == roles.body_var and isinstance(left.slice, ast.Constant) and left.slice.value == 'data':
                        refusals.append(n)
    for st in sel:
        g = [x for n in refusals for x in _false_nodes(cfg, n)]
        ok = bool(g) and all(cfg.set_dominates(g, x) for x in cfg.nodes_of(st, 'stmt'))
        ctx.check(
            ok,
            'C06.R2',
            f'{func_label(fn)}|refusal-dominates-selection',
            loc(fn, st),
            "delete: a snapshot is selected only after the `body['data'] is None -> raise` refusal was passed",
            "delete: a snapshot whose private data cannot be decrypted (another user's) can be selected for deletion, or the refusal no longer raises",
        )


def r3_readers(ctx):
    corpus = ctx.corpus
    # restore
    fn = corpus.func('repository', 'Repository.restore')
    ctx.analysed(fn)
    ok = False
    for n in walk_local(fn.node):
        if isinstance(n, (ast.ListComp, ast.GeneratorExp)) and any(any(True for _ in self_calls(g.iter, {'_load_snapshots'})) or (isinstance(g.iter, ast.Name)) for g in n.generators):
            for g in n.generators:
                for i in g.ifs:
                    if _is_data_not_none(i):
                        ok = True
    if not ok:
        # loop idiom: every statement of the loading loop that touches the loaded body sits behind the
        # "body['data'] is not None" edge of a test on that body (`if .. is None: continue` / `if .. is not None: <use>`)
        rcfg = cfg_of(fn.node)
        for lp in walk_local(fn.node):
            if not isinstance(lp, (ast.For, ast.AsyncFor)):
                continue
            it = deref_at(fn.node, lp.iter) if isinstance(lp.iter, ast.Name) else lp.iter
            if not any(True for _ in self_calls(it, {'_load_snapshots'})):
                continue
            bvar = lp.target.elts[1].id if isinstance(lp.target, ast.Tuple) and len(lp.target.elts) == 2 and isinstance(lp.target.elts[1], ast.Name) else None
            if bvar is None:
                continue
            good = []
            guards_ = []
            for i in walk_local(lp):
                if isinstance(i, ast.If):
                    t, neg = i.test, False
                    while isinstance(t, ast.UnaryOp) and isinstance(t.op, ast.Not):
                        t, neg = t.operand, not neg
                    if isinstance(t, ast.Compare) and len(t.ops) == 1 and isinstance(t.comparators[0], ast.Constant) and t.comparators[0].value is None and isinstance(t.left, ast.Subscript) and isinstance(t.left.value, ast.Name) and t.left.value.id == bvar and isinstance(t.left.slice, ast.Constant) and t.left.slice.value == 'data':
                        isnot = isinstance(t.ops[0], (ast.IsNot, ast.NotEq))
                        if isinstance(t.ops[0], (ast.Is, ast.Eq, ast.IsNot, ast.NotEq)):
                            good += rcfg.nodes_of(i, 'true' if isnot != neg else 'false')
                            guards_.append(i)
            users = [st for st in walk_local(lp) if isinstance(st, ast.stmt) and not isinstance(st, (ast.If, ast.For, ast.AsyncFor, ast.While, ast.With, ast.AsyncWith, ast.Try)) and any(isinstance(x, ast.Name) and x.id == bvar for x in ast.walk(st))]
            if guards_ and users and all(rcfg.set_dominates(good, x) for st in users for x in rcfg.nodes_of(st, 'stmt')):
                ok = True
    ctx.check(ok, 'C06.R3', f'{func_label(fn)}|restore-needs-private-part', loc(fn, fn.node), 'restore uses only snapshots whose private data decrypted (`data is not None` filter)', 'restore no longer filters out snapshots whose private data is None (another key)')
    # list_files
    lf = corpus.func('repository', 'Repository.list_files')
    ctx.analysed(lf)
    cfg = cfg_of(lf.node)
    guards = [n for n in walk_local(lf.node) if isinstance(n, ast.If) and _is_data_none(n.test, allow_name=True) and any(isinstance(s, (ast.Continue, ast.Return, ast.Raise)) for s in n.body)]
    uses = [n for n in walk_local(lf.node) if isinstance(n, (ast.For,)) and isinstance(n.iter, ast.Subscript) and isinstance(n.iter.slice, ast.Constant) and n.iter.slice.value == 'files']
    ctx.floor('C06.R3', "list_files: loop over data['files']", len(uses))
    for u in uses:
        g = [x for n in guards for x in _false_nodes(cfg, n)]
        okk = bool(g) and all(cfg.set_dominates(g, x) for x in cfg.nodes_of(u, 'stmt'))
        ctx.check(okk, 'C06.R3', f'{func_label(lf)}|list-files-needs-private-part', loc(lf, u), 'list_files touches the file list only after `data is None -> continue`', 'list_files reads the file list of a snapshot whose private data may be None')
    # list_snapshots formatters
    ls = corpus.func('repository', 'Repository.list_snapshots')
    cls = repo_cls(corpus)
    from .common import listing_getter_roles

    DATA = listing_getter_roles(corpus, 'list_snapshots').get('data', 'data')
    getters = []
    for n in walk_local(ls.node):
        if isinstance(n, ast.Dict):
            for v in n.values:
                if isinstance(v, ast.Attribute) and isinstance(v.value, ast.Name) and v.value.id == 'self':
                    m = corpus.method(cls, v.attr)
                    if m is not None and DATA in [a.arg for a in m.node.args.kwonlyargs + m.node.args.args]:
                        getters.append(m)
    ctx.floor('C06.R3', 'snapshot column formatters', len(getters), 3)
    for m in getters:
        ctx.analysed(m)
        ctx.check(
            _data_guarded(m.node, DATA),
            'C06.R3',
            f'{func_label(m)}|formatter-guards-missing-data',
            loc(m, m.node),
            f'{m.name}: every use of `data` is guarded by `data is None` / `data and ...`',
            f'{m.name}: uses `data` without a None guard - listing a snapshot of another key would fail or leak',
        )


def _is_data_not_none(t):
    return (
        isinstance(t, ast.Compare)
        and len(t.ops) == 1
        and isinstance(t.ops[0], ast.IsNot)
        and isinstance(t.comparators[0], ast.Constant)
        and t.comparators[0].value is None
        and isinstance(t.left, ast.Subscript)
        and isinstance(t.left.slice, ast.Constant)
        and t.left.slice.value == 'data'
    )


def _is_data_none(t, allow_name=False):
    if not (isinstance(t, ast.Compare) and len(t.ops) == 1 and isinstance(t.ops[0], ast.Is) and isinstance(t.comparators[0], ast.Constant) and t.comparators[0].value is None):
        return False
    left = t.left.value if isinstance(t.left, ast.NamedExpr) else t.left
    if isinstance(left, ast.Subscript) and isinstance(left.slice, ast.Constant) and left.slice.value == 'data':
        return True
    return allow_name and isinstance(left, ast.Name) and 'data' in left.id


def _data_guarded(fnode, DATA='data') -> bool:
    """Every Load of the parameter `data` that is not itself the guard is in the right operand of
    `data and ...` or is reached only through a "data is not None" edge of the CFG (guard clause
    `if data is None: return`, positive `if data is not None:`, truthiness tests)."""
    cfg = cfg_of(fnode)
    nonnull = []
    for st in walk_local(fnode):
        if isinstance(st, ast.If):
            t = st.test
            neg = False
            if isinstance(t, ast.UnaryOp) and isinstance(t.op, ast.Not):
                t, neg = t.operand, True
            if isinstance(t, ast.Name) and t.id == DATA:
                nonnull += cfg.nodes_of(st, 'false' if neg else 'true')
            elif isinstance(t, ast.Compare) and len(t.ops) == 1 and isinstance(t.left, ast.Name) and t.left.id == DATA and isinstance(t.comparators[0], ast.Constant) and t.comparators[0].value is None:
                if isinstance(t.ops[0], (ast.Is, ast.Eq)):
                    nonnull += cfg.nodes_of(st, 'true' if neg else 'false')
                elif isinstance(t.ops[0], (ast.IsNot, ast.NotEq)):
                    nonnull += cfg.nodes_of(st, 'false' if neg else 'true')
    for n in ast.walk(fnode):
        if isinstance(n, ast.Name) and n.id == DATA and isinstance(n.ctx, ast.Load):
            par = getattr(n, '_parent', None)
            # guard positions
            if isinstance(par, ast.BoolOp) and isinstance(par.op, ast.And) and par.values[0] is n:
                continue
            if isinstance(par, ast.Compare) and par.left is n and isinstance(par.ops[0], (ast.Is, ast.IsNot, ast.Eq, ast.NotEq)):
                continue
            if isinstance(par, ast.If) and par.test is n:
                continue
            if isinstance(par, ast.UnaryOp) and isinstance(par.op, ast.Not):
                continue
            if isinstance(par, ast.Return) and par.value is n:
                continue  # handing the (missing) value back is not a use of its contents
            ok = False
            cur = n
            while cur is not None and cur is not fnode:
                p = getattr(cur, '_parent', None)
                if isinstance(p, ast.BoolOp) and isinstance(p.op, ast.And) and p.values and isinstance(p.values[0], ast.Name) and p.values[0].id == DATA and cur is not p.values[0]:
                    ok = True
                if isinstance(p, ast.IfExp) and cur is p.body and isinstance(p.test, ast.Compare) and isinstance(p.test.left, ast.Name) and p.test.left.id == DATA and isinstance(p.test.ops[0], ast.IsNot):
                    ok = True
                cur = p
            if not ok and nonnull:
                st = enclosing_stmt(n)
                nodes = cfg.nodes_of(st, ('stmt', 'test'))
                ok = bool(nodes) and all(cfg.set_dominates(nonnull, x) for x in nodes)
            if not ok:
                return False
    return True


def r4_tag_gate(ctx):
    corpus = ctx.corpus
    ls, entries, chain = _loader_chain(corpus)
    for f in entries:
        ctx.analysed(f)
        cfg = cfg_of(f.node)
        dl = [enclosing_stmt(c) for c in self_calls(f.node, {'_download_snapshot_threadsafe', '_download_threadsafe', '_download', '_get_cached'})]
        ctx.floor('C06.R4', 'download call in the loader entry', len(dl))
        from .guards import guard_edges

        _skip, tag_pass, tag_found = guard_edges(f.node, kinds=('tag',))
        for st in dl:
            ok = bool(tag_pass) and all(cfg.set_dominates(tag_pass, x) for x in cfg.nodes_of(st, 'stmt'))
            ctx.check(
                ok,
                'C06.R4',
                f'{func_label(f)}|tag-test-dominates-load',
                loc(f, st),
                'snapshot loader: download / cache read is reachable only after the ownership-tag test passed',
                'snapshot loader: a snapshot can be read (from the backend or the cache) without passing the ownership-tag test - snapshots of other key families are loaded',
            )
        # in encrypted mode the guard must actually test the tag: it may only be combined with the `encrypted` flag
        for n, c in tag_found:
            ctx.check(c['exact'], 'C06.R4', f'{func_label(f)}|tag-test-unconditional-when-encrypted', loc(f, n), 'the tag test is applied whenever the repository is encrypted', f'the tag test is weakened by an extra condition: {src(n.test, 80)}')
    # cache reads elsewhere in the chain must also sit behind the gate: _get_cached is called only by functions reached from the gated call
    cls = repo_cls(corpus)
    for m in cls.methods.values():
        for c in self_calls(m.node, {'_get_cached'}, local=False):
            ctx.check(
                m in chain,
                'C06.R4',
                f'{func_label(m)}|cache-read-behind-tag-gate',
                loc(m, c),
                f'{m.name}: cache reads happen only inside the loader chain (behind the tag gate)',
                f'{m.name} reads the snapshot cache outside the tag-gated loader chain',
            )
    fn, loop, var, adds = _clean_roles(corpus)
    cfg = cfg_of(fn.node)
    enc_ifs = [n for n in walk_local(loop) if isinstance(n, ast.If) and any(isinstance(a, ast.Attribute) and a.attr == 'encrypted' for a in ast.walk(n.test))]
    from .guards import guard_edges

    _skip, tag_pass, tag_found = guard_edges(fn.node, kinds=('tag',), within=loop)
    for a in adds:
        st = enclosing_stmt(a)
        # reached only with a verified tag, or (not encrypted) through the false edge of an `if encrypted:` that holds the test
        g = list(tag_pass)
        g += [x for n in enc_ifs if not any(n is t for t, _c in tag_found) for x in _unencrypted_edges(cfg, n)]
        ok = bool(tag_found) and all(cfg.set_dominates(g, x) for x in cfg.nodes_of(st, 'stmt'))
        ctx.check(
            ok,
            'C06.R4',
            f'{func_label(fn)}|tag-test-dominates-chunk-selection',
            loc(fn, st),
            'clean [encrypted]: a chunk is selected for deletion only after its ownership tag verified',
            "clean: in an encrypted repository a chunk can be selected for deletion without its ownership tag having been verified - another key family's chunks are removed",
        )


def r5_key_material(ctx):
    corpus = ctx.corpus
    fn = corpus.func('repository', 'Repository.add_key')
    ctx.analysed(fn, *[corpus.func('repository', q) for q in ('Repository._add_key', 'Repository._make_key') if corpus.has_func('repository', q)])
    for shared_mode in (False, True):
        ev = Evaluator(corpus, modes={'encrypted': True, 'shared': shared_mode}, depth=6, nonnull={'password'})
        r = ev.run(fn)
        ctx.count('terms_built', ev.terms_built)
        encs = []
        for e in ev.events:
            c = e.callee
            if c[0] == 'attr' and c[2] == 'encrypt' and len(e.args) >= 2 and e.func is not None and e.func.name in ('encrypt',):
                encs.append(e)
        ctx.floor('C06.R5', f'private-section encryption in add_key [shared={shared_mode}]', len(encs))
        for e in encs:
            payload, key = e.args[0], e.args[1]
            site = e.loc
            props_private = lambda y: y[0] == 'attr' and y[2] == 'private' and y[1][0] == 'attr' and y[1][2] == 'props'
            if shared_mode:
                ok = contains(payload, props_private) and not contains(payload, lambda y: y[0] == 'call' and y[1][0] == 'attr' and y[1][2].startswith('generate_') and y[1][2] != 'generate_derivation_params')
                ctx.check(ok, 'C06.R5', f'{func_label(fn)}|shared-key-copies-private-section', site, 'shared key: the encrypted private section is self.props.private as a whole', f'shared key: private section is not the caller\'s private section: {show(payload, limit=160)}')
            else:
                gens = {y[1][2] for y in find(payload, lambda y: y[0] == 'call' and y[1][0] == 'attr' and y[1][2].startswith('generate_'))}
                need = {'generate_key', 'generate_mac_params', 'generate_chunking_params', 'generate_derivation_params'}
                ok = need <= gens and not contains(payload, props_private)
                ctx.check(
                    ok,
                    'C06.R5',
                    f'{func_label(fn)}|independent-key-copies-no-secret',
                    site,
                    'independent key: every secret of the private section is freshly generated; nothing derives from the caller\'s private section',
                    f'independent key: the new private section derives from the caller\'s secrets or lacks fresh material (generated: {sorted(gens)})',
                )
            # encrypted under the key derived from the NEW password and the new key's own KDF params
            kd = find(key, lambda y: y[0] == 'call' and y[1][0] == 'attr' and y[1][2] == 'derive')
            ok = any(x[2] and x[2][0] == ('param', 'password') and contains(dict(x[3]).get('params', ('opaque', '')), lambda y: y[0] == 'call' and y[1][0] == 'attr' and y[1][2] == 'generate_derivation_params') for x in kd)
            ctx.check(
                ok,
                'C06.R5',
                f'{func_label(fn)}|new-key-encrypted-under-own-password',
                site,
                f'[shared={shared_mode}] the new private section is encrypted under KDF(new password, new kdf_params)',
                f'the new private section is encrypted under {show(key, limit=140)} - not the key derived from the new password',
            )


def r8_session_key_fixed(ctx):
    """The key material a session works with (self.props) is established by init / unlock only.  A command that
    builds another key (add_key) must not install that key's material as the session's own: the rest of the session
    would read, write and garbage-collect under another key family than the one the user unlocked."""
    corpus = ctx.corpus
    cls = repo_cls(corpus)
    n = 0
    for m in list(cls.methods.values()) + [x for mm in cls.methods.values() for x in mm.all_nested()]:
        for a in walk_local(m.node):
            tg = []
            if isinstance(a, ast.Assign):
                tg = a.targets
            elif isinstance(a, (ast.AugAssign, ast.AnnAssign)):
                tg = [a.target]
            for t in tg:
                for x in ast.walk(t):
                    if isinstance(x, ast.Attribute) and x.attr == 'props' and isinstance(x.value, ast.Name) and x.value.id == 'self' and isinstance(x.ctx, ast.Store):
                        n += 1
                        top = m
                        while top.parent is not None:
                            top = top.parent
                        ctx.check(
                            top.name in ('init', 'unlock', '__init__'),
                            'C06.R8',
                            f'{func_label(m)}|session-key-set-only-by-init-and-unlock',
                            loc(m, a),
                            f'{top.name}: establishes the session key material (self.props)',
                            f'{top.name} replaces the session key material (`{src(a, 60)}`): after it the session uses another key than the one that was unlocked - e.g. after add-key every later '
                            "command of the same process reads / deletes under the NEW key's family",
                        )
    ctx.floor('C06.R8', 'stores to self.props', n, 2)


def r6_no_key_independent_cache(ctx):
    corpus = ctx.corpus
    cls = repo_cls(corpus)
    n = 0
    for m in cls.methods.values():
        names = m.decorator_names()
        cached = [x for x in names if x.rsplit('.', 1)[-1] in ('lru_cache', 'cache', 'cached_property', 'memoize')]
        if not cached:
            continue
        n += 1
        reads_props = any(isinstance(a, ast.Attribute) and a.attr == 'props' and isinstance(a.value, ast.Name) and a.value.id == 'self' for a in ast.walk(m.node))
        ctx.check(
            not reads_props,
            'C06.R6',
            f'{func_label(m)}|no-memoisation-of-key-dependent-results',
            loc(m, m.node),
            f'{m.name} is memoised ({cached[0]}) and does not depend on the unlocked key material',
            f'{m.name} is memoised ({cached[0]}) but its result depends on self.props (key material): results computed under one key are served after unlocking another',
        )
    ctx.count('memoised_methods', n)


def r7_shared(ctx):
    from ..report import Relabel
    from .c14 import r5_no_stale_key_state
    from .c15 import r2_order
    from .c17 import r6_kdf_passthrough, r5_new_key

    r5_no_stale_key_state(Relabel(ctx, 'C06.R6'))
    r6_kdf_passthrough(Relabel(ctx, 'C06.R1'))
    r2_order(Relabel(ctx, 'C06.R3'))


def r10_close_forgets_the_keys(ctx):
    """close() is what ends a session: afterwards the object holds no key material, whatever happens while the backend
    is shut down.  `del self.props` is reached on every path through close(), including the one on which the backend's
    close raises - otherwise a later unlock with the wrong password fails but leaves the old keys usable."""
    corpus = ctx.corpus
    f = corpus.func('repository', 'Repository.close')
    ctx.analysed(f)
    cfg = cfg_of(f.node)
    dels = [d for d in walk_local(f.node) if isinstance(d, ast.Delete) and any(isinstance(t, ast.Attribute) and t.attr == 'props' for t in d.targets)]
    dels += [a for a in walk_local(f.node) if isinstance(a, ast.Assign) and any(isinstance(t, ast.Attribute) and t.attr == 'props' for t in a.targets)]
    ctx.floor('C06.R8', 'statement in close() that drops self.props', len(dels))
    dn = [x for d in dels for x in cfg.nodes_of(d, ('stmt', 'ok'))]
    skip = cfg.path(cfg.entry, [cfg.exit, cfg.raise_exit], avoid=dn)
    ctx.check(
        skip is None,
        'C06.R8',
        f'{func_label(f)}|close-always-forgets-the-keys',
        loc(f, dels[0]),
        'close: self.props is dropped on every path, also when closing the backend fails',
        'close: the method can end (e.g. with the exception of the backend\'s close) without having dropped self.props: the key material of the session stays on the object - '
        'after a failed unlock with another password the old keys still restore, list and mint shared keys',
    )


def run(ctx):
    from .shared import zip_alignment

    zip_alignment(ctx, 'C06.R4', ctx.corpus.func('repository', 'Repository.clean'), 'clean')
    from ..report import Relabel
    from .c02 import r1_keep_set
    from .gcroles import DeleteRoles

    # deleting one's own snapshot never removes chunks that snapshots of other users (same key family) still reference
    r1_keep_set(Relabel(ctx, 'C06.R7'), DeleteRoles(ctx.corpus))
    r8_session_key_fixed(ctx)
    r10_close_forgets_the_keys(ctx)
    # a shared-key user's clean keeps what the others' snapshots reference: the listing it judges by is complete
    from ..report import Relabel as _RL6
    from .c13 import r2_pagination as _pg6

    _pg6(_RL6(ctx, 'C06.R7'))
    # a shared-key user sees that the others' snapshots exist
    from .c15 import r2b_every_loaded_snapshot_is_listed

    r2b_every_loaded_snapshot_is_listed(ctx, 'C06.R5')
    from .shared import deletion_confined_to_gc_commands

    # a user can not cause the removal of another user's chunks: only delete / clean remove anything, and those are gated below
    deletion_confined_to_gc_commands(ctx, 'C06.R9')
    # a shared-key holder sees that the other's snapshots exist and keeps their chunks: the loader drops a listed snapshot
    # only for the user filter or a foreign tag - "cannot read the private part" is not a reason to drop it
    from .c02 import r3_skip_whitelist as _sw

    _sw(Relabel(ctx, 'C06.R4'))
    r7_shared(ctx)
    r1_unlock(ctx)
    # "a wrong password never unlocks": a key whose private section is not sealed unlocks with ANY password
    # (_instantiate_key takes a non-bytes private section as it is), so every emitted key must carry the sealed section
    from .c17 import r7_emitted_key_encrypted

    r7_emitted_key_encrypted(Relabel(ctx, 'C06.R1'))
    r2_delete_refusal(ctx)
    r3_readers(ctx)
    r4_tag_gate(ctx)
    r5_key_material(ctx)
    r6_no_key_independent_cache(ctx)
