"""Normalisation of provenance terms into the vocabulary of the documented
repository scheme (README "High-level technical details"), used by C05 and C14.

  Hash(x)      props.hasher.digest(x)
  Mac(x)       props.authenticator.mac(x, params=private['mac_params'])
  Kdf(ctx)     props.shared_kdf.derive(private['shared_key'], context=ctx, params=private['shared_kdf_params'])
  Enc(x, k)    props.cipher.encrypt(x, k)        Dec(x, k)  props.cipher.decrypt(x, k)
  UserKey      props.userkey
  Ser(x)       bytes(json.dumps(x, separators=(',', ':'), default=<hook>), 'ascii')
  Deser(x)     json.loads(x, object_hook=<hook>)
  hex(x) / fromhex(x) / Join(parts) / Slice(x, lo, hi)
"""
from __future__ import annotations

from ..terms import NONE, alt, alts, strip_sites


def _is_props(t):
    return t[0] == 'attr' and t[2] == 'props' or t[0] == 'param' and t[1] in ('self', 'props') or t[0] == 'record' and t[1].endswith('RepositoryProps') or t[0] == 'self' and t[1].endswith('RepositoryProps')


def _props_field(t, name):
    return t[0] == 'attr' and t[2] == name and _is_props(t[1])


def _private(t, key):
    return t[0] == 'sub' and t[2] == ('const', key) and _props_field(t[1], 'private')


def _is_adapter(t):
    if t[0] == 'adapter':
        return True
    if t[0] == 'alt':
        xs = [x for x in t[1] if x != NONE]
        return bool(xs) and all(_is_adapter(x) for x in xs)
    return False


def norm(t):
    """Scheme normal form of a term (structure-preserving on everything else)."""
    t = strip_sites(t)
    return _n(t)


_N_CACHE = {}


def _n(t):
    if not isinstance(t, tuple) or not t:
        return t
    hit = _N_CACHE.get(id(t))
    if hit is not None and hit[0] is t:
        return hit[1]
    r = _n_uncached(t)
    if len(_N_CACHE) > 400000:
        _N_CACHE.clear()
    _N_CACHE[id(t)] = (t, r)
    return r


def _n_uncached(t):
    k = t[0]
    if k == 'alt':
        return ('alt', frozenset(_n(x) for x in t[1]))
    if k == 'call':
        f, args, kw = t[1], t[2], dict(t[3])
        if f[0] == 'attr':
            recv, m = f[1], f[2]
            if m == 'digest' and len(args) == 1 and _props_field(recv, 'hasher'):
                return ('Hash', _n(args[0]))
            if m == 'mac' and len(args) == 1 and _props_field(recv, 'authenticator'):
                p = kw.get('params')
                if p is not None and _private(p, 'mac_params'):
                    return ('Mac', _n(args[0]))
                return ('MacX', _n(args[0]), _n(p) if p else None)
            if m == 'derive' and _props_field(recv, 'shared_kdf'):
                ok = len(args) == 1 and _private(args[0], 'shared_key') and kw.get('params') is not None and _private(kw['params'], 'shared_kdf_params')
                ctx = kw.get('context', NONE)
                return ('Kdf', _n(ctx)) if ok else ('KdfX', tuple(_n(a) for a in args), tuple((a, _n(b)) for a, b in sorted(kw.items())))
            if m == 'encrypt' and len(args) == 2 and (_props_field(recv, 'cipher') or _is_adapter(recv)):
                return ('Enc', _n(args[0]), _n(args[1]))
            if m == 'decrypt' and len(args) == 2 and _props_field(recv, 'cipher'):
                return ('Dec', _n(args[0]), _n(args[1]))
            if m == 'hex' and not args:
                return ('hex', _n(recv))
            if m == 'join' and recv == ('const', '/') and len(args) == 1 and args[0][0] == 'seq':
                return ('Join',) + tuple(_n(a) for a in args[0][2])
        if f == ('name', 'bytes.fromhex') and len(args) == 1:
            return ('fromhex', _n(args[0]))
        if f == ('name', 'posixpath.join'):
            return ('Join',) + tuple(_n(a) for a in args)
        if f == ('name', 'bytes') and len(args) == 2 and args[1] == ('const', 'ascii') and args[0][0] == 'call' and args[0][1] == ('name', 'json.dumps'):
            d = args[0]
            dkw = dict(d[3])
            sep = dkw.get('separators')
            compact = sep is not None and sep[0] == 'seq' and sep[2] == (('const', ','), ('const', ':'))
            hook = dkw.get('default')
            hooked = hook is not None and hook[0] in ('bound', 'func', 'attr')
            extra = set(dkw) - {'separators', 'default'}
            if compact and hooked and not extra and len(d[2]) == 1:
                return ('Ser', _n(d[2][0]))
            return ('SerX', _n(d[2][0]) if d[2] else None, tuple(sorted(dkw)))
        if f == ('name', 'json.loads') and len(args) == 1:
            return ('Deser', _n(args[0]))
        return ('call', _n(f), tuple(_n(a) for a in args), tuple((a, _n(b)) for a, b in t[3]))
    if k == 'attr':
        if _props_field(t, 'userkey'):
            return ('UserKey',)
        return ('attr', _n(t[1]), t[2])
    if k == 'sub':
        if t[2][0] == 'slice':
            return ('Slice', _n(t[1]), t[2][1], t[2][2])
        return ('sub', _n(t[1]), _n(t[2]))
    if k == 'fstr':
        return ('Fstr',) + tuple(_n(p[1]) if p[0] == 'fmt' else _n(p) for p in t[1])
    if k in ('dict',):
        return ('dict', tuple((_n(a), _n(b)) for a, b in t[1]))
    if k == 'seq':
        return ('seq', t[1], tuple(_n(x) for x in t[2]))
    if k in ('upd',):
        return ('upd', _n(t[1]), _n(t[2]), _n(t[3]))
    if k in ('const', 'param', 'name', 'self', 'func', 'closure', 'class', 'opaque', 'lambda', 'module'):
        return t
    return tuple(_n(x) if isinstance(x, tuple) else x for x in t)


def expected_chunk_location(tag, name, chunk_prefix):
    return ('Join', ('const', chunk_prefix), ('Slice', tag, NONE, ('const', 2)), ('Slice', tag, ('const', 2), ('const', 4)), ('Fstr', ('Slice', tag, ('const', 4), NONE), ('const', '-'), name))


def expected_snapshot_location(tag, name, snapshot_prefix):
    return ('Join', ('const', snapshot_prefix), ('Slice', tag, NONE, ('const', 2)), ('Fstr', ('Slice', tag, ('const', 2), NONE), ('const', '-'), name))


def nshow(t, d=0):
    if d > 10:
        return '…'
    if not isinstance(t, tuple) or not t:
        return repr(t)
    k = t[0]
    if k in ('Hash', 'Mac', 'Kdf', 'hex', 'fromhex', 'Ser', 'Deser'):
        return f'{k}({nshow(t[1], d + 1)})'
    if k in ('Enc', 'Dec'):
        return f'{k}({nshow(t[1], d + 1)}, {nshow(t[2], d + 1)})'
    if k == 'UserKey':
        return 'UserKey'
    if k == 'Join':
        return 'Join(' + ', '.join(nshow(x, d + 1) for x in t[1:]) + ')'
    if k == 'Fstr':
        return 'F(' + ', '.join(nshow(x, d + 1) for x in t[1:]) + ')'
    if k == 'Slice':
        return f'{nshow(t[1], d + 1)}[{"" if t[2] == NONE else t[2][1]}:{"" if t[3] == NONE else t[3][1]}]'
    if k == 'const':
        return repr(t[1])
    if k == 'param':
        return f'<{t[1]}>'
    if k == 'alt':
        return 'ALT<' + ' | '.join(sorted(nshow(x, d + 1) for x in t[1])) + '>'
    if k == 'sub':
        return f'{nshow(t[1], d + 1)}[{nshow(t[2], d + 1)}]'
    if k == 'attr':
        return f'{nshow(t[1], d + 1)}.{t[2]}'
    if k == 'dict':
        return '{' + ', '.join(f'{nshow(a, d + 1)}: {nshow(b, d + 1)}' for a, b in t[1]) + '}'
    s = repr(t)
    return s if len(s) < 120 else s[:117] + '...'
