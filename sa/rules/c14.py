"""C14 - What replicat writes follows the documented repository format.

Decides: the derivation graph (what is hashed / MACed / encrypted under which
key) extracted from writer AND reader compared with the documented scheme
table; JSON key tables writer == schema >= reader; byte-string tagging;
legacy-metadata fallbacks; decode-only reader; nonce layout agreement.
Not decided: tiling of ranges, interoperability by execution."""
from __future__ import annotations

import ast

from ..astutil import deref, calls_in, const_value, dotted, enclosing_stmt, handler_catches, kwarg, src, walk_local
from ..loader import AnalysisError
from ..terms import NONE, Evaluator, alts, contains, find, show, strip_sites, walk
from .common import backend_events, const_of, evaluate, func_label, loc, repo_cls, term_has_const
from .scheme import expected_chunk_location, expected_snapshot_location, norm, nshow

EXPLANATION = (
    'Translation-validation-like static comparison: derivation terms are extracted independently from the writers (chunk producer, snapshot body encryption, '
    'snapshot naming, key construction) and from the readers (restore chunk consumer, snapshot body decryption, key instantiation), normalised into the vocabulary '
    'of the documented scheme (Hash / Mac / FastKdf / Encrypt / Serialize / hex / location layout) and compared with the frozen scheme table; the JSON key sets '
    'written and read are compared with the frozen schema; byte-string tagging and the compact JSON encoding are checked structurally; legacy metadata fallbacks '
    'and the nonce layout agreement between encrypt and decrypt are checked. Rules C14.R1-R7.'
    ' Added with the seeded-defect rounds: complete final file records, handlers around source reads re-raise, input uniqueness, every upload publishes, completion flag.'
    ' Round 6: queue hand-over never drops a chunk.'
)
NOT_DECIDED = 'that recorded ranges tile each file (arithmetic); that an independent reader/writer actually interoperates (execution)'
TRUSTED = ['the documented scheme table frozen in this module (README, "High-level technical details")', 'json / base64 standard library behaviour', 'CPython ast']
ASSUMPTIONS = ['adapter classes implement the named primitives (blake2b, AES-GCM, ...) as their libraries document']

SCHEMA = {
    'config': {'hashing', 'chunking', 'encryption'},
    'config.encryption': {'cipher'},
    'key': {'kdf', 'kdf_params', 'private'},
    'private': {'shared_key', 'shared_kdf', 'shared_kdf_params', 'mac', 'mac_params', 'chunker_params'},
    'body': {'chunks', 'data'},
    'data': {'utc_timestamp', 'files', 'note'},
    'data.required': {'utc_timestamp', 'files'},
    'file': {'path', 'chunks', 'digest', 'metadata'},
    'ref': {'range', 'index', 'counter'},
    'metadata': {'st_mode', 'st_uid', 'st_gid', 'st_size', 'st_atime_ns', 'st_mtime_ns', 'st_ctime_ns'},
    'metadata.legacy': {'st_atime', 'st_mtime', 'st_ctime'},
}


def _chunk_records(ev):
    recs = set()
    for e in ev.events:
        for a in list(e.args) + [v for _, v in e.kwargs]:
            for t in walk(a):
                if t[0] == 'record' and t[1].endswith('_SnapshotChunk'):
                    recs.add(t)
    return recs


def r1_derivations(ctx):
    corpus = ctx.corpus
    cls = repo_cls(corpus)
    CHUNK = const_of(corpus, cls, 'CHUNK_PREFIX')
    SNAP = const_of(corpus, cls, 'SNAPSHOT_PREFIX')
    snap = corpus.func('repository', 'Repository.snapshot')
    ctx.analysed(snap, *snap.all_nested())
    for enc in (True, False):
        mode = 'encrypted' if enc else 'plain'
        ev = evaluate(corpus, snap, modes={'encrypted': enc}, depth=7)
        ctx.count('terms_built', ev.terms_built)
        recs = _chunk_records(ev)
        ctx.floor('C14.R1', f'chunk records [{mode}]', len(recs))
        for r in recs:
            f = dict(r[2])
            loc_n = norm(f['location'])
            con_n = norm(f['contents'])
            hashes = find(loc_n, lambda y: y[0] == 'Hash')
            D = hashes[0][1] if hashes else None
            H = ('Hash', D)
            if enc:
                N, T = ('hex', ('Mac', H)), ('hex', ('Mac', ('Mac', H)))
                want_c = ('Enc', D, ('Kdf', H))
            else:
                N = T = ('hex', H)
                want_c = D
            ctx.check(
                D is not None and loc_n == expected_chunk_location(T, N, CHUNK),
                'C14.R1',
                f'{func_label(snap)}|writer:chunk.location[{mode}]',
                loc(snap, snap.node),
                f"[{mode}] chunk.location = '{CHUNK}' tag[0:2] / tag[2:4] / tag[4:] '-' name with name={nshow(N)}, tag={nshow(T)}",
                f'[{mode}] written chunk location deviates from the documented scheme: {nshow(loc_n)[:300]}',
            )
            ctx.check(
                D is not None and con_n == want_c,
                'C14.R1',
                f'{func_label(snap)}|writer:chunk.payload[{mode}]',
                loc(snap, snap.node),
                f'[{mode}] chunk.payload = {"Encrypt(data, FastKdf(SharedKey, ctx=Hash(data)))" if enc else "data"}',
                f'[{mode}] written chunk payload deviates from the documented scheme: {nshow(con_n)[:300]}',
            )
        # snapshot object
        ups = [(m, e) for m, e in backend_events(ev, {'upload'}) if e.args and term_has_const(e.args[0], SNAP)]
        ctx.floor('C14.R1', f'snapshot upload [{mode}]', len(ups))
        for m, e in ups:
            l_n, S = norm(e.args[0]), norm(e.args[1])
            HS = ('Hash', S)
            N = ('hex', HS)
            T = ('hex', ('Mac', HS)) if enc else ('hex', HS)
            ctx.check(
                l_n == expected_snapshot_location(T, N, SNAP),
                'C14.R1',
                f'{func_label(snap)}|writer:snap.location[{mode}]',
                e.loc,
                f"[{mode}] snap.location = '{SNAP}' tag[0:2] / tag[2:] '-' name; name = hex(Hash(body)), tag = {'hex(Mac(Hash(body)))' if enc else 'name'}",
                f'[{mode}] written snapshot location deviates from the documented scheme: {nshow(l_n)[:300]}',
            )
    # snapshot body writer
    w = corpus.func('repository', 'Repository._encrypt_snapshot_body')
    ctx.analysed(w)
    B = ('param', 'snapshot_body')
    for enc in (True, False):
        mode = 'encrypted' if enc else 'plain'
        ev = Evaluator(corpus, modes={'encrypted': enc}, depth=5)
        r = norm(ev.run(w))
        if enc:
            E = ('Enc', ('Ser', ('sub', B, ('const', 'data'))), ('UserKey',))
            want = ('Ser', ('dict', ((('const', 'chunks'), ('Enc', ('Ser', ('sub', B, ('const', 'chunks'))), ('Kdf', ('Hash', E)))), (('const', 'data'), E))))
        else:
            want = ('Ser', B)
        got = r
        if got[0] == 'Ser' and got[1][0] == 'dict':
            got = ('Ser', ('dict', tuple(sorted(got[1][1]))))
        ctx.check(
            got == want,
            'C14.R1',
            f'{func_label(w)}|writer:snap.body[{mode}]',
            loc(w, w.node),
            f"[{mode}] snap.body = {'Serialize({chunks: Encrypt(Serialize(chunks), FastKdf(ctx=Hash(private))), data: private=Encrypt(Serialize(data), UserKey)})' if enc else 'Serialize(body)'}",
            f'[{mode}] snapshot body encoding deviates from the documented scheme: {nshow(r)[:400]}',
        )
    # snapshot body reader
    rd = corpus.func('repository', 'Repository._decrypt_snapshot_body')
    ctx.analysed(rd)
    ev = Evaluator(corpus, modes={'encrypted': True}, depth=5)
    r = norm(ev.run(rd))
    C = ('Deser', ('param', 'contents'))
    ch = ('Deser', ('Dec', ('sub', C, ('const', 'chunks')), ('Kdf', ('Hash', ('sub', C, ('const', 'data'))))))
    da = ('Deser', ('Dec', ('sub', C, ('const', 'data')), ('UserKey',)))
    want_alts = {('upd', ('upd', C, ('const', 'chunks'), ch), ('const', 'data'), da), ('upd', ('upd', C, ('const', 'chunks'), ch), ('const', 'data'), NONE)}
    got_alts = set(r[1]) if r[0] == 'alt' else {r}
    ctx.check(
        got_alts == want_alts,
        'C14.R1',
        f'{func_label(rd)}|reader:snap.body[encrypted]',
        loc(rd, rd.node),
        '[encrypted] reader: chunks = Deser(Decrypt(body.chunks, FastKdf(ctx=Hash(body.data)))); data = Deser(Decrypt(body.data, UserKey)) or None',
        f'[encrypted] snapshot body decoding deviates from the documented scheme: {nshow(r)[:400]}',
    )
    ev = Evaluator(corpus, modes={'encrypted': False}, depth=5)
    r = norm(ev.run(rd))
    ctx.check(r == C, 'C14.R1', f'{func_label(rd)}|reader:snap.body[plain]', loc(rd, rd.node), '[plain] reader: body = Deser(contents)', f'[plain] snapshot body decoding deviates: {nshow(r)[:300]}')
    # chunk reader
    fn = corpus.func('repository', 'Repository.restore')
    cons = [f for f in fn.nested.values() if any(isinstance(n, ast.Attribute) and n.attr == 'download_stream' for n in walk_local(f.node))]
    ctx.floor('C14.R1', 'restore chunk consumer', len(cons))
    for f in cons:
        for enc in (True, False):
            mode = 'encrypted' if enc else 'plain'
            ev = Evaluator(corpus, modes={'encrypted': enc}, depth=6)
            ev.run(f)
            digs = [e for e in ev.events if e.method == 'digest' and e.func is not None and e.func.name == 'hash_digest' and any(c[1] is f for c in e.chain)]
            ok = False
            got = None
            for e in digs:
                v = norm(e.args[0])
                got = v
                if enc:
                    ok = v[0] == 'Dec' and v[2] == ('Kdf', ('param', 'digest')) and contains(v[1], lambda y: y[0] == 'call' and y[1][0] == 'attr' and y[1][2] == 'getvalue')
                else:
                    ok = v[0] == 'call' and v[1][0] == 'attr' and v[1][2] == 'getvalue'
            ctx.check(
                ok,
                'C14.R1',
                f'{func_label(f)}|reader:chunk.payload[{mode}]',
                loc(f, f.node),
                f'[{mode}] reader: data = {"Decrypt(object, FastKdf(SharedKey, ctx=digest))" if enc else "object"}, verified by Hash(data) == digest',
                f'[{mode}] chunk decoding deviates from the documented scheme: {nshow(got)[:300] if got else "no hash of the downloaded data"}',
            )
    # key: writer (init) and reader (_instantiate_key)
    init = corpus.func('repository', 'Repository.init')
    ctx.analysed(init)
    ev = Evaluator(corpus, modes={'encrypted': True}, depth=6, nonnull={'password'})
    ev.run(init)
    emits = [e for e in ev.events if e.method == 'write_bytes' and e.func is init]
    ctx.floor('C14.R1', 'key emission in init', len(emits))
    for e in emits:
        k = norm(e.args[0])
        ok = False
        why = nshow(k)[:300]
        if k[0] == 'Ser' and k[1][0] == 'dict':
            d = {a[1]: b for a, b in k[1][1] if a[0] == 'const'}
            if set(d) == SCHEMA['key']:
                p = d['private']
                if p[0] == 'Enc' and p[1][0] == 'Ser' and p[1][1][0] == 'dict':
                    pk = {a[1] for a, _ in p[1][1][1] if a[0] == 'const'}
                    key_ok = contains(p[2], lambda y: y[0] == 'call' and y[1][0] == 'attr' and y[1][2] == 'derive' and y[2] and y[2][0] == ('param', 'password'))
                    ok = pk == SCHEMA['private'] and key_ok
                    why = f'private keys {sorted(pk)}; encrypted under password-derived key: {key_ok}'
                else:
                    why = f"key['private'] is {nshow(p)[:200]}"
            else:
                why = f'key fields {sorted(d)}'
        ctx.check(
            ok,
            'C14.R1',
            f'{func_label(init)}|writer:key',
            e.loc,
            "key = Serialize({kdf, kdf_params, private: Encrypt(Serialize({shared_key, shared_kdf, shared_kdf_params, mac, mac_params, chunker_params}), SlowKdf(password, kdf_params))})",
            f'emitted key deviates from the documented layout: {why}',
        )


def final_file_records_complete(ctx, rule):
    """a record created by snapshot() itself (after the workers are through - nobody completes it later) carries the
    file's digest and metadata; the None placeholders belong to the per-chunk completion code only"""
    corpus = ctx.corpus
    snap = corpus.func('repository', 'Repository.snapshot')
    for d, ks in _dict_literal_keys(snap.node, {'path', 'chunks'}):
        owner = d
        while owner is not None and not isinstance(owner, (ast.FunctionDef, ast.AsyncFunctionDef)):
            owner = getattr(owner, '_parent', None)
        if owner is snap.node:
            nulls = [k.value for k, v in zip(d.keys, d.values) if isinstance(k, ast.Constant) and k.value in ('digest', 'metadata') and isinstance(v, ast.Constant) and v.value is None]
            ctx.check(
                not nulls,
                rule,
                f'{func_label(snap)}|final-file-records-are-complete',
                loc(snap, d),
                'file records written by the closing code of snapshot() carry digest and metadata of the file',
                f'a file record created after all chunks were processed has {nulls} = None and nothing fills it in afterwards: a file without chunks of its own (an empty file in a tree of empty files) is stored without digest / metadata - '
                'an independent reader finds no digest, restore fails on the metadata',
            )


def _dict_literal_keys(fnode, must_have):
    out = []
    for d in ast.walk(fnode):
        if isinstance(d, ast.Dict) and all(isinstance(k, ast.Constant) for k in d.keys if k is not None):
            ks = {k.value for k in d.keys if k is not None}
            if must_have <= ks:
                out.append((d, ks))
    return out


def r2_key_tables(ctx):
    corpus = ctx.corpus
    cls = repo_cls(corpus)

    def m(name):
        f = corpus.method(cls, name)
        if f is None:
            raise AnalysisError(f'C14.R2: {name} missing')
        ctx.analysed(f)
        return f

    # written
    mk = m('_make_key')
    for d, ks in _dict_literal_keys(mk.node, {'kdf'}):
        ctx.check(ks == SCHEMA['key'], 'C14.R2', f'{func_label(mk)}|written:key', loc(mk, d), f'key fields written == {sorted(SCHEMA["key"])}', f'key fields written {sorted(ks)} != schema {sorted(SCHEMA["key"])}')
    pr = _dict_literal_keys(mk.node, {'shared_key'})
    ctx.floor('C14.R2', 'private-section literal', len(pr))
    for d, ks in pr:
        ctx.check(ks == SCHEMA['private'], 'C14.R2', f'{func_label(mk)}|written:private', loc(mk, d), f'private fields written == schema', f'private fields written {sorted(ks)} != schema {sorted(SCHEMA["private"])}')
    mc = m('_make_config')
    rets = [r.value.id for r in walk_local(mc.node) if isinstance(r, ast.Return) and isinstance(r.value, ast.Name)]
    cfg_name = rets[0] if rets else None
    stores = {t.slice.value for a in walk_local(mc.node) if isinstance(a, ast.Assign) for t in a.targets if isinstance(t, ast.Subscript) and isinstance(t.value, ast.Name) and t.value.id == cfg_name and isinstance(t.slice, ast.Constant)}
    for a in walk_local(mc.node):
        if isinstance(a, ast.Assign) and any(isinstance(t, ast.Name) and t.id == cfg_name for t in a.targets) and isinstance(a.value, ast.Dict):
            stores |= {k.value for k in a.value.keys if isinstance(k, ast.Constant)}
    ctx.check(stores == SCHEMA['config'], 'C14.R2', f'{func_label(mc)}|written:config', loc(mc, mc.node), f'config keys written == {sorted(SCHEMA["config"])}', f'config keys written {sorted(stores)} != schema')
    snap = corpus.func('repository', 'Repository.snapshot')
    body = _dict_literal_keys(snap.node, {'chunks', 'data'})
    ctx.floor('C14.R2', 'snapshot body literal', len(body))
    for d, ks in body:
        ctx.check(ks == SCHEMA['body'], 'C14.R2', f'{func_label(snap)}|written:body', loc(snap, d), 'snapshot body keys == {chunks, data}', f'snapshot body keys {sorted(ks)}')
    data = _dict_literal_keys(snap.node, {'utc_timestamp'})
    ctx.floor('C14.R2', 'snapshot data literal', len(data))
    for d, ks in data:
        dst = enclosing_stmt(d)
        dname = dst.targets[0].id if isinstance(dst, ast.Assign) and isinstance(dst.targets[0], ast.Name) else None
        extra = {t.slice.value for a in walk_local(snap.node) if isinstance(a, ast.Assign) for t in a.targets if isinstance(t, ast.Subscript) and isinstance(t.value, ast.Name) and t.value.id == dname and isinstance(t.slice, ast.Constant)}
        ctx.check(SCHEMA['data.required'] <= ks and (ks | extra) <= SCHEMA['data'], 'C14.R2', f'{func_label(snap)}|written:data', loc(snap, d), f'snapshot data keys written {sorted(ks | extra)} within schema', f'snapshot data keys {sorted(ks | extra)} not within schema {sorted(SCHEMA["data"])}')
    files = _dict_literal_keys(snap.node, {'path', 'chunks'})
    ctx.floor('C14.R2', 'file record literals', len(files))
    for d, ks in files:
        ctx.check(ks == SCHEMA['file'], 'C14.R2', f'{func_label(snap)}|written:file', loc(snap, d), 'file record keys == schema', f'file record keys {sorted(ks)} != schema {sorted(SCHEMA["file"])}')
    final_file_records_complete(ctx, 'C14.R2')
    refs = _dict_literal_keys(snap.node, {'range'})
    ctx.floor('C14.R2', 'chunk reference literals', len(refs))
    for d, ks in refs:
        ctx.check(ks == SCHEMA['ref'], 'C14.R2', f'{func_label(snap)}|written:ref', loc(snap, d), 'chunk reference keys == schema', f'chunk reference keys {sorted(ks)} != schema {sorted(SCHEMA["ref"])}')
    rm = m('read_metadata')
    md = [(d, ks) for d, ks in _dict_literal_keys(rm.node, {'st_mode'})]
    ctx.floor('C14.R2', 'metadata literal', len(md))
    for d, ks in md:
        ctx.check(ks == SCHEMA['metadata'], 'C14.R2', f'{func_label(rm)}|written:metadata', loc(rm, d), 'metadata keys == schema', f'metadata keys {sorted(ks)} != schema')
        # each value is the stat field of the same name
        bad = [k.value for k, v in zip(d.keys, d.values) if not (isinstance(v, ast.Attribute) and v.attr == k.value)]
        ctx.check(not bad, 'C14.R2', f'{func_label(rm)}|metadata-values-match-names', loc(rm, d), 'every metadata value is the stat field of the same name', f'metadata fields {bad} are filled from a different stat field')
    # read keys within schema
    from .c01 import _read_keys

    rfile, rref = _read_keys(corpus)
    for k, (f, n) in rfile.items():
        ctx.check(k in SCHEMA['file'], 'C14.R2', f'{func_label(f)}|read:file:{k}', loc(f, n), f'file key {k!r} read by {f.name} is in the schema', f'{f.name} reads file key {k!r} that the format does not define')
    for k, (f, n) in rref.items():
        ctx.check(k in SCHEMA['ref'], 'C14.R2', f'{func_label(f)}|read:ref:{k}', loc(f, n), f'reference key {k!r} read by {f.name} is in the schema', f'{f.name} reads reference key {k!r} that the format does not define')
    ik = m('_instantiate_key')
    reads = {n.slice.value for n in ast.walk(ik.node) if isinstance(n, ast.Subscript) and isinstance(n.slice, ast.Constant) and isinstance(n.value, ast.Name) and n.value.id == 'key'}
    ctx.check(reads <= SCHEMA['key'] and reads, 'C14.R2', f'{func_label(ik)}|read:key', loc(ik, ik.node), f'key fields read {sorted(reads)} within schema', f'key fields read {sorted(reads)} not within schema')
    # the local that holds the (decrypted) private section: the value returned under 'private'
    pname = None
    for d in ast.walk(ik.node):
        if isinstance(d, ast.Dict):
            for k, v in zip(d.keys, d.values):
                if isinstance(k, ast.Constant) and k.value == 'private' and isinstance(v, ast.Name):
                    pname = v.id
    preads = {n.slice.value for n in ast.walk(ik.node) if isinstance(n, ast.Subscript) and isinstance(n.slice, ast.Constant) and isinstance(n.value, ast.Name) and n.value.id == pname}
    props = corpus.cls('repository', 'RepositoryProps')
    for f in props.methods.values():
        preads |= {n.slice.value for n in ast.walk(f.node) if isinstance(n, ast.Subscript) and isinstance(n.slice, ast.Constant) and isinstance(n.value, ast.Attribute) and n.value.attr == 'private'}
    ctx.check(preads <= SCHEMA['private'] and len(preads) >= 5, 'C14.R2', 'replicat/repository.py|read:private', loc(ik, ik.node), f'private fields read {sorted(preads)} within schema', f'private fields read {sorted(preads)} vs schema {sorted(SCHEMA["private"])}')


def r3_bytes_tagging(ctx):
    corpus = ctx.corpus
    ut = corpus.module('utils')
    th, tr = ut.functions.get('type_hint'), ut.functions.get('type_reverse')
    if th is None or tr is None:
        raise AnalysisError('C14.R3: type_hint/type_reverse missing')
    ctx.analysed(th, tr)
    ev = Evaluator(corpus, depth=2)
    r = strip_sites(ev.run(th))
    want = ('dict', ((('const', '!b'), ('call', ('name', 'str'), (('call', ('name', 'base64.standard_b64encode'), (('param', 'object'),), ()), ('const', 'ascii')), ())),))
    raises = any(isinstance(n, ast.Raise) for n in ast.walk(th.node))
    ctx.check(r == want and raises, 'C14.R3', f'{func_label(th)}|bytes-tag-writer', loc(th, th.node), "type_hint: byte strings -> {'!b': base64-standard(ascii)}, anything else raises", f'type_hint changed: {show(r, limit=160)}')
    ev = Evaluator(corpus, depth=2)
    r = strip_sites(ev.run(tr))
    dec = ('call', ('name', 'base64.standard_b64decode'), (('sub', ('param', 'object'), ('const', '!b')),), ())
    okr = set(alts(r)) == {('param', 'object'), dec}
    len_guard = any(isinstance(n, ast.Compare) and isinstance(n.left, ast.Call) and dotted(n.left.func) == 'len' and isinstance(n.comparators[0], ast.Constant) and n.comparators[0].value == 1 for n in ast.walk(tr.node))
    ctx.check(okr and len_guard, 'C14.R3', f'{func_label(tr)}|bytes-tag-reader', loc(tr, tr.node), "type_reverse: exactly the one-key object {'!b': ...} -> base64-standard decode; everything else unchanged", f'type_reverse changed: {show(r, limit=160)}')
    cls = repo_cls(corpus)
    se, de = corpus.method(cls, 'serialize'), corpus.method(cls, 'deserialize')
    ev = Evaluator(corpus, depth=3)
    r = norm(ev.run(se))
    ctx.check(r == ('Ser', ('param', 'object')), 'C14.R3', f'{func_label(se)}|compact-json', loc(se, se.node), "serialize = bytes(json.dumps(x, separators=(',', ':'), default=<type_hint hook>), 'ascii')", f'serialize changed: {nshow(r)[:200]}')
    hook = corpus.method(cls, 'default_serialization_hook')
    ev = Evaluator(corpus, depth=3)
    hr = strip_sites(ev.run(hook))
    ctx.check(hr == want or contains(hr, lambda y: y == ('const', '!b')), 'C14.R3', f'{func_label(hook)}|hook-is-type-hint', loc(hook, hook.node), 'default_serialization_hook delegates to utils.type_hint', 'default_serialization_hook no longer delegates to type_hint')
    ev = Evaluator(corpus, depth=2)
    r = strip_sites(ev.run(de))
    okd = r[0] == 'call' and r[1] == ('name', 'json.loads') and r[2] == (('param', 'data'),) and [k for k, _ in r[3]] == ['object_hook']
    ctx.check(okd, 'C14.R3', f'{func_label(de)}|deserialize-with-reverse-hook', loc(de, de.node), 'deserialize = json.loads(data, object_hook=<type_reverse hook>)', f'deserialize changed: {show(r, limit=160)}')


def r4_legacy(ctx):
    corpus = ctx.corpus
    cls = repo_cls(corpus)
    f = corpus.method(cls, 'restore_metadata')
    ctx.analysed(f)
    ok = False
    for t in walk_local(f.node):
        if isinstance(t, ast.Try):
            ns = {c.value for s in t.body for c in ast.walk(s) if isinstance(c, ast.Constant) and isinstance(c.value, str)}
            for h in t.handlers:
                if handler_catches(h) == ['KeyError']:
                    leg = {c.value for s in h.body for c in ast.walk(s) if isinstance(c, ast.Constant) and isinstance(c.value, str)}
                    uses_times = any(isinstance(c, ast.Call) and dotted(c.func) == 'os.utime' and kwarg(c, 'times') is not None for s in h.body for c in ast.walk(s))
                    if {'st_atime_ns', 'st_mtime_ns'} <= ns and {'st_atime', 'st_mtime'} <= leg and uses_times:
                        ok = True
            # the ns= call runs exactly when the nanosecond keys were present: reachable from the normal completion
            # of the try body, not from the KeyError fallback (try/else or handler-returns-then-call, decided on the CFG)
            from ..cfg import cfg_of as _cfg_of

            fcfg = _cfg_of(f.node)
            ns_nodes = [x for c in ast.walk(f.node) if isinstance(c, ast.Call) and dotted(c.func) == 'os.utime' and kwarg(c, 'ns') is not None for x in fcfg.nodes_of(enclosing_stmt(c), 'stmt')]
            present = (fcfg.nodes_of(t.body[-1], 'ok') or fcfg.nodes_of(t.body[-1], 'stmt')) if t.body else []
            absent = [x for h in t.handlers for x in fcfg.nodes_of(h, 'handler')]
            uses_ns = bool(ns_nodes) and any(fcfg.path(p_, ns_nodes, kinds=('normal',)) is not None for p_ in present) and all(fcfg.path(a_, ns_nodes) is None for a_ in absent)
            ok = ok and uses_ns
    ctx.check(ok, 'C14.R4', f'{func_label(f)}|legacy-fallback-restore', loc(f, f.node), 'restore_metadata: ns keys -> os.utime(ns=...), KeyError fallback -> legacy second keys with os.utime(times=...)', 'restore_metadata lost the legacy (pre-1.3) fallback or mixes the units (ns= vs times=)')
    from .c15 import r5_quantities  # time-unit rule for the listing reader is shared

    # decode-only reader: the decoded snapshot is not post-processed
    rd = corpus.method(cls, '_decrypt_snapshot_body')
    allowed = {'self.deserialize', 'self.props.decrypt', 'self.props.derive_shared_subkey', 'self.props.hash_digest'}
    bad = [c for c in calls_in(rd.node) if (dotted(c.func) or '') not in allowed and not (dotted(c.func) or '').startswith(('logger.', 'logging.'))]
    # ... and nothing but the two top-level fields of the decoded body is (re)assigned, to decoded values or None
    params_rd = [a.arg for a in rd.node.args.posonlyargs + rd.node.args.args][1:]
    for n in walk_local(rd.node):
        tgts = []
        if isinstance(n, ast.Assign):
            tgts = n.targets
        elif isinstance(n, (ast.AugAssign, ast.AnnAssign)):
            tgts = [n.target]
        elif isinstance(n, ast.Delete):
            tgts = n.targets
        for t in tgts:
            if isinstance(t, ast.Subscript):
                top = isinstance(t.value, ast.Name) and isinstance(t.slice, ast.Constant)
                val = getattr(n, 'value', None)
                val_ok = isinstance(n, ast.Assign) and ((isinstance(val, ast.Constant) and val.value is None) or (isinstance(val, ast.Call) and dotted(val.func) == 'self.deserialize'))
                if not (top and val_ok):
                    bad.append(n)
    ctx.check(
        not bad,
        'C14.R6',
        f'{func_label(rd)}|reader-decodes-only',
        loc(rd, rd.node),
        '_decrypt_snapshot_body only deserialises and decrypts: stored values (e.g. legacy second-resolution timestamps) reach the consumers unchanged',
        f'_decrypt_snapshot_body post-processes the decoded snapshot (`{src(bad[0], 60) if bad else ""}`): values are rewritten between the stored object and the consumers',
    )
    # the metadata handed to restore_metadata is the stored record's 'metadata' itself
    fn = corpus.func('repository', 'Repository.restore')
    okm = False
    for e in ast.walk(fn.node):
        if isinstance(e, ast.Subscript) and isinstance(e.slice, ast.Constant) and e.slice.value == 'metadata' and isinstance(e.value, ast.Name) and isinstance(e.ctx, ast.Load):
            par = getattr(e, '_parent', None)
            # stored as it is: element of the plan tuple, or field of a plan record (positional / keyword argument of its constructor)
            if isinstance(par, ast.Tuple) or (isinstance(par, ast.Call) and e in par.args and isinstance(par.func, ast.Name) and par.func.id[:1].isupper() or (isinstance(par, ast.Call) and e in par.args and isinstance(par.func, ast.Name) and par.func.id.startswith('_') and par.func.id[1:2].isupper())) or isinstance(par, ast.keyword):
                okm = True
    ctx.check(okm, 'C14.R6', f'{func_label(fn)}|metadata-passed-unchanged', loc(fn, fn.node), "restore plans (target, file_data['metadata']) - the stored metadata object unchanged", "restore no longer passes the stored file_data['metadata'] unchanged to restore_metadata")


def r5_no_stale_key_state(ctx):
    """No per-instance state derived from the unlocked key survives outside `props`."""
    corpus = ctx.corpus
    cls = repo_cls(corpus)
    n = 0
    for f in list(cls.methods.values()) + [x for m in cls.methods.values() for x in m.all_nested()]:
        if f.name == '__init__':
            continue
        for a in walk_local(f.node):
            tgt = None
            if isinstance(a, (ast.Assign, ast.AugAssign)):
                ts = a.targets if isinstance(a, ast.Assign) else [a.target]
                for t in ts:
                    base = t.value if isinstance(t, ast.Subscript) else t
                    if isinstance(base, ast.Attribute) and isinstance(base.value, ast.Name) and base.value.id == 'self' and base.attr != 'props':
                        tgt = (base.attr, a)
            elif isinstance(a, ast.Call) and isinstance(a.func, ast.Attribute) and a.func.attr in ('setdefault', 'update', 'add', 'append', '__setitem__') and isinstance(a.func.value, ast.Attribute) and isinstance(a.func.value.value, ast.Name) and a.func.value.value.id == 'self' and a.func.value.attr not in ('props', '_slots'):
                tgt = (a.func.value.attr, a)
            if tgt:
                n += 1
                uses_props = any(isinstance(x, ast.Attribute) and x.attr == 'props' for x in ast.walk(f.node))
                ctx.check(
                    not uses_props,
                    'C14.R5',
                    f'{func_label(f)}|no-key-derived-instance-state:{tgt[0]}',
                    loc(f, tgt[1]),
                    f'{f.qual}: instance state `self.{tgt[0]}` is not derived from the unlocked key material',
                    f'{f.qual} stores data in `self.{tgt[0]}` in code that reads self.props: values derived under one key (sub-keys, decrypted bodies, names) outlive unlock() with another key and objects are written/read under the wrong key',
                )
    ctx.count('instance_state_stores_outside_init', n)


def r7_nonce_layout(ctx):
    corpus = ctx.corpus
    ad = corpus.module('adapters')
    mix = ad.classes.get('AEADCipherAdapterMixin')
    if mix is None:
        raise AnalysisError('C14.R7: AEADCipherAdapterMixin missing')
    enc, dec = mix.methods.get('encrypt'), mix.methods.get('decrypt')
    ctx.analysed(enc, dec)
    ev = Evaluator(corpus, depth=2)
    r = strip_sites(ev.run(enc))
    nlen = None
    ok = False
    if r[0] == 'bin' and r[1] == 'Add':
        nonce, ct = r[2], r[3]
        if nonce[0] == 'call' and nonce[1] == ('name', 'os.urandom') and len(nonce[2]) == 1:
            nlen = nonce[2][0]
            ok = ct[0] == 'call' and ct[1][0] == 'attr' and ct[1][2] == 'encrypt' and ct[2][0] == nonce and ct[2][1][0] == 'param'
    ctx.check(ok, 'C14.R7', f'{func_label(enc)}|ciphertext-layout', loc(enc, enc.node), 'encrypt returns nonce || AEAD(nonce, data) with nonce = os.urandom(n)', f'encrypt layout changed: {show(r, limit=160)}')
    # decrypt splits at the same n
    splits = set()
    dparams = [a.arg for a in dec.node.args.posonlyargs + dec.node.args.args][1:]
    dname = dparams[0] if dparams else None
    for n in ast.walk(dec.node):
        if isinstance(n, ast.Subscript) and isinstance(n.slice, ast.Slice) and isinstance(n.value, ast.Name) and n.value.id == dname:
            b = n.slice.upper if n.slice.upper is not None else n.slice.lower
            splits.add(ast.dump(deref(dec.node, b)))
    want = None
    for n in ast.walk(enc.node):
        if isinstance(n, ast.Call) and dotted(n.func) == 'os.urandom' and n.args:
            want = ast.dump(deref(enc.node, n.args[0]))
    ctx.check(
        len(splits) == 1 and want is not None and splits == {want},
        'C14.R7',
        f'{func_label(dec)}|nonce-length-agreement',
        loc(dec, dec.node),
        'decrypt splits the object at exactly the nonce length that encrypt generates',
        'encrypt and decrypt disagree on the nonce length: objects written by replicat cannot be read back (or by a reference reader) for some settings',
    )
    # the configured nonce/key sizes are the ones used: _nonce_bytes/_key_bytes derive from the constructor parameters
    init = mix.methods.get('__init__')
    aes = ad.classes.get('aes_gcm')
    if aes is not None and '__init__' in aes.methods:
        ai = aes.methods['__init__']
        params = [a.arg for a in ai.node.args.kwonlyargs]
        stored = {}
        for a in walk_local(ai.node):
            if isinstance(a, ast.Assign):
                tl = a.targets[0]
                tg = tl.elts if isinstance(tl, ast.Tuple) else [tl]
                vl = a.value.elts if isinstance(a.value, ast.Tuple) else [a.value]
                for t, v in zip(tg, vl):
                    if isinstance(t, ast.Attribute) and isinstance(v, ast.Name):
                        stored[v.id] = t.attr
        for p in params:
            ctx.check(
                p in stored,
                'C14.R7',
                f'{func_label(ai)}|configured-parameter-used:{p}',
                loc(ai, ai.node),
                f'aes_gcm: constructor parameter `{p}` is stored (self.{stored.get(p)}) and therefore governs the written format',
                f'aes_gcm accepts `{p}` (and records it in the repository config) but ignores it: objects are written with a different layout than the config declares',
            )


def r8_utc_timestamp(ctx, rule='C14.R8'):
    corpus = ctx.corpus
    snap = corpus.func('repository', 'Repository.snapshot')
    ok = False
    why = "no 'utc_timestamp' entry"
    for d in walk_local(snap.node):
        if isinstance(d, ast.Dict):
            for k, v in zip(d.keys, d.values):
                if isinstance(k, ast.Constant) and k.value == 'utc_timestamp':
                    e = v
                    if isinstance(e, ast.Call) and dotted(e.func) == 'str' and e.args:
                        e = e.args[0]
                    if isinstance(e, ast.Name):
                        ds = [a.value for a in walk_local(snap.node) if isinstance(a, ast.Assign) and any(isinstance(t, ast.Name) and t.id == e.id for t in a.targets)]
                        e = ds[0] if len(ds) == 1 else e
                    if isinstance(e, ast.Call):
                        fn_ = dotted(e.func) or ''
                        if fn_.endswith('utcnow') and not e.args:
                            ok = True
                        elif fn_.endswith('.now') and e.args and 'utc' in src(e.args[0]).lower():
                            ok = False
                            why = 'an aware UTC datetime changes the stored text form (+00:00 suffix): readers compare the strings'
                        else:
                            why = f'the timestamp is `{src(e, 50)}` (local time when the zone is not UTC)'
                    ok = ok and isinstance(v, ast.Call) and dotted(v.func) == 'str'
    ctx.check(
        ok,
        rule,
        f'{func_label(snap)}|timestamp-is-utc',
        loc(snap, snap.node),
        "snapshot data carries 'utc_timestamp' = str(datetime.utcnow())",
        f"'utc_timestamp' is not the naive UTC time in str() form: {why} - version order across time zones and the documented field meaning break",
    )


def run(ctx):
    from .shared import file_digest_covers_stream

    file_digest_covers_stream(ctx, 'C14.R9')
    from .shared import no_swallowed_source_errors

    no_swallowed_source_errors(ctx, 'C14.R2')
    from .c01 import r1_unique as _uq
    from ..report import Relabel as _RLu

    # the ranges of a file tile it once: no file is streamed twice into the same record
    _uq(_RLu(ctx, 'C14.R2'))
    from .c03 import r4_local_atomic as _r4la
    from ..report import Relabel as _RLa

    _r4la(_RLa(ctx, 'C14.R9'))
    from ..report import Relabel as _RL9
    from .c12 import r2_rewind

    # a chunk object holds exactly the bytes its name and key were derived from: a retried upload restarts from byte 0
    r2_rewind(_RL9(ctx, 'C14.R9'), rule='C14.R9')
    from ..report import Relabel
    from .c01 import r3b_chunk_record_fresh, r3_order_key

    r3b_chunk_record_fresh(Relabel(ctx, 'C14.R2'), rule='C14.R2')
    r3_order_key(Relabel(ctx, 'C14.R2'))
    # the ranges recorded for a file tile it: every chunk the producer queued is processed by a worker before the
    # snapshot object is assembled (a worker that stops on a stale "queue empty" answer leaves files without ranges)
    from .c09 import r5b_completion_flag

    r5b_completion_flag(ctx, 'C14.R2')
    from .shared import queue_put_retries_until_done

    queue_put_retries_until_done(ctx, 'C14.R2')
    r8_utc_timestamp(ctx)
    r1_derivations(ctx)
    r2_key_tables(ctx)
    r3_bytes_tagging(ctx)
    r4_legacy(ctx)
    r5_no_stale_key_state(ctx)
    r7_nonce_layout(ctx)
