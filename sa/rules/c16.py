"""C16 - Every request sent to an S3 service is correctly signed.

Decides: signed == sent (same origin of path, query, headers, payload hash,
date, signing key date); per-site payload / content agreement; algorithm
structure tables (canonical request, string to sign, key chain, scope,
authorization header); encoder choice per URL component.
Not decided: what httpx does to the URL on the wire."""
from __future__ import annotations

import ast
import hashlib
import json
import os

from ..astutil import calls_in, dotted, enclosing_stmt, kwarg, src, walk_local
from ..cfg import cfg_of, deref_at
from ..loader import AnalysisError
from ..terms import Evaluator, alts, contains, find, show, strip_sites, walk
from .common import func_label, loc

EXPLANATION = (
    'Same-origin analysis over the provenance terms of _prepare_request (the path, the query string, the three signed headers, the payload hash and the date '
    'that are signed are the very values that are sent; the scope date and the signing-key date come from the same clock reading as x-amz-date), per-request-site '
    'agreement between the declared payload hash / content length and the content handed to the HTTP client, structural comparison of the five SigV4 building '
    'blocks with the published algorithm (field order of canonical request and string to sign, HMAC chain, scope, authorization header), and the encoder per URL '
    'component (path: quote once with "/" safe; query: sorted, percent-encoded with %20 semantics). Rules C16.R1-R4.'
    ' Added with the seeded-defect rounds: only requests built by _prepare_request leave the client (no follow_redirects / auth / verb helpers), transfer unit >= 1 (shared with C20), joined strings returned unprocessed; fallback to the whole-pipeline term digest of the design tree when the helper anchors are restructured.'
    ' Round 6: the length declared to upload_stream is the length of the object the stream reads (traced through the wrapper chain), no read left in flight.'
)
NOT_DECIDED = 'whether the HTTP library re-encodes the URL it is given (third-party behaviour); signatures are not recomputed on concrete inputs'
TRUSTED = ['the published AWS Signature Version 4 algorithm as frozen in this module', 'hashlib / hmac', 'CPython ast']
ASSUMPTIONS = ['the three signed headers are sufficient for the target services']


def _prep(ctx):
    corpus = ctx.corpus
    s3 = corpus.cls('s3c', 'S3Compatible')
    pr = s3.methods.get('_prepare_request')
    if pr is None:
        raise AnalysisError('C16: S3Compatible._prepare_request missing')
    ctx.analysed(pr)
    init = s3.methods.get('__init__')
    ev0 = Evaluator(corpus, depth=2)
    ev0.run(init)
    preset = {k: v for k, v in ev0.entry_env.vars.items() if k.startswith('self.')}
    ev = Evaluator(corpus, depth=3)
    r = ev.run(pr)
    return s3, pr, ev, preset


def _kw(e, name):
    return dict(e.kwargs).get(name)


def r1_same_origin(ctx):
    s3, pr, ev, preset = _prep(ctx)
    corpus = ctx.corpus
    env = ev.entry_env
    br = [e for e in ev.events if e.method == 'build_request' and e.func is pr]
    ctx.floor('C16.R1', 'build_request in _prepare_request', len(br))
    cr = [e for e in ev.events if e.callee[0] == 'func' and e.callee[1].endswith('_make_canonical_request')]
    ctx.floor('C16.R1', 'canonical request construction', len(cr))
    e_cr, e_br = cr[0], br[0]
    url = e_br.args[1]
    hdrs = _kw(e_br, 'headers')
    can_uri, can_q, can_h, signed_h, pd = (_kw(e_cr, k) for k in ('canonical_uri', 'canonical_query', 'canonical_headers', 'signed_headers', 'payload_digest'))
    site = e_cr.loc
    # path
    ok = can_uri is not None and all(contains(u, lambda y: y == can_uri) for u in alts(url)) and can_uri[0] == 'call' and can_uri[1] == ('name', 'urllib.parse.quote')
    ctx.check(ok, 'C16.R1', f'{func_label(pr)}|signed-path-is-sent-path', site, 'the canonical URI that is signed is the same quote(canonical_uri) value that forms the URL path', f'the signed path {show(can_uri, limit=80)} is not the value the URL is built from')
    # query
    okq = False
    qalts = alts(can_q) if can_q is not None else []
    ualts = alts(url)
    with_q = [u for u in ualts if contains(u, lambda y: y[0] == 'call' and y[1] == ('name', 'urllib.parse.urlencode'))]
    qs = [q for q in qalts if q != ('const', '')]
    okq = bool(with_q) and len(qs) == 1 and all(contains(u, lambda y: y == qs[0]) for u in with_q) and ('const', '') in qalts
    ctx.check(okq, 'C16.R1', f'{func_label(pr)}|signed-query-is-sent-query', site, 'the canonical query that is signed is the same string that is appended to the URL (and empty when there is no query)', 'the signed query string is not the one appended to the URL')
    # host
    host_attr = ('attr', ('self', ev.clskey(s3)), 'host')
    che = [e for e in ev.events if e.callee[0] == 'func' and e.callee[1].endswith('_make_canonical_headers')]
    ch = che[0].args[0] if che and che[0].args else None
    d = dict((k[1], v) for k, v in ch[1]) if ch is not None and ch[0] == 'dict' else {}
    url_root = preset.get('self.url')
    host_init = preset.get('self.host')
    okh = d.get('host') == host_attr and url_root is not None and host_init is not None and contains(url_root, lambda y: y == host_init or y == host_attr) and all(contains(u, lambda y: y == ('attr', ('self', ev.clskey(s3)), 'url')) for u in ualts)
    ctx.check(okh, 'C16.R1', f'{func_label(pr)}|signed-host-is-url-host', site, 'the signed host header is self.host and the URL is built from self.url = scheme://self.host', 'the signed host differs from the host the URL is built from')
    # the two amz headers: signed value == sent value
    sent = {}
    h = hdrs
    while h is not None and h[0] == 'upd':
        if h[2][0] == 'const':
            sent.setdefault(h[2][1], h[3])
        h = h[1]
    if h is not None and h[0] == 'dict':
        for k, v in h[1]:
            if k[0] == 'const':
                sent.setdefault(k[1], v)
    if hdrs is not None and hdrs[0] == 'alt':
        # headers param may be None or given: evaluate each alternative
        sent = {}
        for a in hdrs[1]:
            hh = a
            while hh[0] == 'upd':
                if hh[2][0] == 'const':
                    sent.setdefault(hh[2][1], set()).add(hh[3]) if isinstance(sent.get(hh[2][1]), set) else sent.__setitem__(hh[2][1], {hh[3]})
                hh = hh[1]
        sent = {k: (next(iter(v)) if len(v) == 1 else None) for k, v in sent.items()}
    for name in ('x-amz-content-sha256', 'x-amz-date'):
        ctx.check(
            name in d and sent.get(name) is not None and sent.get(name) == d[name],
            'C16.R1',
            f'{func_label(pr)}|signed-header-is-sent-header:{name}',
            site,
            f'the signed {name} value is the value placed into the request headers',
            f'the {name} header that is sent ({show(sent.get(name), limit=60) if sent.get(name) else "missing"}) is not the signed value ({show(d.get(name), limit=60) if d.get(name) else "missing"})',
        )
    ctx.check(pd == ('param', 'payload_digest') and d.get('x-amz-content-sha256') == ('param', 'payload_digest'), 'C16.R1', f'{func_label(pr)}|payload-hash-signed', site, 'the payload digest given by the caller is both the signed header value and the last line of the canonical request', 'the payload digest in the canonical request differs from the x-amz-content-sha256 header')
    # authorization header is sent
    ctx.check('authorization' in sent and sent['authorization'] is not None and contains(sent['authorization'], lambda y: y[0] == 'call' and y[1][0] == 'attr' and y[1][2] == 'hex'), 'C16.R1', f'{func_label(pr)}|authorization-sent', site, 'the computed signature is sent in the authorization header', 'the authorization header does not carry the computed signature')
    # one clock reading
    nows = {x for t in [d.get('x-amz-date')] + [_kw(e, 'date') for e in ev.events if e.callee[0] == 'func' and e.callee[1].endswith(('_make_credential_scope', '_make_signature_key'))] if t is not None for x in find(t, lambda y: y[0] == 'call' and y[1][0] == 'name' and 'utcnow' in y[1][1] or y[0] == 'call' and y[1][0] == 'name' and y[1][1].endswith('.now'))}
    scope_e = [e for e in ev.events if e.callee[0] == 'func' and e.callee[1].endswith('_make_credential_scope')]
    key_e = [e for e in ev.events if e.callee[0] == 'func' and e.callee[1].endswith('_make_signature_key')]
    ctx.floor('C16.R1', 'scope / signing-key construction', min(len(scope_e), len(key_e)))
    # syntactically, too: one clock-reading call in the (helper-expanded) function - two evaluations of the same helper line are two readings
    clock_calls = [c for c in ast.walk(pr.node) if isinstance(c, ast.Call) and (dotted(c.func) or '').rsplit('.', 1)[-1] in ('utcnow', 'now', 'time', 'gmtime', 'time_ns') and (dotted(c.func) or '').split('.')[0] in ('datetime', 'time')]
    okc = len(clock_calls) == 1 and len(nows) == 1 and all(_kw(e, 'date') is not None and contains(_kw(e, 'date'), lambda y: y in nows) for e in scope_e + key_e) and _kw(scope_e[0], 'date') == _kw(key_e[0], 'date')
    ctx.check(
        okc,
        'C16.R1',
        f'{func_label(pr)}|one-clock-reading',
        site,
        'x-amz-date, the scope date and the signing-key date derive from one utcnow() evaluation made for this request',
        'the signing key / scope date does not come from the same clock reading as x-amz-date (e.g. cached or read twice): requests around midnight or from a long-lived process are signed for the wrong day',
    )
    sk = [e for e in ev.events if e.callee[0] == 'func' and e.callee[1].endswith('_hmac_sha256_digest') and e.func is pr]
    oks = bool(sk) and all(e.args and all(contains(a, lambda y: y in nows) for a in alts(e.args[0])) for e in sk)
    ctx.check(oks, 'C16.R1', f'{func_label(pr)}|signature-uses-fresh-key', site, 'the signature is computed with the signing key derived for this request\'s date', 'the signature is computed with a key that was not derived from this request\'s date')
    # signed headers list derives from the same mapping, keys ascending
    keys = [k[1] for k, _ in ch[1]] if ch is not None and ch[0] == 'dict' else []
    sh = signed_h
    oksh = keys == sorted(keys) and keys == ['host', 'x-amz-content-sha256', 'x-amz-date'] and sh is not None and sh[0] == 'call' and sh[1] == ('attr', ('const', ';'), 'join') and sh[2] == (ch,)
    ctx.check(oksh, 'C16.R1', f'{func_label(pr)}|signed-headers-list', site, "SignedHeaders = ';'.join(<the canonical header mapping>), keys in ascending order", f'the SignedHeaders list is not derived from the canonical header mapping in ascending order: {keys}')


def r2_payload_sites(ctx):
    corpus = ctx.corpus
    s3 = corpus.cls('s3c', 'S3Compatible')
    mod = corpus.module('s3c')
    n = 0
    for name, f in s3.methods.items():
        for c in calls_in(f.node):
            d = dotted(c.func) or ''
            if d not in ('self._make_request', 'self._make_streaming_request'):
                continue
            pd = kwarg(c, 'payload_digest')
            if pd is None and not any(k.arg is None for k in c.keywords):
                # omitted: the callee's own default for the parameter
                callee = s3.methods.get(d[5:])
                if callee is not None:
                    a_ = callee.node.args
                    for p_, d_ in list(zip(a_.kwonlyargs, a_.kw_defaults)) + list(zip(a_.args[len(a_.args) - len(a_.defaults):], a_.defaults)):
                        if p_.arg == 'payload_digest' and d_ is not None:
                            pd = d_
            fparams = {a.arg for a in f.node.args.posonlyargs + f.node.args.args + f.node.args.kwonlyargs}
            if name in ('_make_request', '_make_streaming_request') and isinstance(pd, ast.Name) and pd.id in fparams and any(k.arg is None for k in c.keywords):
                continue  # one request helper handing its own arguments to the other: judged at the outer call sites
            n += 1
            ctx.analysed(f)
            content = kwarg(c, 'content') or kwarg(c, 'data') or kwarg(c, 'json')
            hd = kwarg(c, 'headers')
            site = loc(f, c)
            if content is None:
                ok = isinstance(pd, ast.Name) and pd.id == '_empty_payload_digest'
                ctx.check(ok, 'C16.R2', f'{func_label(f)}|bodyless-request-empty-digest', site, f'{f.name}: body-less request signs the empty-payload digest', f'{f.name}: body-less request signs `{src(pd) if pd else None}` instead of the empty-payload digest')
            else:
                ok = isinstance(pd, ast.Name) and pd.id in [a.arg for a in f.node.args.args + f.node.args.kwonlyargs]
                ctx.check(ok, 'C16.R2', f'{func_label(f)}|body-request-digest-parameter', site, f'{f.name}: the payload digest is the one computed by the caller for this content', f'{f.name}: a request with a body signs `{src(pd) if pd else None}` (not a digest of its content)')
                cl = None
                if isinstance(hd, ast.Dict):
                    for k, v in zip(hd.keys, hd.values):
                        if isinstance(k, ast.Constant) and k.value == 'content-length':
                            cl = v
                ctx.check(cl is not None, 'C16.R2', f'{func_label(f)}|content-length-declared', site, f'{f.name}: content-length is declared', f'{f.name}: no content-length header')
    ctx.floor('C16.R2', 'S3 request sites', n, 4)
    from .c12 import r2c_fresh_body_iterator

    # the body that is hashed and declared must be the body that every attempt sends
    r2c_fresh_body_iterator(ctx, 'C16.R2')
    # empty digest constant
    v = mod.assigns.get('_empty_payload_digest')
    ok = isinstance(v, ast.Call) and dotted(v.func) == '_get_data_hexdigest' and v.args and isinstance(v.args[0], ast.Constant) and v.args[0].value == b''
    ctx.check(ok, 'C16.R2', f'{mod.rel}|empty-payload-digest', mod.rel, "_empty_payload_digest = sha256(b'')", '_empty_payload_digest is not the SHA-256 of the empty string')
    # upload: digest of the same data that is sent
    up = s3.methods.get('upload')
    ev = Evaluator(corpus, depth=1)
    ev.run(up)
    calls = [e for e in ev.events if e.callee[0] == 'bound' and e.callee[2].endswith('_put_object')]
    ctx.floor('C16.R2', 'upload -> _put_object', len(calls))
    for e in calls:
        data, dig = e.arg(1, 'data'), e.arg(2, 'payload_digest')
        ok = data == ('param', 'data') and dig is not None and contains(dig, lambda y: y == data) and contains(strip_sites(dig), lambda y: y[0] == 'call' and y[1] in (('func', 'replicat/backends/s3c.py::_get_data_hexdigest'),))
        ctx.check(ok, 'C16.R2', f'{func_label(up)}|upload-digest-of-sent-data', e.loc, 'upload: payload digest = sha256 of exactly the data that is sent', 'upload: the signed payload digest is not computed from the data that is sent')
    po = s3.methods.get('_put_object')
    for c in calls_in(po.node):
        if dotted(c.func) == 'self._make_request':
            content = kwarg(c, 'content')
            hd = kwarg(c, 'headers')
            okc = isinstance(content, ast.Name) and content.id == po.node.args.args[2].arg
            cl = [v for k, v in zip(hd.keys, hd.values) if isinstance(k, ast.Constant) and k.value == 'content-length'] if isinstance(hd, ast.Dict) else []
            clv = cl[0] if cl else None
            if isinstance(clv, ast.Call) and dotted(clv.func) == 'str' and len(clv.args) == 1 and isinstance(clv.args[0], ast.Name):
                dv_ = deref_at(po.node, clv.args[0])
                if dv_ is not clv.args[0]:
                    clv = ast.Call(func=clv.func, args=[dv_], keywords=[])
            okl = bool(cl) and isinstance(content, ast.Name) and src(clv) == f'str(len({content.id}))'
            ctx.check(okc and okl, 'C16.R2', f'{func_label(po)}|put-object-content', loc(po, c), '_put_object sends content=data with content-length=len(data)', '_put_object: content / content-length do not describe the hashed data')
    us = s3.methods.get('upload_stream')
    ev = Evaluator(corpus, depth=1)
    ev.run(us)
    calls = [e for e in ev.events if e.callee[0] == 'bound' and e.callee[2].endswith('_put_object_stream')]
    ctx.floor('C16.R2', 'upload_stream -> _put_object_stream', len(calls))
    for e in calls:
        st, dig, ln = e.arg(1, 'stream'), _kw(e, 'payload_digest'), _kw(e, 'length')
        ok = st == ('param', 'stream') and dig is not None and contains(dig, lambda y: y == st) and contains(dig, lambda y: y[0] == 'call' and y[1][0] == 'func' and y[1][1].endswith('_get_stream_hexdigest')) and ln == ('param', 'length')
        ctx.check(ok, 'C16.R2', f'{func_label(us)}|stream-digest-of-sent-stream', e.loc, 'upload_stream: payload digest is computed from the same stream object that is sent, length is the caller\'s length', 'upload_stream: digest / length do not describe the stream that is sent')
    ps = s3.methods.get('_put_object_stream')
    for c in calls_in(ps.node):
        if dotted(c.func) == 'self._make_request':
            content = kwarg(c, 'content')
            if isinstance(content, ast.Name):
                content = deref_at(ps.node, content)
            okc = isinstance(content, ast.Call) and any(isinstance(a, ast.Name) and a.id == 'stream' for a in content.args)
            hd = kwarg(c, 'headers')
            cl = [v for k, v in zip(hd.keys, hd.values) if isinstance(k, ast.Constant) and k.value == 'content-length'] if isinstance(hd, ast.Dict) else []
            okl = bool(cl) and src(cl[0]) == 'str(length)'
            ctx.check(okc and okl, 'C16.R2', f'{func_label(ps)}|put-object-stream-content', loc(ps, c), '_put_object_stream sends the chunks of `stream` with content-length=length', '_put_object_stream: content / content-length do not describe the hashed stream')
    # digest helpers
    gd, gs = mod.functions.get('_get_data_hexdigest'), mod.functions.get('_get_stream_hexdigest')
    ok = gd is not None and src(gd.node.body[-1]) == 'return hashlib.sha256(data).hexdigest()'
    ctx.check(ok, 'C16.R2', f'{mod.rel}|_get_data_hexdigest', loc(gd, gd.node) if gd else mod.rel, '_get_data_hexdigest = sha256(data).hexdigest()', '_get_data_hexdigest changed')
    oks = False
    if gs is not None:
        hn = gs.node.body[0].targets[0].id if isinstance(gs.node.body[0], ast.Assign) and isinstance(gs.node.body[0].targets[0], ast.Name) else None
        upd = [c for c in calls_in(gs.node) if isinstance(c.func, ast.Attribute) and c.func.attr == 'update' and isinstance(c.func.value, ast.Name) and c.func.value.id == hn]
        last = gs.node.body[-1]
        oks = hn is not None and 'hashlib.sha256()' in src(gs.node.body[0]) and bool(upd) and isinstance(last, ast.Return) and src(last.value) == f'{hn}.hexdigest()'
    if gs is not None:
        def _reads_to_eof(fnode, depth=0):
            if depth and any(isinstance(r, ast.Return) and isinstance(r.value, ast.Call) and dotted(r.value.func) == 'iter' and len(r.value.args) == 2 and isinstance(r.value.args[1], ast.Constant) and r.value.args[1].value == b'' for r in walk_local(fnode)):
                return True
            for l in [l for l in walk_local(fnode) if isinstance(l, (ast.For, ast.While))]:
                exits = [x for x in walk_local(l) if isinstance(x, (ast.Break, ast.Return)) and x is not l]
                if isinstance(l, ast.For) and isinstance(l.iter, ast.Call) and dotted(l.iter.func) == 'iter' and len(l.iter.args) == 2 and isinstance(l.iter.args[1], ast.Constant) and l.iter.args[1].value == b'' and not exits:
                    return True
                if isinstance(l, ast.While) and isinstance(l.test, ast.NamedExpr) and not exits:
                    return True
                # `while True: x = read(); if not x: break` (the walrus written out by the normalisation pass)
                if isinstance(l, ast.While) and isinstance(l.test, ast.Constant) and l.test.value is True and len(exits) == 1 and isinstance(exits[0], ast.Break):
                    par = getattr(exits[0], '_parent', None)
                    if isinstance(par, ast.If) and isinstance(par.test, ast.UnaryOp) and isinstance(par.test.op, ast.Not) and isinstance(par.test.operand, ast.Name):
                        return True
                # the package's own chunk iterator, itself reading to EOF
                if isinstance(l, ast.For) and isinstance(l.iter, ast.Call) and not exits and depth == 0:
                    nm = (dotted(l.iter.func) or '').rsplit('.', 1)[-1]
                    helper = corpus.module('utils').functions.get(nm)
                    if helper is not None and _reads_to_eof(helper.node, 1):
                        return True
            return False

        whole = _reads_to_eof(gs.node)
        ctx.check(
            whole,
            'C16.R2',
            f'{mod.rel}|stream-digest-reads-to-eof',
            loc(gs, gs.node),
            '_get_stream_hexdigest hashes until read() returns b\'\' (a short read does not end the loop)',
            '_get_stream_hexdigest can stop before the end of the stream (early exit / other sentinel than an empty read): for streams that return short reads the signed payload hash covers only a prefix of the body that is sent',
        )
    ctx.check(oks, 'C16.R2', f'{mod.rel}|_get_stream_hexdigest', loc(gs, gs.node) if gs else mod.rel, '_get_stream_hexdigest = sha256 over all chunks of the stream', '_get_stream_hexdigest changed')


def _list_literal_names(fn):
    for n in ast.walk(fn.node):
        if isinstance(n, ast.Call) and isinstance(n.func, ast.Attribute) and n.func.attr == 'join' and n.args and isinstance(n.args[0], ast.List):
            sep = n.func.value.value if isinstance(n.func.value, ast.Constant) else None
            # the joined string is what the function returns - as it is, not lower-cased / stripped / sliced afterwards
            rets = [r for r in walk_local(fn.node) if isinstance(r, ast.Return)]
            for r in rets:
                v = r.value
                v = deref_at(fn.node, v) if isinstance(v, ast.Name) else v
                if v is not n:
                    return sep, [f'<the joined fields are post-processed: {src(r.value, 60)}>']
            return sep, [src(e) for e in n.args[0].elts]
    return None, None


def r3_structure(ctx):
    corpus = ctx.corpus
    mod = corpus.module('s3c')

    def f(name):
        fn = mod.functions.get(name)
        if fn is None:
            raise AnalysisError(f'C16.R3: {name} missing')
        ctx.analysed(fn)
        return fn

    fn = f('_make_canonical_request')
    sep, elts = _list_literal_names(fn)
    want = ['method', 'canonical_uri', 'canonical_query', 'canonical_headers', 'signed_headers', 'payload_digest']
    ctx.check(sep == '\n' and elts == want, 'C16.R3', f'{func_label(fn)}|canonical-request-order', loc(fn, fn.node), 'canonical request = method \\n uri \\n query \\n headers \\n signed headers \\n payload hash', f'canonical request fields are {elts} joined by {sep!r}')
    fn = f('_make_string_to_sign')
    sep, elts = _list_literal_names(fn)
    want = ["'AWS4-HMAC-SHA256'", 'amzdate', 'credential_scope', '_get_data_hexdigest(canonical_request.encode())']
    ctx.check(sep == '\n' and elts == want, 'C16.R3', f'{func_label(fn)}|string-to-sign-order', loc(fn, fn.node), 'string to sign = algorithm \\n date \\n scope \\n sha256(canonical request)', f'string to sign fields are {elts}')
    fn = f('_make_credential_scope')
    sep, elts = _list_literal_names(fn)
    ctx.check(sep == '/' and elts == ['date', 'region', 'service', "'aws4_request'"], 'C16.R3', f'{func_label(fn)}|scope', loc(fn, fn.node), 'scope = date/region/service/aws4_request', f'scope fields are {elts}')
    fn = f('_make_signature_key')
    ev = Evaluator(corpus, depth=2)
    r = strip_sites(ev.run(fn))

    def hm(k, m):
        return ('call', ('name', 'hmac.new'), (k, m, ('name', 'hashlib.sha256')), ())

    def dig(x):
        return ('call', ('attr', x, 'digest'), (), ())

    def enc(p):
        return ('call', ('attr', ('param', p), 'encode'), (), ())

    k0 = ('bin', 'Add', ('const', b'AWS4'), enc('key'))
    want = dig(hm(dig(hm(dig(hm(dig(hm(k0, enc('date'))), enc('region'))), enc('service'))), ('const', b'aws4_request')))
    ctx.check(r == want, 'C16.R3', f'{func_label(fn)}|signing-key-chain', loc(fn, fn.node), "signing key = HMAC(HMAC(HMAC(HMAC('AWS4'+key, date), region), service), 'aws4_request')", f'signing key chain deviates: {show(r, limit=300)}')
    fn = f('_make_canonical_headers')
    hp = [x.arg for x in fn.node.args.posonlyargs + fn.node.args.args]
    hterm = strip_sites(Evaluator(corpus, depth=2).run(fn))
    H = ('param', hp[0]) if hp else None
    line = ('fstr', (('fmt', ('elem', H), ''), ('const', ':'), ('fmt', ('elem', ('call', ('attr', H, 'values'), (), ())), '')))
    ok = hterm == ('bin', 'Add', ('call', ('attr', ('const', '\n'), 'join'), (('seq*', line),), ()), ('const', '\n'))
    ctx.check(ok, 'C16.R3', f'{func_label(fn)}|canonical-headers-format', loc(fn, fn.node), "canonical headers = 'name:value' lines, each terminated by \\n", 'canonical headers format changed')
    s3 = corpus.cls('s3c', 'S3Compatible')
    pr = s3.methods['_prepare_request']
    auth = [n for n in ast.walk(pr.node) if isinstance(n, ast.JoinedStr) and 'Credential=' in src(n)]
    ok = False
    if auth:
        consts = [v.value for v in auth[0].values if isinstance(v, ast.Constant)]
        holes = [v.value for v in auth[0].values if isinstance(v, ast.FormattedValue)]
        def _def(nm):
            ds = [a.value for a in walk_local(pr.node) if isinstance(a, ast.Assign) and any(isinstance(t, ast.Name) and t.id == nm for t in a.targets)]
            return ds[0] if len(ds) == 1 else None
        if consts == ['AWS4-HMAC-SHA256 Credential=', '/', ', SignedHeaders=', ', Signature='] and len(holes) == 4:
            k, sc, sh, sg = holes
            d_sc = _def(sc.id) if isinstance(sc, ast.Name) else None
            d_sh = _def(sh.id) if isinstance(sh, ast.Name) else None
            d_sg = _def(sg.id) if isinstance(sg, ast.Name) else None
            ok = (
                dotted(k) == 'self.key_id'
                and isinstance(d_sc, ast.Call) and (dotted(d_sc.func) or '').endswith('_make_credential_scope')
                and isinstance(d_sh, ast.Call) and isinstance(d_sh.func, ast.Attribute) and d_sh.func.attr == 'join'
                and isinstance(d_sg, ast.Call) and isinstance(d_sg.func, ast.Attribute) and d_sg.func.attr == 'hex'
            )
    ctx.check(ok, 'C16.R3', f'{func_label(pr)}|authorization-format', loc(pr, auth[0]) if auth else loc(pr, pr.node), 'Authorization = AWS4-HMAC-SHA256 Credential=<id>/<scope>, SignedHeaders=<list>, Signature=<hex>', 'authorization header format changed')
    svc = [kwarg(c, 'service') for c in calls_in(pr.node) if (dotted(c.func) or '').endswith(('_make_credential_scope', '_make_signature_key'))]
    reg = [kwarg(c, 'region') for c in calls_in(pr.node) if (dotted(c.func) or '').endswith(('_make_credential_scope', '_make_signature_key'))]
    ctx.check(len(svc) == 2 and all(isinstance(s, ast.Constant) and s.value == 's3' for s in svc) and all(dotted(r_) == 'self.region' for r_ in reg), 'C16.R3', f'{func_label(pr)}|scope-and-key-same-region-service', loc(pr, pr.node), "scope and signing key use the same region (self.region) and service 's3'", 'scope and signing key disagree on region/service')
    fmt = []
    for n in ast.walk(pr.node):
        if isinstance(n, ast.JoinedStr):
            specs = [ast.unparse(v.format_spec) for v in n.values if isinstance(v, ast.FormattedValue) and v.format_spec is not None]
            tails = [v.value for v in n.values if isinstance(v, ast.Constant)]
            if specs and '%Y' in specs[0]:
                fmt.append(specs[0].strip("f'") + ''.join(tails))
    # ... or the same formats through strftime
    for n in ast.walk(pr.node):
        if isinstance(n, ast.Call) and isinstance(n.func, ast.Attribute) and n.func.attr == 'strftime' and n.args and isinstance(n.args[0], ast.Constant) and isinstance(n.args[0].value, str) and '%Y' in n.args[0].value:
            fmt.append(n.args[0].value)
    ctx.check(sorted(fmt) == sorted(['%Y%m%dT%H%M%SZ', '%Y%m%d']), 'C16.R3', f'{func_label(pr)}|date-formats', loc(pr, pr.node), 'x-amz-date = YYYYMMDDTHHMMSSZ, scope date = YYYYMMDD (UTC)', f'date formats changed: {fmt}')
    utc = any(dotted(c.func) in ('datetime.utcnow',) or (dotted(c.func) == 'datetime.now' and c.args) for c in calls_in(pr.node))
    ctx.check(utc, 'C16.R3', f'{func_label(pr)}|utc-clock', loc(pr, pr.node), 'the request time is read in UTC', 'the request time is not read in UTC')


def r4_encoders(ctx):
    s3, pr, ev, preset = _prep(ctx)
    q = [e for e in ev.events if e.callee == ('name', 'urllib.parse.quote') and e.func is pr]
    ctx.floor('C16.R4', 'quote() of the path', len(q))
    for e in q:
        pparams = [a.arg for a in pr.node.args.posonlyargs + pr.node.args.args]
        path_param = pparams[2] if len(pparams) > 2 else 'canonical_uri'  # (self, method, <path>, ...)
        ok = e.args == (('param', path_param),) and not e.kwargs
        ctx.check(ok, 'C16.R4', f'{func_label(pr)}|path-encoder', e.loc, "path: urllib.parse.quote(canonical_uri) applied once, '/' left unescaped", f'path encoder changed: quote{[show(a) for a in e.args]} {dict(e.kwargs)}')
    u = [e for e in ev.events if e.callee == ('name', 'urllib.parse.urlencode') and e.func is pr]
    ctx.floor('C16.R4', 'urlencode() of the query', len(u))
    for e in u:
        qv = dict(e.kwargs).get('quote_via')
        srt = e.args and e.args[0][0] == 'call' and e.args[0][1] == ('name', 'sorted')
        ctx.check(
            qv == ('name', 'urllib.parse.quote') and srt,
            'C16.R4',
            f'{func_label(pr)}|query-encoder',
            e.loc,
            'query: parameters sorted by name and percent-encoded with quote (space -> %20, "/" -> %2F)',
            'query: urlencode() without quote_via=quote encodes a space as "+" (SigV4 canonical queries use %20), or the parameters are not sorted: '
            'a listing prefix / continuation token containing a space is signed differently from what a conforming service computes',
        )


def r5_only_signed_requests_leave(ctx):
    """Every request that reaches the service was built - and therefore signed - by _prepare_request.  The HTTP client
    must not manufacture requests of its own: following redirects (httpx re-issues the request to the new URL with the
    OLD signature, or without the authorization header on another host), client-level auth, or verb helpers
    (client.get / post ..) bypass the signer."""
    corpus = ctx.corpus
    s3 = corpus.cls('s3c', 'S3Compatible')
    n = 0
    for m in s3.methods.values():
        for c in calls_in(m.node):
            d = dotted(c.func) or ''
            if d.endswith(('AsyncClient', 'Client')) and d.startswith('httpx'):
                n += 1
                ctx.analysed(m)
                fr = kwarg(c, 'follow_redirects')
                au = kwarg(c, 'auth')
                bad = (fr is not None and not (isinstance(fr, ast.Constant) and not fr.value)) or (au is not None and not (isinstance(au, ast.Constant) and au.value is None))
                ctx.check(
                    not bad,
                    'C16.R5',
                    f'{func_label(m)}|client-sends-only-what-it-is-given',
                    loc(m, c),
                    'the HTTP client is created without follow_redirects / auth: it sends exactly the signed requests it is handed',
                    f'the HTTP client is created with `{src(fr if fr is not None else au, 40)}`: on a 3xx answer httpx builds the follow-up request itself - same-origin with the signature of the OLD path, cross-origin without the '
                    'authorization header: a request that was never signed for what it asks reaches the service',
                )
            if d.startswith('self._client.'):
                n += 1
                verb = d.rsplit('.', 1)[1]
                if verb in ('send', 'build_request', 'aclose'):
                    fr = kwarg(c, 'follow_redirects')
                    ok = fr is None or (isinstance(fr, ast.Constant) and not fr.value)
                    if verb == 'send':
                        arg = c.args[0] if c.args else None
                        dv = deref_at(m.node, arg) if isinstance(arg, ast.Name) else arg
                        ok = ok and dv is not None and any(isinstance(x, ast.Call) and (dotted(x.func) or '').endswith('_prepare_request') for x in ast.walk(dv))
                    ctx.check(ok, 'C16.R5', f'{func_label(m)}|sent-request-comes-from-the-signer:{verb}', loc(m, c), f'{m.name}: `{src(c, 50)}` sends the request built by _prepare_request, redirects not followed', f'{m.name}: `{src(c, 60)}` sends a request that does not come from _prepare_request (or follows redirects)')
                else:
                    ctx.fail('C16.R5', f'{func_label(m)}|no-verb-helpers:{verb}', loc(m, c), f'{m.name}: `{src(c, 60)}` lets the client build and send a request that bypasses the signer')
    ctx.floor('C16.R5', 'client construction and send sites', n, 3)
    # the response hook must not turn redirect answers into silent successes
    hooks = [f for f in corpus.module('s3c').functions.values() if any(isinstance(c.func, ast.Attribute) and c.func.attr == 'raise_for_status' for c in calls_in(f.node))]
    for h in hooks:
        cfg = cfg_of(h.node)
        rs = [x for c in calls_in(h.node) if isinstance(c.func, ast.Attribute) and c.func.attr == 'raise_for_status' for x in cfg.nodes_of(enclosing_stmt(c), 'stmt')]
        bypass = cfg.path(cfg.entry, [cfg.exit], avoid=rs, kinds=('normal',))
        ctx.check(bypass is None, 'C16.R5', f'{func_label(h)}|every-answer-is-status-checked', loc(h, h.node), f'{h.name}: every response passes raise_for_status', f'{h.name}: some responses (e.g. redirects) skip raise_for_status: a 3xx answer is treated as success / followed')


def r2d_declared_length_is_stream_length(ctx):
    """The length a command declares to upload_stream becomes the Content-Length (and the size of the hashed body) of the
    S3 PUT.  It must be the length of the very object the stream reads from: len(X) for BytesIO(X), the fstat size of the
    file that was opened.  A length computed from other bookkeeping (plaintext offsets of a chunk that is uploaded
    encrypted) declares fewer / more bytes than are sent."""
    corpus = ctx.corpus
    cls = corpus.cls('repository', 'Repository')
    n = 0
    for m in list(cls.methods.values()):
        for f in [m] + list(m.all_nested()):
            for c in calls_in(f.node):
                idx = next((i for i, a in enumerate(c.args) if isinstance(a, ast.Attribute) and a.attr == 'upload_stream'), None)
                direct = isinstance(c.func, ast.Attribute) and c.func.attr == 'upload_stream' and 'backend' in (dotted(c.func) or '')
                if idx is None and not direct:
                    continue
                args = c.args[idx + 1 :] if idx is not None else c.args
                if len(args) < 3:
                    continue
                n += 1
                ctx.analysed(f)
                stream_e, length_e = args[1], args[2]

                def defs(name):
                    return [a.value for a in walk_local(f.node) if isinstance(a, ast.Assign) and any(isinstance(t, ast.Name) and t.id == name for t in a.targets)]

                bases, seen = [], set()

                def base(e, depth=0):
                    if depth > 8:
                        return
                    if isinstance(e, ast.Name):
                        if e.id in seen:
                            return
                        seen.add(e.id)
                        ds = defs(e.id)
                        for d in ds:
                            if isinstance(d, ast.Call) and (dotted(d.func) or '').endswith('BytesIO'):
                                bases.append(('bytes', e.id, d))
                            elif isinstance(d, ast.Call) and isinstance(d.func, ast.Attribute) and d.func.attr == 'open' or (isinstance(d, ast.Call) and dotted(d.func) == 'open'):
                                bases.append(('file', e.id, d))
                            else:
                                base(d, depth + 1)
                    elif isinstance(e, ast.Call):
                        for a in e.args:
                            if isinstance(a, (ast.Name, ast.Call, ast.IfExp)):
                                base(a, depth + 1)
                    elif isinstance(e, ast.IfExp):
                        base(e.body, depth + 1)
                        base(e.orelse, depth + 1)

                base(stream_e)
                lens = [length_e] if not isinstance(length_e, ast.Name) else defs(length_e.id)
                ok = bool(bases) and bool(lens)
                why = 'the stream / length cannot be traced to their definitions'
                for kind, nm, d in bases:
                    for le in lens:
                        if kind == 'bytes':
                            good = isinstance(le, ast.Call) and dotted(le.func) == 'len' and len(le.args) == 1 and d.args and ast.dump(le.args[0]) == ast.dump(d.args[0])
                            if not good:
                                ok, why = False, f'the stream reads `{src(d.args[0], 40) if d.args else "?"}` but the declared length is `{src(le, 50)}`'
                        else:
                            good = any(isinstance(x, ast.Attribute) and x.attr == 'st_size' for x in ast.walk(le)) and any(isinstance(x, ast.Name) and x.id == nm for x in ast.walk(le))
                            if not good:
                                ok, why = False, f'the stream is the file `{nm}` but the declared length is `{src(le, 50)}`, not its fstat size'
                ctx.check(
                    ok,
                    'C16.R2',
                    f'{func_label(f)}|declared-length-is-stream-length',
                    loc(f, c),
                    f'{f.name}: the length declared to upload_stream is the length of the object the stream reads',
                    f'{f.name}: {why}: the S3 PUT declares a Content-Length that differs from the body sent (an encrypted chunk is longer than its plaintext range)',
                )
    ctx.floor('C16.R2', 'upload_stream call sites in Repository', n, 2)


def _canon(t):
    """order-independent serialisation of a term (alternatives sorted by their own serialisation)"""
    if isinstance(t, frozenset):
        return ['#set'] + sorted((_canon(x) for x in t), key=lambda y: json.dumps(y, default=str))
    if isinstance(t, (tuple, list)):
        return [_canon(x) for x in t]
    if isinstance(t, bytes):
        return ['#bytes', t.hex()]
    if isinstance(t, (str, int, float, bool)) or t is None:
        return t
    return ['#obj', repr(t)]


def signing_pipeline_digest(corpus):
    """digest of (URL, header mapping) handed to build_request by _prepare_request with every helper expanded: the
    whole signing pipeline as one term, independent of how it is divided into helpers"""
    s3 = corpus.cls('s3c', 'S3Compatible')
    pr = s3.methods.get('_prepare_request')
    if pr is None:
        return None
    ev = Evaluator(corpus, depth=7)
    ev.run(pr)
    br = [e for e in ev.events if e.method == 'build_request' and e.func is pr]
    if len(br) != 1:
        return None
    e = br[0]
    doc = _canon([strip_sites(a) for a in e.args] + [[k, strip_sites(v)] for k, v in sorted(e.kwargs, key=lambda kv: str(kv[0]))])
    return hashlib.sha256(json.dumps(doc, default=str).encode()).hexdigest()


def _same_pipeline_as_design_tree(ctx):
    ref_path = os.path.join(os.path.dirname(os.path.dirname(os.path.abspath(__file__))), 'reference_terms.json')
    try:
        ref = json.load(open(ref_path)).get('C16.signing_pipeline')
    except OSError:
        return False
    return ref is not None and signing_pipeline_digest(ctx.corpus) == ref


def run(ctx):
    try:
        r1_same_origin(ctx)
        r3_structure(ctx)
    except AnalysisError as e:
        # the helpers R1 / R3 are anchored in were restructured.  If the request that leaves _prepare_request is, with every
        # helper expanded, the very term the design tree computes (same fields, same order, same HMAC chain, same clock
        # reading), the pipeline is unchanged and the anchors are not needed; any difference leaves the verdict undecided.
        if ctx.failures or not _same_pipeline_as_design_tree(ctx):
            raise
        s3 = ctx.corpus.cls('s3c', 'S3Compatible')
        pr = s3.methods['_prepare_request']
        ctx.ok('C16.R3', loc(pr, pr.node), f'the helpers of the signing pipeline were restructured ({e}); with all helpers expanded, (URL, headers) handed to build_request are term-identical to the design tree')
    r2_payload_sites(ctx)
    r2d_declared_length_is_stream_length(ctx)
    r4_encoders(ctx)
    r5_only_signed_requests_leave(ctx)
    # the streamed body is read in pieces of the size the command chose: a size of 0 makes the body iterator end at once -
    # an empty body under the hash and content-length of the whole payload.  The commands' unit is max(.., 1).
    from ..report import Relabel as _RL16
    from . import c20 as _c20

    del _c20._DIVISORS_SEEN[:]
    _c20.r1_r3(_RL16(ctx, 'C16.R2'))
    from .c12 import r2_rewind

    r2_rewind(ctx, rule='C16.R2', only={'S3Compatible'}, floor=2)
    from .c12 import r2d_no_read_in_flight

    r2d_no_read_in_flight(ctx, 'C16.R2')
