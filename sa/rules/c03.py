"""C03 - Interrupted commands leave a consistent, usable repository.

Decides (structural): snapshot object last (must-pass-through incl. exception
paths), delete order, no swallowed backend errors, local temp -> replace
discipline, temp invisibility.  Not decided: atomicity of os.replace itself."""
from __future__ import annotations

import ast

from ..astutil import (
    ancestors,
    calls_in,
    const_value,
    dotted,
    enclosing_stmt,
    handler_reraises,
    is_catch_all,
    is_within,
    kwarg,
    src,
    walk_local,
)
from ..cfg import cfg_of, deref_at
from ..loader import AnalysisError
from ..terms import Evaluator, backend_method, contains, show, walk
from . import shared
from .common import (
    MUTATORS,
    backend_events,
    const_of,
    evaluate,
    func_label,
    is_list_files_elem,
    loc,
    nested_by_role,
    own_call_of_chain,
    own_stmt_of_chain,
    repo_cls,
    self_calls,
    term_has_const,
    wrappers_for,
)

EXPLANATION = (
    'Static must-pass-through / ordering analysis on the statement CFG (with exception edges, duplicated finally bodies and '
    'normal-completion nodes) of Repository.snapshot and Repository.delete_snapshots, value-provenance of every location that '
    'reaches a backend mutator, exception-discipline scan of every try around backend work, and the temp-file/replace discipline '
    'of the local backend (receiver provenance + dominance + handler shape + constant agreement between the temporary-name '
    'generator and the lister). Rules C03.R1-R5 of DESIGN.md.'
    ' Added with the seeded-defect rounds: Local.clean removes only directories that hold nothing (every scanned entry reported, non-directories never empty), every upload publishes, verified-bytes typestate of the cache (a truncated entry is discarded), local listing error discipline, skip-upload only on a backend answer.'
    ' Round 6: per-run stop flag of snapshot, bounded re-raising retry layer of every adapter, Local.clean removes with rmdir only.'
)
NOT_DECIDED = 'atomicity inside os.replace / a remote PUT (trusted base); the state after every concrete crash point is not executed'
TRUSTED = ['os.replace is atomic on the target file system', 'remote services publish an object atomically at the end of an upload', 'CPython ast']
ASSUMPTIONS = ['context managers other than contextlib.suppress do not swallow exceptions']

PROPAGATING_JOINS = {'asyncio.gather', 'gather', 'asyncio.wait_for'}
NON_PROPAGATING = {'asyncio.wait', 'asyncio.as_completed', 'asyncio.create_task', 'asyncio.ensure_future', 'asyncio.shield'}


def _join_kind(stmt, call_node):
    """How is the application `call_node` (inside stmt) joined? Returns
    ('propagating'|'nonpropagating'|'none', description)."""
    chain = []
    cur = call_node
    while cur is not None and cur is not stmt:
        chain.append(cur)
        cur = getattr(cur, '_parent', None)
    awaited = [n for n in chain if isinstance(getattr(n, '_parent', None), ast.Await)]
    if isinstance(getattr(call_node, '_parent', None), ast.Await):
        return 'propagating', 'direct await'
    for n in chain:
        if isinstance(n, ast.Call) and n is not call_node:
            name = dotted(n.func) or ''
            if name in PROPAGATING_JOINS:
                kw = kwarg(n, 'return_exceptions')
                if kw is not None and not (isinstance(kw, ast.Constant) and not kw.value):
                    return 'nonpropagating', f'{name}(return_exceptions={src(kw)})'
                if isinstance(getattr(n, '_parent', None), ast.Await) or any(
                    isinstance(getattr(a, '_parent', None), ast.Await) for a in chain if isinstance(a, ast.Call) and chain.index(a) > chain.index(n)
                ):
                    return 'propagating', f'await {name}(...)'
                return 'nonpropagating', f'{name}(...) is not awaited in this statement'
            if name in NON_PROPAGATING:
                return 'nonpropagating', f'{name}(...) does not raise the exceptions of the work it waits for'
    if awaited:
        return 'propagating', 'awaited'
    col = _collected_join(call_node)
    if col is not None:
        return col
    return 'none', 'the work is started but not awaited in this statement'


def _collected_join(call_node):
    """work started into a collection (`xs.append(start(..))`, `xs = [start(..) for ..]`) that is later joined
    by `await gather(*xs)` on every normal path"""
    from ..astutil import enclosing_func, enclosing_stmt as _es
    from ..cfg import cfg_of as _cfg_of

    par = getattr(call_node, '_parent', None)
    name = None
    if isinstance(par, ast.Call) and isinstance(par.func, ast.Attribute) and par.func.attr in ('append', 'add') and isinstance(par.func.value, ast.Name):
        name = par.func.value.id
    elif isinstance(par, (ast.ListComp, ast.SetComp, ast.GeneratorExp)) and par.elt is call_node:
        gp = getattr(par, '_parent', None)
        if isinstance(gp, ast.Assign) and len(gp.targets) == 1 and isinstance(gp.targets[0], ast.Name) and not isinstance(par, ast.GeneratorExp):
            name = gp.targets[0].id
    if name is None:
        return None
    fn = enclosing_func(call_node)
    if fn is None:
        return None
    cfg = _cfg_of(fn)
    start = _es(call_node)
    joins = []
    for c in ast.walk(fn):
        if isinstance(c, ast.Call) and (dotted(c.func) or '') in PROPAGATING_JOINS and any(isinstance(a, ast.Starred) and isinstance(a.value, ast.Name) and a.value.id == name for a in c.args):
            kw = kwarg(c, 'return_exceptions')
            if kw is not None and not (isinstance(kw, ast.Constant) and not kw.value):
                return 'nonpropagating', f'{dotted(c.func)}(*{name}, return_exceptions={src(kw)})'
            if isinstance(getattr(c, '_parent', None), ast.Await):
                joins.append(_es(c))
    if not joins:
        return None
    jn = [n for j in joins for n in cfg.nodes_of(j, 'stmt')]
    for s_ in cfg.nodes_of(start, ('ok', 'stmt')):
        if cfg.path(s_, [cfg.exit], avoid=jn, kinds=('normal',)) is not None:
            return 'nonpropagating', f'`{name}` is joined by gather only on some paths'
    return 'propagating', f'collected in `{name}` and joined by await gather(*{name})'


def _result_loops(fi, cfg):
    """Idiom: `for t in <done>: t.result()` at the top level of the function body
    (accepted as a propagating observation after asyncio.wait)."""
    out = []
    for st in fi.node.body:
        if isinstance(st, (ast.For,)) and st.body:
            first = st.body[0]
            if isinstance(first, ast.Expr) and isinstance(first.value, ast.Call):
                f = first.value.func
                if isinstance(f, ast.Attribute) and f.attr == 'result' and isinstance(f.value, ast.Name) and isinstance(st.target, ast.Name) and f.value.id == st.target.id:
                    out.append(st)
    return out


def r1_snapshot_last(ctx):
    corpus = ctx.corpus
    cls = repo_cls(corpus)
    snap = corpus.func('repository', 'Repository.snapshot')
    ctx.analysed(snap, *snap.all_nested())
    cfg = cfg_of(snap.node)
    SNAP = const_of(corpus, cls, 'SNAPSHOT_PREFIX')
    CHUNK = const_of(corpus, cls, 'CHUNK_PREFIX')
    u_stmts, w_apps = {}, {}
    mutator_stmts = {}
    for enc in (True, False):
        ev = evaluate(corpus, snap, modes={'encrypted': enc}, depth=7)
        ctx.count('terms_built', ev.terms_built)
        for m, e in backend_events(ev, MUTATORS):
            st = own_stmt_of_chain(e, snap)
            if st is None:
                continue
            locterm = e.args[0] if e.args else None
            if locterm is None:
                continue
            mutator_stmts[id(st)] = st
            if term_has_const(locterm, SNAP):
                u_stmts[id(st)] = st
            elif term_has_const(locterm, CHUNK):
                call = own_call_of_chain(e, snap)
                w_apps[id(call)] = (st, call)
    if not u_stmts:
        raise AnalysisError('C03.R1: no backend mutator with a snapshot location found in Repository.snapshot')
    if not w_apps:
        raise AnalysisError('C03.R1: no chunk upload reachable from Repository.snapshot')

    # W: propagating joins of the chunk-uploading work
    w_ok_nodes, w_desc, bad_joins = [], [], []
    for st, call in w_apps.values():
        kind, desc = _join_kind(st, call)
        if kind == 'propagating':
            w_ok_nodes += cfg.nodes_of(st, 'ok')
            w_desc.append(f'{loc(snap, st)} {desc}')
        else:
            bad_joins.append((st, desc))
    if not w_ok_nodes:
        for st in _result_loops(snap, cfg):
            w_ok_nodes += [n for n in cfg.nodes_of(st, 'join')]
            w_desc.append(f'{loc(snap, st)} for-loop observing .result()')

    # P: the producer future (thread entry that consumes props.chunkify)
    producers = nested_by_role(corpus, snap, lambda n: isinstance(n, ast.Attribute) and n.attr == 'chunkify')
    producers = [p for p in producers if p.parent is snap]
    ctx.floor('C03.R1', 'chunk producer (nested function reaching props.chunkify)', len(producers))
    fut_names = set()
    direct_p = []
    for st in walk_local(snap.node):
        if isinstance(st, ast.Assign) and isinstance(st.value, ast.Call):
            c = st.value
            f = c.func
            if isinstance(f, ast.Attribute) and f.attr in ('run_in_executor', 'submit'):
                names = {a.id for a in c.args if isinstance(a, ast.Name)}
                if names & {p.name for p in producers}:
                    for t in st.targets:
                        if isinstance(t, ast.Name):
                            fut_names.add(t.id)
    p_ok_nodes, p_desc = [], []
    for n in walk_local(snap.node):
        if isinstance(n, ast.Await):
            v = n.value
            hit = (isinstance(v, ast.Name) and v.id in fut_names) or (
                isinstance(v, ast.Call) and (dotted(v.func) or '') in ('asyncio.wrap_future', 'asyncio.shield', 'asyncio.wait_for') and any(isinstance(a, ast.Name) and a.id in fut_names for a in v.args)
            )
            if isinstance(v, ast.Call):
                f = v.func
                if isinstance(f, ast.Attribute) and f.attr == 'run_in_executor':
                    if {a.id for a in v.args if isinstance(a, ast.Name)} & {p.name for p in producers}:
                        hit = True
                if dotted(f) in PROPAGATING_JOINS and any(isinstance(a, ast.Name) and a.id in fut_names for a in v.args):
                    hit = True
            if hit:
                st = enclosing_stmt(n)
                if any(a is snap.node for a in [getattr(st, '_parent', None)] + list(_anc(st))):
                    pass
                p_ok_nodes += cfg.nodes_of(st, 'ok')
                p_desc.append(loc(snap, st))

    for st in u_stmts.values():
        site = loc(snap, st)
        for u in cfg.nodes_of(st, 'stmt'):
            if not cfg.is_reachable(u):
                continue
            # workers
            path = cfg.path(cfg.entry, [u], avoid=w_ok_nodes)
            if path is None and w_ok_nodes:
                ctx.ok('C03.R1', site, f'snapshot object upload is dominated by the normal completion of the worker join ({"; ".join(sorted(set(w_desc)))})')
            else:
                diag = []
                for bst, d in bad_joins:
                    diag.append(f'join at {loc(snap, bst)}: {d}')
                if path:
                    diag += ['counter-path (entry -> upload) avoiding normal completion of the join:'] + cfg.describe_path(_compress(path), snap.module)
                ctx.fail(
                    'C03.R1',
                    f'{func_label(snap)}|worker-join-dominates-snapshot-upload',
                    site,
                    'the snapshot object can be uploaded on a path where the chunk-upload workers did not complete normally '
                    '(a crash/failed chunk upload then leaves a visible snapshot with missing chunks)',
                    diag,
                )
            # producer
            path = cfg.path(cfg.entry, [u], avoid=p_ok_nodes)
            if path is None and p_ok_nodes:
                ctx.ok('C03.R1', site, f'snapshot object upload is dominated by the normal completion of `await <producer future>` ({"; ".join(sorted(set(p_desc)))})')
            else:
                ctx.fail(
                    'C03.R1',
                    f'{func_label(snap)}|producer-await-dominates-snapshot-upload',
                    site,
                    'the snapshot object can be uploaded on a path where the chunk producer future was not awaited to normal completion',
                    (['counter-path:'] + cfg.describe_path(_compress(path), snap.module)) if path else ['no await of the producer future found'],
                )
        # nothing mutates the backend after U
        after = []
        for ok in cfg.nodes_of(st, 'ok'):
            for n in cfg.reachable_from(ok):
                if n.kind in ('stmt', 'with_enter', 'test') and n.ast is not None and id(n.ast) in mutator_stmts and n.ast is not st:
                    after.append(n)
        ctx.check(
            not after,
            'C03.R1',
            f'{func_label(snap)}|no-mutation-after-snapshot-upload',
            site,
            'no backend mutation is reachable after the snapshot object upload',
            'a backend mutation is reachable after the snapshot object upload: ' + ', '.join(loc(snap, n.ast) for n in after[:3]),
        )
    ctx.count('cfg_nodes', len(cfg.nodes))


def _anc(n):
    cur = getattr(n, '_parent', None)
    while cur is not None:
        yield cur
        cur = getattr(cur, '_parent', None)


def _compress(path):
    keep = [n for n in path if n.kind in ('entry', 'stmt', 'dispatch', 'handler', 'finally', 'with_exit_exc', 'true', 'false', 'raise_exit', 'exit')]
    if len(keep) > 18:
        keep = keep[:4] + keep[-14:]
    return keep


def r2_delete_order(ctx, rule='C03.R2'):
    corpus = ctx.corpus
    cls = repo_cls(corpus)
    fn = corpus.func('repository', 'Repository.delete_snapshots')
    ctx.analysed(fn, *fn.all_nested())
    cfg = cfg_of(fn.node)
    SNAP = const_of(corpus, cls, 'SNAPSHOT_PREFIX')
    CHUNK = const_of(corpus, cls, 'CHUNK_PREFIX')
    ds, dc = {}, {}
    for enc in (True, False):
        ev = evaluate(corpus, fn, modes={'encrypted': enc}, depth=7, kwargs={'confirm': ('const', False)})
        for m, e in backend_events(ev, {'delete'}):
            st = own_stmt_of_chain(e, fn)
            call = own_call_of_chain(e, fn)
            if st is None or not e.args:
                continue
            t = e.args[0]
            if term_has_const(t, CHUNK):
                dc[id(st)] = (st, call)
            elif is_list_files_elem(t, SNAP):
                ds[id(st)] = (st, call)
            else:
                ctx.fail(rule, f'{func_label(fn)}|unclassified-delete', loc(fn, st), f'deletion target of unknown origin: {show(t, limit=200)}')
    if not ds or not dc:
        raise AnalysisError(f'{rule}: delete_snapshots: snapshot deletions found={len(ds)}, chunk deletions found={len(dc)}')
    same = set(ds) & set(dc)
    if same:
        st = ds[next(iter(same))][0]
        ctx.fail(
            rule,
            f'{func_label(fn)}|snapshot-deletes-before-chunk-deletes',
            loc(fn, st),
            'snapshot objects and chunk objects are deleted by the same join: a chunk can be removed while the snapshot that references it is still visible',
        )
        return
    ds_ok = []
    for st, call in ds.values():
        kind, desc = _join_kind(st, call)
        if kind == 'propagating':
            ds_ok += cfg.nodes_of(st, 'ok')
    for st, call in dc.values():
        for n in cfg.nodes_of(st, ('stmt', 'with_enter')):
            path = cfg.path(cfg.entry, [n], avoid=ds_ok)
            if path is None and ds_ok:
                ctx.ok(rule, loc(fn, st), 'chunk deletions are dominated by the normal completion of the snapshot-object deletions')
            else:
                ctx.fail(
                    rule,
                    f'{func_label(fn)}|snapshot-deletes-before-chunk-deletes',
                    loc(fn, st),
                    'chunk objects can be deleted on a path where the snapshot objects were not (all) deleted first: an interruption leaves a visible snapshot without its chunks',
                    (['counter-path:'] + cfg.describe_path(_compress(path), fn.module)) if path else [],
                )


def r3_no_swallow(ctx):
    if not shared.control_gather_flag():
        raise AnalysisError('C03.R3: positive control for return_exceptions matcher did not fire')
    n = shared.gathers_propagate(ctx, 'C03.R3')
    ctx.floor('C03.R3', 'asyncio.gather call sites in repository.py', n, 4)
    shared.local_listing_errors_propagate(ctx, 'C03.R3')
    shared.no_swallowed_backend_errors(ctx, 'C03.R3')


# ---- local backend --------------------------------------------------------
TEMP_CTORS = ('NamedTemporaryFile', 'mkstemp', 'TemporaryFile', 'mktemp')


def _is_temp_term(t):
    return contains(t, lambda x: x[0] == 'call' and x[1][0] == 'name' and x[1][1].rsplit('.', 1)[-1] in TEMP_CTORS)


def _file_backends(corpus):
    base = corpus.cls('base', 'Backend')
    out = []
    for c in corpus.subclasses_of(base):
        if c.module.rel.endswith('local.py'):
            out.append(c)
    return out


def r4_local_atomic(ctx):
    corpus = ctx.corpus
    classes = _file_backends(corpus)
    ctx.floor('C03.R4', 'file-system backend classes', len(classes))
    for ci in classes:
        for mname in ('upload', 'upload_stream'):
            fi = corpus.method(ci, mname)
            if fi is None:
                raise AnalysisError(f'C03.R4: {ci.name}.{mname} missing')
            ctx.analysed(fi)
            ev = Evaluator(corpus, depth=5)
            ev.run(fi)
            cfg = cfg_of(fi.node)
            key0 = func_label(fi)
            writes, replaces, temps = [], [], []
            for e in ev.events:
                if e.synthetic:
                    continue
                c = e.callee
                own = own_call_of_chain(e, fi)
                if c[0] == 'attr':
                    recv, meth = c[1], c[2]
                    if meth == 'write_bytes' or meth == 'write_text':
                        writes.append((own, recv, meth))
                    elif meth == 'open':
                        mode = e.arg(0, 'mode')
                        if mode and mode[0] == 'const' and isinstance(mode[1], str) and any(ch in mode[1] for ch in 'wax+'):
                            writes.append((own, recv, f"open({mode[1]!r})"))
                    elif meth in ('replace', 'rename'):
                        replaces.append((own, recv, e.arg(0)))
                elif c[0] == 'name':
                    nm = c[1]
                    if nm in ('open', 'io.open') and len(e.args) >= 1:
                        mode = e.arg(1, 'mode')
                        if mode and mode[0] == 'const' and any(ch in str(mode[1]) for ch in 'wax+'):
                            writes.append((own, e.args[0], 'open()'))
                    elif nm in ('os.replace', 'os.rename', 'shutil.move') and len(e.args) >= 2:
                        replaces.append((own, e.args[0], e.args[1]))
                    elif nm.rsplit('.', 1)[-1] in TEMP_CTORS:
                        temps.append(e)
            site = loc(fi, fi.node)
            if not writes:
                raise AnalysisError(f'C03.R4: no data write found in {fi.qual}')
            # (i) every data write goes to the temporary
            for own, recv, how in writes:
                ctx.check(
                    _is_temp_term(recv),
                    'C03.R4',
                    f'{key0}|write-goes-to-temporary',
                    loc(fi, own),
                    f'{fi.qual}: data is written ({how}) to the temporary file, not to the destination',
                    f'{fi.qual}: data is written ({how}) directly to {show(recv, limit=120)} - a crash leaves a partially written object visible',
                )
            # (ii) publish by one replace whose target is the destination, temp in the same directory
            ctx.check(
                len(replaces) >= 1,
                'C03.R4',
                f'{key0}|publish-by-replace',
                site,
                f'{fi.qual}: object is published by replace/rename',
                f'{fi.qual}: no replace/rename of the temporary onto the destination',
            )
            for own, srcterm, dst in replaces:
                ctx.check(
                    _is_temp_term(srcterm) and dst is not None and not _is_temp_term(dst),
                    'C03.R4',
                    f'{key0}|replace-temp-onto-destination',
                    loc(fi, own),
                    f'{fi.qual}: replace moves the temporary onto the destination',
                    f'{fi.qual}: replace source/target are not (temporary -> destination)',
                )
                for te in temps:
                    d = te.arg(None, 'dir')
                    same_dir = d is not None and dst is not None and d == ('attr', dst, 'parent')
                    ctx.check(
                        same_dir,
                        'C03.R4',
                        f'{key0}|temporary-in-destination-directory',
                        loc(te, te.node),
                        f'{fi.qual}: temporary is created in the destination\'s own directory (same file system, atomic replace possible)',
                        f'{fi.qual}: temporary directory {show(d, limit=80) if d else "<default tmp dir>"} is not `destination.parent` of the replace target - replace may cross file systems / is not atomic',
                    )
            # (ii-b) every call publishes: no normal way out of the method that does not pass the replace (an "already there,
            # nothing to do" shortcut is wrong for every object whose name is not derived from its content, e.g. `config`)
            rnodes = [x for rown, _s, _d in replaces for x in cfg.nodes_of(enclosing_stmt(rown), ('stmt', 'ok'))]
            skip = cfg.path(cfg.entry, [cfg.exit], avoid=rnodes, kinds=('normal',)) if rnodes else None
            ctx.check(
                skip is None,
                'C03.R4',
                f'{key0}|every-call-publishes',
                site,
                f'{fi.qual}: every successful call replaces the destination with the given data',
                f'{fi.qual}: a call can return successfully without having stored the data (path {" -> ".join(f"{n.kind}@{n.lineno}" for n in (skip or []) if n.lineno)[:120]}): '
                'an existing object of the same name keeps its old content - fatal for names that are not content-derived (the repository config), and for objects damaged earlier',
            )
            # (iii) writes complete (file closed) before replace
            for rown, _s, _d in replaces:
                rst = enclosing_stmt(rown)
                for wown, recv, how in writes:
                    wst = enclosing_stmt(wown)
                    if isinstance(wst, (ast.With, ast.AsyncWith)):
                        done = cfg.nodes_of(wst, 'with_exit')
                        done = [n for n in done if n.label == 'normal']
                    else:
                        # `file = temp.open('wb')` ... needs a close: look for enclosing with on the opened name
                        done = cfg.nodes_of(wst, 'ok')
                        if how.startswith('open') and not isinstance(wst, (ast.With, ast.AsyncWith)):
                            done = [n for w in walk_local(fi.node) if isinstance(w, (ast.With, ast.AsyncWith)) and w.lineno >= wst.lineno for n in cfg.nodes_of(w, 'with_exit') if n.label == 'normal'] or []
                            # or an explicit close of the opened handle (try/finally: handle.close())
                            if isinstance(wst, ast.Assign) and len(wst.targets) == 1 and isinstance(wst.targets[0], ast.Name):
                                hname = wst.targets[0].id
                                for c_ in calls_in(fi.node):
                                    if isinstance(c_.func, ast.Attribute) and c_.func.attr == 'close' and isinstance(c_.func.value, ast.Name) and c_.func.value.id == hname and not c_.args:
                                        done += cfg.nodes_of(enclosing_stmt(c_), 'ok') or cfg.nodes_of(enclosing_stmt(c_), 'stmt')
                    good = all(cfg.set_dominates(done, r) for r in cfg.nodes_of(rst, 'stmt')) and bool(done)
                    ctx.check(
                        good,
                        'C03.R4',
                        f'{key0}|write-completes-before-replace',
                        loc(fi, rst),
                        f'{fi.qual}: the data write has completed (file closed) on every path to the replace',
                        f'{fi.qual}: replace at {loc(fi, rst)} is reachable before the write at {loc(fi, wst)} has completed/closed - a partially written file can be published',
                    )
            # (iv) failure path: catch-all handler unlinks the temporary and re-raises
            for wown, recv, how in writes:
                wst = enclosing_stmt(wown)
                tries = [a for a in _anc(wst) if isinstance(a, ast.Try) and any(is_within(wst, b) for b in a.body)]
                ok = False
                for t in tries:
                    for h in t.handlers:
                        if is_catch_all(h, accept_exception=False) and handler_reraises(h):
                            if any(isinstance(c.func, ast.Attribute) and c.func.attr in ('unlink', 'remove') or dotted(c.func) in ('os.unlink', 'os.remove') for c in calls_in(h)):
                                ok = True
                ctx.check(
                    ok,
                    'C03.R4',
                    f'{key0}|failure-removes-temporary-and-reraises',
                    loc(fi, wst),
                    f'{fi.qual}: a failure after the temporary exists removes it and re-raises (catch-all handler)',
                    f'{fi.qual}: no catch-all handler that unlinks the temporary and re-raises around the write',
                )


def r5_temp_invisible(ctx):
    corpus = ctx.corpus
    for ci in _file_backends(corpus):
        # the temporary-name generator's suffix
        suffixes = []
        for f in ci.methods.values():
            for c in calls_in(f.node):
                nm = dotted(c.func) or ''
                if nm.rsplit('.', 1)[-1] in TEMP_CTORS:
                    s = kwarg(c, 'suffix')
                    suffixes.append((f, c, const_value(s) if s is not None else None))
        if not suffixes:
            up = corpus.method(ci, 'upload') or next(iter(ci.methods.values()))
            ctx.fail(
                'C03.R5',
                f'{func_label(up)}|temporary-name-unique',
                loc(up, up.node),
                f'{ci.name}: no temporary file is created through tempfile (NamedTemporaryFile / mkstemp): hand-made temporary names are not unique per writer - '
                'two concurrent uploads of the same object (threads of one process, or processes) share one temporary file and a half-written one can be published',
            )
            continue
        lf = corpus.method(ci, 'list_files')
        if lf is None:
            raise AnalysisError('C03.R5: list_files missing')
        ctx.analysed(lf)
        ev = Evaluator(corpus, depth=5)
        ev.run(lf)
        cfg = cfg_of(lf.node)
        yields = [n for n in walk_local(lf.node) if isinstance(n, (ast.Yield, ast.YieldFrom))]
        ctx.floor('C03.R5', 'yield statements in list_files', len(yields))
        fctx = ev.entry_fctx
        # re-evaluate to get per-yield value terms: use assign-free approach: evaluate yields via events on str ops
        tests = []
        for n in walk_local(lf.node):
            if isinstance(n, ast.If):
                for c in calls_in(n.test):
                    if isinstance(c.func, ast.Attribute) and c.func.attr == 'endswith' and c.args:
                        tests.append((n, c))
        for f, c, suffix in suffixes:
            site = loc(f, c)
            if not isinstance(suffix, str) or not suffix:
                ctx.fail('C03.R5', f'{func_label(f)}|temp-suffix-constant', site, 'temporary files are created without a constant, non-empty suffix that the lister could exclude')
                continue
            for y in yields:
                yst = enclosing_stmt(y)
                guard_ok = False
                why = f'no `endswith({suffix!r})` exclusion dominates the yield'
                for ifn, call in tests:
                    arg = call.args[0]
                    vals = [const_value(e) for e in arg.elts] if isinstance(arg, ast.Tuple) else [const_value(arg)]
                    if suffix not in vals:
                        continue
                    # exclusion = the branch that does not reach the yield
                    # the edge on which the path does NOT end with the suffix: false edge of `if p.endswith(s)`, true edge of `if not p.endswith(s)`
                    tst = ifn.test
                    if tst is call:
                        fnodes = cfg.nodes_of(ifn, 'false')
                    elif isinstance(tst, ast.UnaryOp) and isinstance(tst.op, ast.Not) and tst.operand is call:
                        fnodes = cfg.nodes_of(ifn, 'true')
                    else:
                        continue
                    ynodes = cfg.nodes_of(yst, 'stmt')
                    if all(cfg.set_dominates(fnodes, yn) for yn in ynodes) and fnodes:
                        # tested value must be the yielded value
                        recv = call.func.value
                        yv = y.value
                        if _derives_from(lf, ev, yv, recv):
                            guard_ok = True
                        else:
                            why = (
                                f'the `endswith({suffix!r})` test at {loc(lf, ifn)} is applied to `{src(recv)}`, which is not the value '
                                f'the yielded path `{src(yv)}` is computed from (nested temporaries are not excluded)'
                            )
                ctx.check(
                    guard_ok,
                    'C03.R5',
                    f'{func_label(lf)}|temp-exclusion-dominates-yield',
                    loc(lf, yst),
                    f'every listed path passed the `endswith({suffix!r})` exclusion applied to that same path',
                    why,
                )
        # readers open exactly self.path / name
        for mname in ('exists', 'download', 'download_stream'):
            fi = corpus.method(ci, mname)
            if fi is None:
                continue
            ctx.analysed(fi)
            bad = [c for c in calls_in(fi.node) if (dotted(c.func) or '').rsplit('.', 1)[-1] in ('glob', 'rglob', 'iglob', 'scandir', 'listdir', 'iterdir')]
            ctx.check(
                not bad,
                'C03.R5',
                f'{func_label(fi)}|reader-opens-exact-name',
                loc(fi, fi.node),
                f'{fi.qual} addresses exactly one path (no directory scan / glob that could match a temporary)',
                f'{fi.qual} scans/globs the directory: a temporary sibling could be observed',
            )


def _derives_from(fi, ev, value_node, source_node) -> bool:
    """Structural def-use inside one function: does value_node's expression
    derive (through local assignments) from the variable/expression source_node?"""
    src_names = {n.id for n in ast.walk(source_node) if isinstance(n, ast.Name)}
    if not isinstance(source_node, ast.Name):
        # attribute of a variable (entry.name): the yielded value must use that
        # same attribute expression
        want = ast.unparse(source_node)
        seen = set()

        def uses(expr, depth=0):
            if depth > 6:
                return False
            if want in ast.unparse(expr):
                return True
            for n in ast.walk(expr):
                if isinstance(n, ast.Name) and n.id not in seen:
                    seen.add(n.id)
                    for d in _defs_of(fi, n.id):
                        if uses(d, depth + 1):
                            return True
            return False

        return uses(value_node)
    target = source_node.id
    seen = set()

    def uses(expr, depth=0):
        if depth > 6:
            return False
        for n in ast.walk(expr):
            if isinstance(n, ast.Name):
                if n.id == target:
                    return True
                if n.id not in seen:
                    seen.add(n.id)
                    for d in _defs_of(fi, n.id):
                        if uses(d, depth + 1):
                            return True
        return False

    return uses(value_node)


def _defs_of(fi, name):
    out = []
    for n in walk_local(fi.node):
        if isinstance(n, ast.Assign):
            for t in n.targets:
                if isinstance(t, ast.Name) and t.id == name:
                    out.append(n.value)
        elif isinstance(n, (ast.For, ast.AsyncFor)) and isinstance(n.target, ast.Name) and n.target.id == name:
            pass  # loop variable: a fresh element, not derived from other locals
    return out


def is_within_lp(a, lp):
    return any(a is x for x in ast.walk(lp))


def r7_local_clean(ctx):
    """Local.clean removes a directory only when it holds nothing at all: whatever an interrupted command left in a
    shard directory (a temporary, a stray file) keeps the directory, so the follow-up `clean` cannot fail on a
    non-empty rmdir.  Every entry of the scan is reported to the caller, and a non-directory entry is reported as
    "not empty"."""
    corpus = ctx.corpus
    n = 0
    for ci in _file_backends(corpus):
        cl = corpus.method(ci, 'clean')
        if cl is None:
            continue
        pool = list(ci.methods.values()) + list(ci.module.functions.values())
        # ... or a function of another module of the package that clean calls by its imported name
        called = {x.id for x in ast.walk(cl.node) if isinstance(x, ast.Name)}
        for m_ in corpus.modules.values():
            if m_ is not ci.module:
                pool += [f_ for n_, f_ in m_.functions.items() if n_ in called and n_ not in ci.module.functions]
        # the removal itself: rmdir, which refuses a directory that is no longer empty.  A recursive / forgiving removal
        # destroys an object another client stored in the directory after the scan classified it
        removers = [c for f_ in [cl] + [m for m in pool if any((isinstance(a, ast.Attribute) and a.attr == m.name) or (isinstance(a, ast.Name) and a.id == m.name) for a in ast.walk(cl.node))] for c in calls_in(f_.node) if (dotted(c.func) or '').rsplit('.', 1)[-1] in ('rmtree', 'removedirs', 'unlink', 'remove', 'rmdir')]
        for c in removers:
            nm_ = (dotted(c.func) or '').rsplit('.', 1)[-1]
            ctx.check(
                nm_ == 'rmdir',
                'C03.R7',
                f'{func_label(cl)}|clean-removes-with-rmdir-only',
                loc(cl, c),
                f'{ci.name}.clean removes directories with rmdir (fails, and is retried, if something was stored there meanwhile)',
                f'{ci.name}.clean removes with `{src(c, 60)}`: a directory that received an object after it was classified empty (another client\'s upload) is destroyed together with that object - '
                'clean deletes a chunk / snapshot that is referenced',
            )
        gens = [m for m in pool if any(isinstance(y, ast.Yield) for y in walk_local(m.node)) and any((dotted(c.func) or '') == 'os.scandir' for c in calls_in(m.node)) and any((isinstance(a, ast.Attribute) and a.attr == m.name) or (isinstance(a, ast.Name) and a.id == m.name) for a in ast.walk(cl.node))]
        if not gens:
            if any((dotted(c.func) or '').endswith('rmdir') for c in calls_in(cl.node)):
                raise AnalysisError(f'C03.R7: {ci.name}.clean removes directories but the scan that decides emptiness was not found')
            continue
        for g in gens:
            ctx.analysed(g, cl)
            cfg = cfg_of(g.node)
            for lp in [l for l in walk_local(g.node) if isinstance(l, ast.For) and isinstance(l.target, ast.Name)]:
                it = deref_at(g.node, lp.iter) if isinstance(lp.iter, ast.Name) else lp.iter
                withs = [w for w in ancestors(lp) if isinstance(w, ast.With) and any(isinstance(i.optional_vars, ast.Name) and isinstance(lp.iter, ast.Name) and i.optional_vars.id == lp.iter.id and isinstance(i.context_expr, ast.Call) and (dotted(i.context_expr.func) or '') == 'os.scandir' for i in w.items)]
                if not withs and not (isinstance(it, ast.Call) and (dotted(it.func) or '') == 'os.scandir'):
                    continue
                ev = lp.target.id
                def _parts(v):
                    # (entry, flag) as a tuple or as a small record built from the two
                    if isinstance(v, ast.Tuple):
                        return list(v.elts)
                    if isinstance(v, ast.Call) and not isinstance(v.func, ast.Attribute):
                        return list(v.args) + [k.value for k in v.keywords]
                    return []

                ys = [enclosing_stmt(y) for y in walk_local(lp) if isinstance(y, ast.Yield) and y.value is not None and len(_parts(y.value)) == 2 and any(isinstance(e_, ast.Name) and e_.id == ev for e_ in _parts(y.value))]
                n += 1
                if not ys:
                    # protocol B: the generator yields only the directories that may be removed and RETURNS whether the
                    # scanned directory itself holds nothing (`if entry.is_dir() and (yield from self.<g>(entry.path)): yield entry`)
                    rets = [r for r in walk_local(g.node) if isinstance(r, ast.Return) and isinstance(r.value, ast.Name)]
                    gate = [i for i in walk_local(lp) if isinstance(i, ast.If) and any(isinstance(x, ast.YieldFrom) for x in ast.walk(i.test)) and any(isinstance(c, ast.Call) and isinstance(c.func, ast.Attribute) and c.func.attr == 'is_dir' for c in ast.walk(i.test))]
                    if rets and len(gate) == 1 and isinstance(gate[0].test, ast.BoolOp) and isinstance(gate[0].test.op, ast.And):
                        flag = rets[0].value.id
                        i = gate[0]
                        falses = [x for a in walk_local(lp) if isinstance(a, ast.Assign) and any(isinstance(t, ast.Name) and t.id == flag for t in a.targets) and isinstance(a.value, ast.Constant) and a.value.value is False for x in cfg.nodes_of(a, 'stmt')]
                        heads = cfg.nodes_of(lp, 'loop')
                        leak = None
                        for e in cfg.nodes_of(i, 'false'):
                            leak = leak or cfg.path(e, heads, avoid=falses, kinds=('normal',))
                        yielded_under_gate = all(any(y is x for b in i.body for x in ast.walk(b)) for y in walk_local(lp) if isinstance(y, ast.Yield))
                        init_true = any(isinstance(a, ast.Assign) and any(isinstance(t, ast.Name) and t.id == flag for t in a.targets) and isinstance(a.value, ast.Constant) and a.value.value is True and not is_within_lp(a, lp) for a in walk_local(g.node))
                        trues_in_loop = [a for a in walk_local(lp) if isinstance(a, ast.Assign) and any(isinstance(t, ast.Name) and t.id == flag for t in a.targets) and not (isinstance(a.value, ast.Constant) and a.value.value is False)]
                        ctx.check(
                            leak is None and yielded_under_gate and init_true and not trues_in_loop and all(isinstance(r.value, ast.Name) and r.value.id == flag for r in rets),
                            'C03.R7',
                            f'{func_label(g)}|every-entry-reported',
                            loc(g, lp),
                            f'{g.qual}: a directory is yielded for removal only when its own scan returned "holds nothing"; every other entry clears the emptiness of its parent',
                            f'{g.qual}: an entry that is not an empty directory does not clear the emptiness of its parent on every path (or a directory is yielded outside the emptiness gate): '
                            'a directory that still holds something is taken for empty, rmdir fails with ENOTEMPTY on every retry and the follow-up `clean` fails',
                        )
                        continue
                ynodes = [x for y in ys for x in cfg.nodes_of(y, 'stmt')]
                heads = cfg.nodes_of(lp, 'loop')
                skip = None
                for t in cfg.nodes_of(lp, 'true'):
                    skip = skip or cfg.path(t, heads, avoid=ynodes, kinds=('normal',))
                ctx.check(
                    bool(ys) and skip is None,
                    'C03.R7',
                    f'{func_label(g)}|every-entry-reported',
                    loc(g, lp),
                    f'{g.qual}: every entry of a scanned directory is reported (with its emptiness flag) to the caller',
                    f'{g.qual}: an entry of the scanned directory can be passed over without being reported: a directory that still holds it (e.g. the temporary of an interrupted upload) is taken for empty, '
                    'rmdir fails with ENOTEMPTY on every retry and the follow-up `clean` fails',
                )
                for y in ys:
                    yparts = _parts([v for v in walk_local(y) if isinstance(v, ast.Yield)][0].value)
                    others = [e_ for e_ in yparts if not (isinstance(e_, ast.Name) and e_.id == ev)]
                    yv = others[0] if others else None
                    if not isinstance(yv, ast.Name):
                        continue
                    falses = [x for a in walk_local(lp) if isinstance(a, ast.Assign) and any(isinstance(t, ast.Name) and t.id == yv.id for t in a.targets) and isinstance(a.value, ast.Constant) and a.value.value is False for x in cfg.nodes_of(a, 'stmt')]
                    def _is_dir_test(t):
                        while isinstance(t, ast.UnaryOp) and isinstance(t.op, ast.Not):
                            t = t.operand
                        if isinstance(t, ast.Name):
                            t = deref_at(g.node, t)
                        return any(isinstance(c, ast.Call) and isinstance(c.func, ast.Attribute) and c.func.attr == 'is_dir' and isinstance(c.func.value, ast.Name) and c.func.value.id == ev for c in ast.walk(t))

                    dir_tests = [i for i in walk_local(lp) if isinstance(i, ast.If) and _is_dir_test(i.test)]
                    ctx.floor('C03.R7', f'is_dir test on the scanned entry in {g.name}', len(dir_tests))
                    for i in dir_tests:
                        neg = isinstance(i.test, ast.UnaryOp) and isinstance(i.test.op, ast.Not)
                        nondir = cfg.nodes_of(i, 'true' if neg else 'false')
                        tn = i.test.operand if neg else i.test
                        if isinstance(tn, ast.Name) and tn.id == yv.id:
                            # the flag IS the is_dir() answer: on the non-directory edge it is False by the test itself
                            ctx.ok('C03.R7', loc(g, y), f'{g.qual}: the reported flag is the is_dir() answer itself, False for a non-directory entry')
                            continue
                        leak = None
                        for e in nondir:
                            leak = leak or cfg.path(e, cfg.nodes_of(y, 'stmt'), avoid=falses + heads, kinds=('normal',))
                        ctx.check(
                            leak is None,
                            'C03.R7',
                            f'{func_label(g)}|non-directory-entry-is-not-empty',
                            loc(g, y),
                            f'{g.qual}: an entry that is not a directory is always reported as "not empty"',
                            f'{g.qual}: a non-directory entry can be reported without `{yv.id} = False`: its directory may be removed / rmdir fails',
                        )
    ctx.floor('C03.R7', 'directory scans deciding emptiness for Local.clean', n)


def run(ctx):
    from ..report import Relabel
    from .c12 import r2_rewind
    from .c13 import r7_exists_answer

    r7_exists_answer(ctx, rule='C03.R6')
    # a failed attempt that is retried must not publish a truncated object: the source is rewound on every failure path
    r2_rewind(Relabel(ctx, 'C03.R4'), rule='C03.R4')
    r1_snapshot_last(ctx)
    r2_delete_order(ctx)
    r3_no_swallow(ctx)
    r4_local_atomic(ctx)
    r5_temp_invisible(ctx)
    r7_local_clean(ctx)
    from . import shared as _sh3

    _sh3.run_flags_are_per_run(ctx, 'C03.R1', ('snapshot',))
    # a transfer that keeps failing ends in an exception, never in a normal return: the retry layer of every adapter is the
    # bounded decorator that re-raises when it gives up
    from ..report import Relabel as _RL3
    from .c12 import r1_bounded_retry

    r1_bounded_retry(_RL3(ctx, 'C03.R3'))
    # a failed command leaves no belief behind that a later command acts on: "this chunk is stored" is decided by asking the backend
    from .c02 import r8_skip_upload_only_on_backend_answer as _sk

    _sk(ctx, rule='C03.R1')
    # a command killed inside the cache write leaves a truncated entry: the next command must discard it (the bytes that
    # reach the decoder passed the digest comparison on every path), otherwise the repository is unusable from this client
    fi = ctx.corpus.func('repository', 'Repository._download_snapshot_threadsafe')
    ctx.analysed(fi)
    shared.snapshot_bytes_verified(ctx, 'C03.R8', 'C03.R8', fi)
