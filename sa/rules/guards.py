"""Polarity-independent recognition of the two "skip this object" guards of the snapshot loader and of clean:

  filter guard   skip  <=>  regex is not None  and  regex.search(name) is None
  tag guard      skip  <=>  repository is encrypted  and  mac(digest) != tag

An `if` is classified by the truth table of its test over these atoms (local names are followed to their
definitions), so `if re is None or re.search(x) is not None: <load>` / De Morgan forms / a test kept in a
local (`tag_is_valid = not enc or mac == tag`) are the same guard as HEAD's spelling.  The result says on
which CFG edge the object is skipped and on which it passes."""
from __future__ import annotations

import ast
import itertools

from ..astutil import dotted, walk_local
from ..cfg import cfg_of, deref_at

SEARCH = ('search', 'match', 'fullmatch')


def _formula(fn_node, e, depth=0):
    """boolean formula over atoms: ('atom', key) | ('not', f) | ('and', [f..]) | ('or', [f..]) | ('const', bool)"""
    if depth < 4 and isinstance(e, ast.Name):
        d = deref_at(fn_node, e)
        if d is not e:
            return _formula(fn_node, d, depth + 1)
    if isinstance(e, ast.Constant) and isinstance(e.value, bool):
        return ('const', e.value)
    if isinstance(e, ast.UnaryOp) and isinstance(e.op, ast.Not):
        return ('not', _formula(fn_node, e.operand, depth))
    if isinstance(e, ast.IfExp):
        c = _formula(fn_node, e.test, depth)
        return ('or', [('and', [c, _formula(fn_node, e.body, depth)]), ('and', [('not', c), _formula(fn_node, e.orelse, depth)])])
    if isinstance(e, ast.BoolOp):
        return ('and' if isinstance(e.op, ast.And) else 'or', [_formula(fn_node, v, depth) for v in e.values])
    if isinstance(e, ast.Compare) and len(e.ops) == 1:
        l, r, op = e.left, e.comparators[0], e.ops[0]
        if isinstance(r, ast.Constant) and r.value is None and isinstance(op, (ast.Is, ast.IsNot, ast.Eq, ast.NotEq)):
            neg = isinstance(op, (ast.IsNot, ast.NotEq))
            lv = deref_at(fn_node, l) if isinstance(l, ast.Name) else l
            if isinstance(lv, ast.Call) and isinstance(lv.func, ast.Attribute) and lv.func.attr in SEARCH:
                f = ('atom', ('nomatch', dotted(lv.func.value) or 're'))
            else:
                f = ('atom', ('isnone', dotted(l) or ast.dump(l)))
            return ('not', f) if neg else f
        sides = [deref_at(fn_node, x) if isinstance(x, ast.Name) else x for x in (l, r)]
        has_mac = any(isinstance(c, ast.Call) and isinstance(c.func, ast.Attribute) and c.func.attr == 'mac' for x in sides for c in ast.walk(x))
        if has_mac and isinstance(op, (ast.Eq, ast.NotEq)):
            f = ('atom', ('maceq',))
            return ('not', f) if isinstance(op, ast.NotEq) else f
    if isinstance(e, ast.Call) and isinstance(e.func, ast.Attribute) and e.func.attr in SEARCH:
        return ('not', ('atom', ('nomatch', dotted(e.func.value) or 're')))  # truthy match object
    if isinstance(e, ast.Attribute) and e.attr == 'encrypted':
        return ('atom', ('enc',))
    return ('atom', ('other', ast.dump(e)))


def _atoms(f, out):
    if f[0] == 'atom':
        out.add(f[1])
    elif f[0] == 'not':
        _atoms(f[1], out)
    elif f[0] in ('and', 'or'):
        for x in f[1]:
            _atoms(x, out)
    return out


def _eval(f, env):
    k = f[0]
    if k == 'const':
        return f[1]
    if k == 'atom':
        return env[f[1]]
    if k == 'not':
        return not _eval(f[1], env)
    if k == 'and':
        return all(_eval(x, env) for x in f[1])
    return any(_eval(x, env) for x in f[1])


def classify(fn_node, if_node):
    """{'kind': 'filter'|'tag', 'skip': 'true'|'false', 'exact': bool} or None"""
    f = _formula(fn_node, if_node.test)
    atoms = sorted(_atoms(f, set()))
    kinds = {a[0] for a in atoms}
    if len(atoms) > 6:
        return None
    targets = []
    if 'nomatch' in kinds:
        rn = [a for a in atoms if a[0] == 'isnone']
        nm = [a for a in atoms if a[0] == 'nomatch'][0]

        def skip_filter(env):
            return env[nm] and not any(env[a] for a in rn)

        def care_filter(env):
            return True

        targets.append(('filter', skip_filter, lambda env: not (any(env[a] for a in rn) and env[nm]) or True))
    if 'maceq' in kinds:
        enc = [a for a in atoms if a[0] == 'enc']

        def skip_tag(env):
            return (all(env[a] for a in enc) if enc else True) and not env[('maceq',)]

        targets.append(('tag', skip_tag, None))
    for kind, skip, _care in targets:
        relevant = {'filter': ('isnone', 'nomatch'), 'tag': ('enc', 'maceq')}[kind]
        others = [a for a in atoms if a[0] not in relevant]
        rel = [a for a in atoms if a[0] in relevant]
        same_always, neg_always, same_some, neg_some = True, True, False, False
        for ovals in itertools.product([False, True], repeat=len(others)):
            same = neg = True
            for rvals in itertools.product([False, True], repeat=len(rel)):
                env = dict(zip(others, ovals))
                env.update(zip(rel, rvals))
                if kind == 'filter':
                    # when the regex is None the search is never evaluated: those rows with "nomatch" true are don't-care
                    rn = [a for a in rel if a[0] == 'isnone']
                    nm = [a for a in rel if a[0] == 'nomatch'][0]
                    if any(env[a] for a in rn) and env[nm]:
                        continue
                v, s = _eval(f, env), skip(env)
                same = same and (v == s)
                neg = neg and (v != s)
            same_always, neg_always = same_always and same, neg_always and neg
            same_some, neg_some = same_some or same, neg_some or neg
        if same_always:
            return {'kind': kind, 'skip': 'true', 'exact': True}
        if neg_always:
            return {'kind': kind, 'skip': 'false', 'exact': True}
        if same_some and not neg_some:
            return {'kind': kind, 'skip': 'true', 'exact': False}
        if neg_some and not same_some:
            return {'kind': kind, 'skip': 'false', 'exact': False}
    return None


def guard_edges(fn_node, kinds=('filter', 'tag'), within=None):
    """(skip edge nodes, pass edge nodes, [(if_node, classification)]) of the classified guards of a function"""
    cfg = cfg_of(fn_node)
    skip, passed, found = [], [], []
    for n in walk_local(within if within is not None else fn_node):
        if isinstance(n, ast.If):
            c = classify(fn_node, n)
            if c is None or c['kind'] not in kinds:
                continue
            found.append((n, c))
            skip += cfg.nodes_of(n, c['skip'])
            passed += cfg.nodes_of(n, 'false' if c['skip'] == 'true' else 'true')
    return skip, passed, found
