"""C20 - The bandwidth limit is respected and transparent to the data.

Decides: every limited-mode stream passes through the one command-level
limiter; chunk size derives from the limit (d <= L/4); debt fields and the
sleep only under their lock; the wrapper is stateless, pauses once per call for
max(expected - real, 0) and delegates read/write/seek/truncate/tell.
Not decided: the rate bound itself (timing arithmetic)."""
from __future__ import annotations

import ast

from ..astutil import kwarg, deref, ancestors, calls_in, dotted, enclosing_stmt, src, walk_local
from ..cfg import cfg_of
from ..loader import AnalysisError
from ..terms import NONE, Evaluator, alts, contains, find, show, strip_sites, walk
from .c12 import _delegates
from .common import backend_events, evaluate, func_label, loc, own_stmt_of_chain, repo_cls

EXPLANATION = (
    'Provenance per mode (rate limit given / not given) of the stream object handed to backend.upload_stream / download_stream at the four streaming sites (it is '
    'the command-level limiter\'s wrapper around the raw stream exactly when a limit is set), who-may-construct rule for the limiter (once per command, outside '
    'loops and per-transfer functions), shape of the transfer chunk size in limited mode (max(L // (k*N), 1), k >= 4), lock-set rule for the two debt fields and the '
    'sleep, and statelessness / single unconditional pause / delegation shape of the file wrapper. Rules C20.R1-R5.'
    ' Added with the seeded-defect rounds: the transfer unit is divided by the concurrency, PAUSE_LIMIT >= threshold + 1/k, adapters move streams in pieces of chunk_size, debt fields addressed by attribute path.'
    ' Round 6: every call is charged (no early return before debt += seconds), the debt is credited only with time measured around the sleep of the same call; the ledger is followed through a delegate object.'
)
NOT_DECIDED = 'the bound bytes(window T) <= L*T + burst itself (arithmetic over timestamps and schedules)'
TRUSTED = ['time.sleep / perf_counter', 'threading.Lock', 'CPython ast']
ASSUMPTIONS = ['read/write sizes are at most the transfer chunk size the commands choose (property text: d <= L/4)']

COMMANDS = (('snapshot', 'upload_stream'), ('restore', 'download_stream'), ('upload_objects', 'upload_stream'), ('download_objects', 'download_stream'))


def _is_limited(t):
    return contains(t, lambda y: y[0] == 'inst' and y[1].endswith('_RateLimitedFileWrapper'))


PASS_THROUGH_WRAPPERS = ('TQDMIOReader', 'TQDMIOWriter', 'TQDMIOBase')


def _can_be_unlimited(t):
    """Is there a choice of alternatives under which the stream object reaches the
    backend without a limiter wrapper around the raw stream?"""
    if t[0] == 'alt':
        return any(_can_be_unlimited(x) for x in t[1])
    if t[0] == 'inst':
        if t[1].endswith('_RateLimitedFileWrapper'):
            return False
        if t[1].rsplit('::', 1)[-1] in PASS_THROUGH_WRAPPERS and t[2]:
            return _can_be_unlimited(t[2][0])
        return True
    if t[0] == 'call' and t[1][0] == 'name' and t[1][1].endswith('CallbackIOWrapper') and len(t[2]) >= 2:
        return _can_be_unlimited(t[2][1])
    return True


def r1_r3(ctx):
    corpus = ctx.corpus
    for cmd, meth in COMMANDS:
        fn = corpus.func('repository', f'Repository.{cmd}')
        ctx.analysed(fn, *fn.all_nested())
        for limited in (True, False):
            kw = {} if limited else {'rate_limit': NONE}
            ev = evaluate(corpus, fn, modes={'encrypted': False}, depth=6, nonnull={'rate_limit'} if limited else (), kwargs=kw)
            ctx.count('terms_built', ev.terms_built)
            evs = [(m, e) for m, e in backend_events(ev, {meth})]
            ctx.floor('C20.R1', f'{cmd}: backend.{meth} site [{"limited" if limited else "unlimited"}]', len(evs))
            for m, e in evs:
                stream = e.args[1] if len(e.args) > 1 else None
                st = own_stmt_of_chain(e, fn)
                site = loc(fn, st) if st is not None else e.loc
                if stream is None:
                    ctx.fail('C20.R1', f'{func_label(fn)}|stream-arg', site, f'{cmd}: backend.{meth} without a stream argument')
                    continue
                lim = not _can_be_unlimited(stream)
                anyl = any(_is_limited(a) for a in alts(stream))
                if limited:
                    ctx.check(
                        lim,
                        'C20.R1',
                        f'{func_label(fn)}|stream-limited-when-limit-set:{meth}',
                        site,
                        f'{cmd} [limit set]: the stream handed to backend.{meth} is wrapped by the rate limiter',
                        f'{cmd}: with a rate limit set, the stream handed to backend.{meth} can bypass the limiter ({show(stream, limit=120)})',
                    )
                    # the limiter is RateLimitedIO(rate_limit) of this command
                    rl = find(stream, lambda y: y[0] == 'inst' and y[1].endswith('::RateLimitedIO'))
                    ok = bool(rl) and all(x[2] and x[2][0] == ('param', 'rate_limit') for x in rl)
                    ctx.check(ok, 'C20.R1', f'{func_label(fn)}|limiter-built-from-limit:{meth}', site, f'{cmd}: the limiter is RateLimitedIO(rate_limit)', f'{cmd}: the limiter is not constructed from the rate_limit parameter')
                    # chunk size
                    cs = e.args[-1] if len(e.args) >= 3 else None
                    okc, why = _chunk_size_ok(cs)
                    ctx.check(
                        okc,
                        'C20.R3',
                        f'{func_label(fn)}|chunk-size-follows-limit:{meth}',
                        site,
                        f'{cmd} [limit set]: transfer chunk size = max(rate_limit // (k * concurrent), 1) with k >= 4',
                        f'{cmd}: with a rate limit set the transfer chunk size is {show(cs, limit=100) if cs else None}: {why}',
                    )
                else:
                    ctx.check(not anyl, 'C20.R1', f'{func_label(fn)}|no-throttling-without-limit:{meth}', site, f'{cmd} [no limit]: the stream is not throttled', f'{cmd}: without a rate limit the stream is still wrapped by a limiter')


_DIVISORS_SEEN = []


def _chunk_size_ok(cs):
    if cs is None:
        return False, 'no chunk size passed'
    cs = strip_sites(cs)
    if not (cs[0] == 'call' and cs[1] == ('name', 'max') and len(cs[2]) == 2):
        return False, 'it does not have the shape max(L // (k*N), 1) (blocks larger than L/4 defeat the limiter\'s capped debt)'
    a, b = cs[2]
    if b[0] != 'const':
        a, b = b, a
    if b != ('const', 1):
        return False, f'the floor is {show(b)} instead of 1: for small limits a block exceeds L/4 and the capped debt lets several times the limit through'
    if not (a[0] == 'bin' and a[1] == 'FloorDiv' and a[2] == ('param', 'rate_limit')):
        return False, 'it does not derive from the rate_limit parameter'
    d = a[3]
    ks = [x[1] for x in walk(d) if x[0] == 'const' and isinstance(x[1], int)]
    k = 1
    for v in ks:
        k *= v
    _DIVISORS_SEEN.append(k)
    if k < 4:
        return False, f'the divisor constant is {k} < 4 (the property assumes d <= L/4)'
    # all streams of the command share the one limiter: the unit is divided by their number, so that the pieces the N
    # streams push at the same instant add up to a fixed fraction of L (a burst that does not grow with N)
    if not any(x[0] == 'attr' and x[2] in ('_concurrent', 'concurrent') for x in walk(d)) and not any(x == ('param', 'concurrent') for x in walk(d)):
        return False, 'the unit is not divided by the number of concurrent streams: N streams sharing the limiter push N pieces of L/k at the same instant - the burst grows with the concurrency instead of being a fixed allowance'
    return True, ''


def r2_one_limiter(ctx):
    corpus = ctx.corpus
    for cmd, _ in COMMANDS:
        fn = corpus.func('repository', f'Repository.{cmd}')
        ctors = []
        for f in [fn] + list(fn.all_nested()):
            for c in calls_in(f.node):
                if (dotted(c.func) or '').endswith('RateLimitedIO'):
                    ctors.append((f, c))
        ok = len(ctors) == 1 and ctors[0][0] is fn and not any(isinstance(a, (ast.For, ast.While, ast.AsyncFor)) for a in ancestors(ctors[0][1]))
        ctx.check(
            ok,
            'C20.R2',
            f'{func_label(fn)}|one-limiter-per-command',
            loc(ctors[0][0], ctors[0][1]) if ctors else loc(fn, fn.node),
            f'{cmd}: exactly one RateLimitedIO is constructed, in the command body (all streams share its debt)',
            f'{cmd}: the limiter is constructed {len(ctors)} time(s) / inside a per-transfer function or loop: every stream gets its own allowance and N streams pass N times the limit',
        )
        wraps = [c for f in [fn] + list(fn.all_nested()) for c in calls_in(f.node) if isinstance(c.func, ast.Attribute) and c.func.attr == 'wrap']
        names = {dotted(c.func.value) for c in wraps}
        ctx.check(len(names) == 1 and bool(wraps), 'C20.R2', f'{func_label(fn)}|wrap-receiver-is-command-limiter', loc(fn, wraps[0]) if wraps else loc(fn, fn.node), f'{cmd}: every wrap() is called on the one command-level limiter `{next(iter(names)) if names else "?"}`', f'{cmd}: wrap() receivers: {sorted(str(n) for n in names)}')


def _ledger_of(corpus, rl, f):
    """The function that keeps the debt for pause_reads / pause_writes: the method itself, or - when the method only
    forwards to an object built in __init__ (`self._read_debt.add(seconds, self)`) - that object's method."""
    body = [st for st in f.node.body if not (isinstance(st, ast.Expr) and isinstance(st.value, ast.Constant))]
    if len(body) != 1 or not isinstance(body[0], (ast.Expr, ast.Return)) or not isinstance(body[0].value, ast.Call):
        return f
    c = body[0].value
    if not (isinstance(c.func, ast.Attribute) and isinstance(c.func.value, ast.Attribute) and isinstance(c.func.value.value, ast.Name) and c.func.value.value.id == 'self'):
        return f
    holder = c.func.value.attr
    init = rl.methods.get('__init__')
    if init is None:
        return f
    for st in walk_local(init.node):
        if isinstance(st, ast.Assign) and isinstance(st.value, ast.Call) and any(isinstance(t, ast.Attribute) and t.attr == holder for t in st.targets):
            cn = dotted(st.value.func)
            hc = rl.module.classes.get(cn) if cn else None
            if hc is not None and c.func.attr in hc.methods:
                return hc.methods[c.func.attr]
    return f


def r4_debt_lock(ctx):
    corpus = ctx.corpus
    rl = corpus.cls('utils', 'RateLimitedIO')
    fields_seen = []
    ledgers_done = set()
    delegated = []
    for mname in ('pause_reads', 'pause_writes'):
        f = rl.methods.get(mname)
        if f is None:
            raise AnalysisError(f'C20.R4: RateLimitedIO.{mname} missing')
        ctx.analysed(f)
        f = _ledger_of(corpus, rl, f)
        if f.cls is not rl:
            delegated.append(f)
            if f.key in ledgers_done:
                continue
            ledgers_done.add(f.key)
            ctx.analysed(f)
            mname = f'{f.cls.name}.{f.name} (the ledger behind {mname})'
        # roles by structure: the lock is what the method's `with self.<lock>:` takes, the debt field is the attribute stored inside it
        withs = [w for w in walk_local(f.node) if isinstance(w, ast.With) and any((dotted(it.context_expr) or '').startswith('self.') for it in w.items)]
        if not withs:
            ctx.fail('C20.R4', f'{func_label(f)}|debt-under-lock', loc(f, f.node), f'{mname}: no `with self.<lock>:` section - the debt is updated without a lock')
            continue
        lock = next(dotted(it.context_expr) for it in withs[0].items if (dotted(it.context_expr) or '').startswith('self.'))[5:]
        # the debt field: the attribute path below self (self.<field> or self.<holder>.<field>) that is stored in the method
        stored = [dotted(t)[5:] for a in ast.walk(f.node) if isinstance(a, (ast.Assign, ast.AugAssign)) for t in (a.targets if isinstance(a, ast.Assign) else [a.target]) if isinstance(t, ast.Attribute) and (dotted(t) or '').startswith('self.')]
        if not stored:
            raise AnalysisError(f'C20.R4: no debt field stored in RateLimitedIO.{mname}')
        field = max(set(stored), key=stored.count)
        fields_seen.append(field)

        def is_field(x, _field=field):
            return isinstance(x, ast.Attribute) and dotted(x) == f'self.{_field}'

        def under_lock(n):
            for a in ancestors(n):
                if isinstance(a, ast.With) and any(dotted(it.context_expr) == f'self.{lock}' for it in a.items):
                    return True
                if a is f.node:
                    break
            return False

        # reads of the debt kept in a local before the lock is taken are accesses outside the lock as well
        accesses = [a for a in ast.walk(f.node) if is_field(a)]
        ctx.floor('C20.R4', f'accesses of {field}', len(accesses), 3)
        bad = [a for a in accesses if not under_lock(a)]
        ctx.check(not bad, 'C20.R4', f'{func_label(f)}|debt-under-lock', loc(f, f.node), f'{mname}: every access of {field} is inside `with self.{lock}`', f'{mname}: {field} is accessed outside `with self.{lock}` (line {bad[0].lineno if bad else 0}): concurrent streams lose or double-count debt')
        sleeps = [c for c in calls_in(f.node) if (dotted(c.func) or '').endswith('sleep')]
        ctx.floor('C20.R4', f'sleep in {mname}', len(sleeps))
        for c in sleeps:
            ctx.check(
                under_lock(c),
                'C20.R4',
                f'{func_label(f)}|sleep-under-lock',
                loc(f, c),
                f'{mname}: the sleep happens while holding the lock (other streams of the limiter wait behind the sleeper)',
                f'{mname}: the sleep happens after releasing the lock: N streams sharing the limiter sleep in parallel and together pass N times the limit',
            )
            arg = c.args[0] if c.args else None
            ctx.check(arg is not None and any(is_field(x) for x in ast.walk(deref(f.node, arg) if isinstance(arg, ast.Name) else arg)), 'C20.R4', f'{func_label(f)}|sleeps-the-debt', loc(f, c), f'{mname}: sleeps the accumulated debt', f'{mname}: sleeps `{src(arg) if arg is not None else ""}`, not the accumulated debt')
        # accumulation: += seconds
        pname = f.node.args.args[1].arg if len(f.node.args.args) > 1 else None
        acc = [a for a in walk_local(f.node) if isinstance(a, ast.AugAssign) and isinstance(a.op, ast.Add) and is_field(a.target) and isinstance(a.value, ast.Name) and a.value.id == pname]
        # ... or `debt = min(debt + seconds, LIMIT)` / `debt = debt + seconds`
        for a in walk_local(f.node):
            if isinstance(a, ast.Assign) and any(is_field(t) for t in a.targets):
                for b_ in ast.walk(deref(f.node, a.value) if isinstance(a.value, ast.Name) else a.value):
                    if isinstance(b_, ast.BinOp) and isinstance(b_.op, ast.Add) and {type(b_.left), type(b_.right)} == {ast.Attribute, ast.Name} and any(is_field(x) for x in (b_.left, b_.right)) and any(isinstance(x, ast.Name) and x.id == pname for x in (b_.left, b_.right)):
                        acc.append(a)
        reassigned = [a for a in ast.walk(f.node) if isinstance(a, ast.Name) and a.id == pname and isinstance(a.ctx, ast.Store)]
        ctx.check(
            not reassigned,
            'C20.R4',
            f'{func_label(f)}|owed-pause-not-discounted',
            loc(f, reassigned[0]) if reassigned else loc(f, f.node),
            f'{mname}: the pause owed by the caller (`{pname}`) is charged as given',
            f'{mname}: the pause owed by the caller is rewritten before it is charged (`{src(enclosing_stmt(reassigned[0]), 70) if reassigned else ""}`): e.g. time spent waiting for the lock - during which other streams kept transferring - is credited, so N queued streams pass more than the limit',
        )
        if len(acc) == 1:
            cfg_ = cfg_of(f.node)
            an = cfg_.nodes_of(acc[0], ('stmt', 'ok'))
            skip = cfg_.path(cfg_.entry, [cfg_.exit], avoid=an, kinds=('normal',)) if an else None
            ctx.check(
                skip is None,
                'C20.R4',
                f'{func_label(f)}|every-call-is-charged',
                loc(f, acc[0]),
                f'{mname}: every call adds the pause it owes to the debt',
                f'{mname}: a call can return without its pause having been added to the debt (e.g. pauses below a threshold are dropped): transfers whose individual pauses are small - many streams, '
                'small reads - are not limited at all',
            )
        # the debt is credited only with time measured around the sleep of this very call
        for a in walk_local(f.node):
            sub = None
            if isinstance(a, ast.AugAssign) and isinstance(a.op, ast.Sub) and is_field(a.target):
                sub = a.value
            elif isinstance(a, ast.Assign) and any(is_field(t) for t in a.targets):
                for b_ in ast.walk(a.value):
                    if isinstance(b_, ast.BinOp) and isinstance(b_.op, ast.Sub) and is_field(b_.left):
                        sub = b_.right
            if sub is None:
                continue
            full = deref(f.node, sub) if isinstance(sub, ast.Name) else sub
            foreign = [x for x in ast.walk(full) if isinstance(x, ast.Attribute) and isinstance(x.value, ast.Name) and x.value.id == 'self' and not is_field(x)]
            locals_ = [x for x in ast.walk(full) if isinstance(x, ast.Name) and x.id != pname and isinstance(x.ctx, ast.Load) and x.id not in ('time', 'max', 'min')]
            after_sleep = True
            cfg_ = cfg_of(f.node)
            sn_ = [n_ for c in sleeps for n_ in cfg_.nodes_of(enclosing_stmt(c), ('stmt', 'ok'))]
            for l_ in locals_:
                for d_ in [x for x in walk_local(f.node) if isinstance(x, ast.Assign) and any(isinstance(t, ast.Name) and t.id == l_.id for t in x.targets)]:
                    dn_ = cfg_.nodes_of(d_, ('stmt', 'ok'))
                    tn_ = cfg_.nodes_of(a, ('stmt',))
                    if dn_ and tn_ and sn_ and any(cfg_.path(x, tn_, avoid=sn_) is not None for x in dn_) and any(isinstance(y, ast.Call) and (dotted(y.func) or '').endswith(('perf_counter', 'monotonic', 'time')) for y in ast.walk(d_.value)):
                        after_sleep = False
            ctx.check(
                not foreign and after_sleep,
                'C20.R4',
                f'{func_label(f)}|credit-is-the-measured-sleep',
                loc(f, a),
                f'{mname}: the debt is reduced only by time measured around the sleep of the same call',
                f'{mname}: `{src(a, 70)}` writes debt off against time that was not spent sleeping in this call (`{src(full, 50)}`): the time a transfer itself took is already deducted by the wrapper, '
                'so it is credited twice and the streams pass up to twice the limit',
            )
        ctx.check(len(acc) == 1, 'C20.R4', f'{func_label(f)}|debt-accumulates', loc(f, f.node), f'{mname}: debt += seconds exactly once per call', f'{mname}: the pause owed by a call is not added to the debt exactly once')
    # fields initialised in __init__ only
    init = rl.methods['__init__']
    others = [m for n, m in rl.methods.items() if n not in ('__init__', 'pause_reads', 'pause_writes')]
    for d_ in delegated:
        others += [m for m in d_.cls.methods.values() if m is not d_ and m.name != '__init__']
    for m in others:
        bad = [a for a in ast.walk(m.node) if isinstance(a, ast.Attribute) and (dotted(a) or '')[5:] in set(fields_seen)]
        ctx.check(not bad, 'C20.R4', f'{func_label(m)}|debt-not-touched-elsewhere', loc(m, m.node), f'{m.name} does not touch the debt fields', f'{m.name} touches the debt fields outside their lock')


def _shortfall_shape(f, pause_call, m, limit):
    """the pause argument is max(N / limiter.<limit> - (t1 - t0), 0) with N the size moved by the wrapped call,
    t0 / t1 the clock read before / after it - local names are followed to their (single) definitions"""
    from ..cfg import cfg_of

    fn = f.node
    D = lambda e: deref(fn, e)
    a = D(pause_call.args[0]) if pause_call.args else None
    if not (isinstance(a, ast.Call) and dotted(a.func) == 'max' and len(a.args) == 2 and not a.keywords):
        return False
    x, z = D(a.args[0]), D(a.args[1])
    if isinstance(x, ast.Constant):
        x, z = z, x
    if not (isinstance(z, ast.Constant) and z.value == 0 and isinstance(x, ast.BinOp) and isinstance(x.op, ast.Sub)):
        return False
    exp, real = D(x.left), D(x.right)
    if not (isinstance(exp, ast.BinOp) and isinstance(exp.op, ast.Div) and isinstance(real, ast.BinOp) and isinstance(real.op, ast.Sub)):
        return False
    den = D(exp.right)
    if not (isinstance(den, ast.Attribute) and den.attr == limit):
        return False
    num = D(exp.left)
    w = D(num.args[0]) if isinstance(num, ast.Call) and dotted(num.func) == 'len' and len(num.args) == 1 else num
    if not (isinstance(w, ast.Call) and isinstance(w.func, ast.Attribute) and w.func.attr == m):
        return False
    if m == 'read' and w is num:
        return False  # bytes read = len(result)
    if m == 'write' and w is not num:
        return False  # bytes written = the wrapped call's result
    t1, t0 = D(real.left), D(real.right)
    clock = lambda c: isinstance(c, ast.Call) and (dotted(c.func) or '').endswith(('perf_counter', 'monotonic')) and not c.args
    if not (clock(t1) and clock(t0) and t1 is not t0):
        return False
    cfg = cfg_of(fn)
    s0, sw, s1 = enclosing_stmt(t0), enclosing_stmt(w), enclosing_stmt(t1)
    n0, nw, n1 = cfg.nodes_of(s0, 'stmt'), cfg.nodes_of(sw, 'stmt'), cfg.nodes_of(s1, 'stmt')
    if not (n0 and nw and n1):
        return False
    # the clock is read before the wrapped call and again after it
    return all(cfg.set_dominates(n0, x_) for x_ in nw) and all(cfg.set_dominates(nw, x_) for x_ in n1) and s0 is not sw and s1 is not sw


def r3b_transfer_unit_respected(ctx):
    """the helpers that read a stream in pieces use the piece size their caller chose (`chunk_size`): the commands size it
    to the limit, so a helper that substitutes its own constant makes every read owe more than the debt cap can hold"""
    corpus = ctx.corpus
    ut = corpus.module('utils')
    n = 0
    for f in ut.all_functions:
        params = [a.arg for a in f.node.args.posonlyargs + f.node.args.args + f.node.args.kwonlyargs]
        if 'chunk_size' not in params or f.parent is not None:
            continue
        ctx.analysed(f)
        bad = None
        for c in ast.walk(f.node):
            if not isinstance(c, ast.Call):
                continue
            if isinstance(c.func, ast.Attribute) and c.func.attr in ('read', 'read1', 'readinto') and c.args:
                n += 1
                a = deref(f.node, c.args[0])
                if not (isinstance(a, ast.Name) and a.id == 'chunk_size'):
                    bad = bad or c
            callee = ut.functions.get(dotted(c.func) or '')
            if callee is not None and 'chunk_size' in [x.arg for x in callee.node.args.posonlyargs + callee.node.args.args + callee.node.args.kwonlyargs]:
                n += 1
                cp = [x.arg for x in callee.node.args.posonlyargs + callee.node.args.args]
                passed = kwarg(c, 'chunk_size')
                if passed is None and 'chunk_size' in cp and len(c.args) > cp.index('chunk_size'):
                    passed = c.args[cp.index('chunk_size')]
                passed = deref(f.node, passed) if passed is not None else None
                if not (isinstance(passed, ast.Name) and passed.id == 'chunk_size'):
                    bad = bad or c
        ctx.check(
            bad is None,
            'C20.R3',
            f'{func_label(f)}|piece-size-is-the-callers',
            loc(f, bad) if bad is not None else loc(f, f.node),
            f'{f.name}: every read / delegated read uses the `chunk_size` this function was given',
            f'{f.name}: `{src(bad, 60) if bad is not None else ""}` does not use the `chunk_size` argument: streams are read in units the command did not choose, a single read can owe more than the capped debt and the excess is forgiven - the limit is exceeded',
        )
    ctx.floor('C20.R3', 'piece-size uses in the chunk iterators', n, 2)
    # the adapters move a stream in the pieces the command sized to the limit: the granularity handed to copyfileobj /
    # aiter_chunks / aiter_bytes / read is the method's `chunk_size`, not the object length or a constant of their own
    from .backends import backend_classes, own_methods

    m = 0
    for ci in backend_classes(corpus):
        for mname in ('upload_stream', 'download_stream'):
            f = own_methods(corpus, ci).get(mname)
            if f is None or 'chunk_size' not in [a.arg for a in f.node.args.posonlyargs + f.node.args.args + f.node.args.kwonlyargs]:
                continue
            for c in calls_in(f.node):
                d = dotted(c.func) or ''
                size = None
                if d.endswith('copyfileobj'):
                    size = kwarg(c, 'length') or (c.args[2] if len(c.args) > 2 else None)
                    if size is None:
                        size = ast.Constant(value=None)
                elif d.endswith(('aiter_chunks', 'iter_chunks')):
                    size = kwarg(c, 'chunk_size') or (c.args[1] if len(c.args) > 1 else None)
                elif isinstance(c.func, ast.Attribute) and c.func.attr in ('aiter_bytes', 'iter_bytes', 'aiter_raw', 'iter_raw'):
                    size = c.args[0] if c.args else (kwarg(c, 'chunk_size') or ast.Constant(value=None))
                if size is None:
                    continue
                m += 1
                sv = deref(f.node, size) if isinstance(size, ast.Name) else size
                ctx.check(
                    isinstance(sv, ast.Name) and sv.id == 'chunk_size',
                    'C20.R3',
                    f'{func_label(f)}|adapter-moves-the-stream-in-command-sized-pieces',
                    loc(f, c),
                    f'{ci.name}.{mname}: `{src(c.func, 30)}` moves the stream in pieces of `chunk_size`',
                    f'{ci.name}.{mname}: `{src(c, 60)}` moves the stream in pieces of `{src(size, 30)}`, not the `chunk_size` the command sized to the limit: one read of the whole object owes more than the capped debt can hold '
                    'and most of the pause is forgiven',
                )
    ctx.floor('C20.R3', 'stream-moving calls in the adapters', m, 4)


def r5_wrapper(ctx):
    corpus = ctx.corpus
    w = corpus.cls('utils', '_RateLimitedFileWrapper')
    for m in ('read', 'write', 'seek', 'tell', 'truncate'):
        f = corpus.method(w, m)
        if f is None or f.cls is not w:
            ctx.fail('C20.R5', f'{w.module.rel}|_RateLimitedFileWrapper|defines:{m}', f'{w.module.rel}:{w.node.lineno}', f'_RateLimitedFileWrapper does not define `{m}` itself')
            continue
        ctx.analysed(f)
        ok, why = _delegates(f, m)
        ctx.check(ok, 'C20.R5', f'{func_label(f)}|delegates', loc(f, f.node), f'_RateLimitedFileWrapper.{m} returns exactly the wrapped call\'s result for the caller\'s arguments', f'_RateLimitedFileWrapper.{m} alters the data path: {why}')
    for m, pause, limit in (('read', 'pause_reads', 'read_limit'), ('write', 'pause_writes', 'write_limit')):
        f = corpus.method(w, m)
        stores = [a for a in walk_local(f.node) if isinstance(a, (ast.Assign, ast.AugAssign)) and any(isinstance(t, ast.Attribute) for t in (a.targets if isinstance(a, ast.Assign) else [a.target]))]
        ctx.check(not stores, 'C20.R5', f'{func_label(f)}|wrapper-stateless', loc(f, f.node), f'{m}: the wrapper keeps no state between calls (no banked credit)', f'{m}: the wrapper stores state (`{src(stores[0], 50) if stores else ""}`): time "saved" by one slow call can be spent as unthrottled bytes later')
        pauses = [c for c in calls_in(f.node) if isinstance(c.func, ast.Attribute) and c.func.attr == pause]
        uncond = len(pauses) == 1 and getattr(enclosing_stmt(pauses[0]), '_parent', None) is f.node
        shape = _shortfall_shape(f, pauses[0], m, limit) if pauses else False
        ctx.check(
            uncond and shape,
            'C20.R5',
            f'{func_label(f)}|pause-once-for-shortfall',
            loc(f, pauses[0]) if pauses else loc(f, f.node),
            f'{m}: exactly one unconditional {pause}(max(bytes/limit - elapsed, 0)) per call',
            f'{m}: the pause is not max(bytes/{limit} - elapsed, 0) charged once per call (credit, conditions or another formula change what the limiter enforces)',
        )
    # positioning methods do not touch the limiter (a rewind must not create credit)
    for m in ('seek', 'tell', 'truncate'):
        f = corpus.method(w, m)
        if f is None:
            continue
        touches = [a for a in ast.walk(f.node) if isinstance(a, ast.Attribute) and a.attr == '_rate_limiter']
        ctx.check(
            not touches,
            'C20.R5',
            f'{func_label(f)}|positioning-does-not-touch-limiter',
            loc(f, f.node),
            f'_RateLimitedFileWrapper.{m} does not touch the limiter',
            f'_RateLimitedFileWrapper.{m} adjusts the limiter: a rewind (every retry after a fault seeks to 0) refunds debt and the re-sent bytes go through unpaced',
        )
    # TQDM wrappers (shared with C12.R3) also must not alter data
    for cname, meths in (('TQDMIOReader', ('read',)), ('TQDMIOWriter', ('write',)), ('TQDMIOBase', ('seek', 'truncate'))):
        ci = corpus.cls('utils', cname)
        for m in meths:
            f = corpus.method(ci, m)
            ok, why = _delegates(f, m)
            ctx.check(ok, 'C20.R5', f'{func_label(f)}|delegates', loc(f, f.node), f'{cname}.{m} is a pure delegation', f'{cname}.{m} alters the data path: {why}')
    # wrap() hands out the wrapper bound to this limiter
    rl = corpus.cls('utils', 'RateLimitedIO')
    wr = rl.methods.get('wrap')
    ok = wr is not None and src(wr.node.body[-1]) == 'return _RateLimitedFileWrapper(file, self)'
    ctx.check(ok, 'C20.R5', f'{func_label(wr)}|wrap-shape', loc(wr, wr.node) if wr else rl.module.rel, 'RateLimitedIO.wrap(file) = _RateLimitedFileWrapper(file, self)', 'RateLimitedIO.wrap changed')


def r4b_cap_holds_what_can_accumulate(ctx):
    """The debt of a direction grows by at most 1/k seconds per piece (pieces are L/(k*N) bytes, k the constant in the
    transfer unit) and is slept off as soon as it exceeds PAUSE_THRESHOLD_SECONDS; so it never exceeds threshold + 1/k.
    The cap PAUSE_LIMIT must not be below that - otherwise owed time is silently forgiven on every cycle and a stream
    runs faster than the limit (with k = 4 and a cap of 0.4 s: 1.25 x L)."""
    corpus = ctx.corpus
    rl = corpus.cls('utils', 'RateLimitedIO')

    def const(name):
        v = corpus.class_const(rl, name)
        return v.value if isinstance(v, ast.Constant) and isinstance(v.value, (int, float)) else None

    thr, cap = const('PAUSE_THRESHOLD_SECONDS'), const('PAUSE_LIMIT')
    if thr is None or cap is None or not _DIVISORS_SEEN:
        raise AnalysisError('C20.R4: PAUSE_THRESHOLD_SECONDS / PAUSE_LIMIT / transfer-unit divisor not found as numeric constants')
    k = min(_DIVISORS_SEEN)
    need = thr + 1.0 / k
    ctx.check(
        cap + 1e-9 >= need,
        'C20.R4',
        f'{rl.module.rel}|RateLimitedIO|cap-holds-what-can-accumulate',
        f'{rl.module.rel}:{rl.node.lineno}',
        f'PAUSE_LIMIT ({cap}) >= PAUSE_THRESHOLD_SECONDS ({thr}) + 1/{k} (the most one piece can owe): the cap never cuts debt that was really incurred',
        f'PAUSE_LIMIT ({cap}) < PAUSE_THRESHOLD_SECONDS ({thr}) + 1/{k} = {need:.4g}: with pieces of L/({k}*N) bytes a single stream reaches the cap before it sleeps, the excess is dropped each cycle and the stream passes more than L per second',
    )


def run(ctx):
    del _DIVISORS_SEEN[:]
    r1_r3(ctx)
    r4b_cap_holds_what_can_accumulate(ctx)
    r3b_transfer_unit_respected(ctx)
    r2_one_limiter(ctx)
    r4_debt_lock(ctx)
    r5_wrapper(ctx)
