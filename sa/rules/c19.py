"""C19 - Option precedence is CLI over environment over profile over defaults.

Decides: order of source application in main (file < env < CLI) for core and
backend options and the unfiltered hand-over of the merged values as parser
defaults; set_defaults on every sub-parser; profile overlays the default
section; each source overrides unconditionally; coercer-agreement table;
mutual-exclusion tables; namespace-package shape for custom backends.
Not decided: argparse internals."""
from __future__ import annotations

import ast

from ..astutil import ancestors, calls_in, const_value, dotted, enclosing_stmt, handler_catches, kwarg, src, walk_local
from ..cfg import cfg_of, deref_at
from ..loader import AnalysisError
from ..terms import Evaluator, alts, contains, show, strip_sites
from .common import func_label, loc

EXPLANATION = (
    'Order edges on the CFG of __main__.main (file options are applied before environment variables, both before the values are exported as parser-level defaults; '
    'the CLI repository override precedes backend loading; the same for the backend-specific config object), provenance of the `defaults` mapping handed to the parser '
    'factory (the two .dict() exports merged, nothing filtered), tables: every sub-parser gets set_defaults(**defaults) and the parent parsers; the profile section '
    'updates the default section; every source assignment is unconditional (a later source always overrides); per option the converters used by file / environment / '
    'CLI belong to one equivalence class; mutually exclusive pairs are checked / grouped; custom-backend discovery shape. Rules C19.R1-R6.'
    ' Added with the seeded-defect rounds: option values travel by reference (no asdict / deepcopy), every Config field is some option\'s dest, the missing-file handler covers read_config only, a backend\'s short name is its own class name.'
)
NOT_DECIDED = "argparse's own precedence of explicit values over set_defaults (library behaviour); actual runs of main() for source subsets"
TRUSTED = ['argparse: explicit command-line values override parser-level defaults, which override argument-level defaults', 'CPython ast']
ASSUMPTIONS = ['text is encoded identically by str.encode and os.fsencode under a UTF-8 file-system encoding']


def _first_stmt_calling(fn, pred):
    for st in walk_local(fn.node):
        if isinstance(st, ast.stmt) and not isinstance(st, (ast.If, ast.Try, ast.For, ast.While, ast.With, ast.FunctionDef)):
            for c in calls_in(st):
                if pred(c):
                    return st
    return None


def r1_order(ctx):
    corpus = ctx.corpus
    mn = corpus.module('main').functions.get('main')
    if mn is None:
        raise AnalysisError('C19.R1: __main__.main missing')
    ctx.analysed(mn)
    cfg = cfg_of(mn.node)
    # "not given by any source" is recognised by IDENTITY with a sentinel object all the way from the config class to the
    # backend constructor: option values must travel by reference.  dataclasses.asdict / deepcopy re-create every value,
    # so the sentinel (and any sentinel-like constructor default) arrives as a different object and is passed on as if set.
    n_copy = 0
    for mname in ('main', 'config', 'cli'):
        for f in corpus.module(mname).all_functions:
            for c in calls_in(f.node):
                d = dotted(c.func) or ''
                if d in ('dataclasses.asdict', 'asdict', 'copy.deepcopy', 'deepcopy', 'dataclasses.astuple', 'astuple'):
                    n_copy += 1
                    ctx.fail(
                        'C19.R1',
                        f'{func_label(f)}|options-travel-by-reference',
                        loc(f, c),
                        f'{f.name}: `{src(c, 50)}` deep-copies option values: the "no source set this option" sentinel loses its identity, so an option nobody set is handed to the backend constructor as a value '
                        '(and a required option that is missing is no longer reported)',
                    )
    ctx.count('deep_copies_of_option_values', n_copy)

    def is_method(c, recv, meth):
        return isinstance(c.func, ast.Attribute) and c.func.attr == meth and dotted(c.func.value) == recv

    # discover the two config objects: core = config.Config(), backend = <config_for_backend(...)>()
    core = bk = None
    for a in walk_local(mn.node):
        if isinstance(a, ast.Assign) and isinstance(a.targets[0], ast.Name) and isinstance(a.value, ast.Call):
            d = dotted(a.value.func) or ''
            if d.endswith('Config') and d.startswith('config.'):
                core = a.targets[0].id
            elif isinstance(a.value.func, ast.Name):
                src_assign = [b for b in walk_local(mn.node) if isinstance(b, ast.Assign) and isinstance(b.targets[0], ast.Name) and b.targets[0].id == a.value.func.id]
                if src_assign and 'config_for_backend' in src(src_assign[0].value):
                    bk = a.targets[0].id
    if core is None or bk is None:
        raise AnalysisError(f'C19.R1: config objects not found (core={core}, backend={bk})')
    edges = []
    for who in (core, bk):
        ak = _first_stmt_calling(mn, lambda c: is_method(c, who, 'apply_known'))
        ae = _first_stmt_calling(mn, lambda c: is_method(c, who, 'apply_env'))
        di = _first_stmt_calling(mn, lambda c: is_method(c, who, 'dict'))
        if None in (ak, ae, di):
            raise AnalysisError(f'C19.R1: apply_known/apply_env/dict call on `{who}` not found')
        edges += [(f'{who}.apply_known (file)', ak, f'{who}.apply_env (environment)', ae, False), (f'{who}.apply_env (environment)', ae, f'{who}.dict() (export as parser defaults)', di, True)]
    lb = _first_stmt_calling(mn, lambda c: (dotted(c.func) or '').endswith('load_backend'))
    ov = None
    for a in walk_local(mn.node):
        if isinstance(a, ast.Assign) and any(dotted(t) == f'{core}.repository' for t in a.targets):
            ov = a
    mp = _first_stmt_calling(mn, lambda c: (dotted(c.func) or '').endswith('make_main_parser'))
    pk = None
    for st in walk_local(mn.node):
        if isinstance(st, ast.Assign) and isinstance(st.value, ast.Call) and isinstance(st.value.func, ast.Attribute) and st.value.func.attr == 'parse_known_args' and dotted(st.value.func.value) and 'main_parser' in dotted(st.value.func.value):
            pk = st
    if None in (lb, ov, mp, pk):
        raise AnalysisError('C19.R1: load_backend / repository override / make_main_parser / final parse not found')
    env_core = _first_stmt_calling(mn, lambda c: is_method(c, core, 'apply_env'))
    edges += [
        ('environment applied to the core config', env_core, 'CLI -r override of the repository', ov, True),
        ('CLI -r override of the repository', ov, 'load_backend', lb, False),
        ('make_main_parser(defaults=...)', mp, 'final parse of the full command line', pk, True),
    ]
    for an, a, bn, b, must_complete in edges:
        a_nodes = cfg.nodes_of(a, 'ok') or cfg.nodes_of(a, 'stmt')
        # `a` may be conditional (file options only when a file exists; -r only when given): order = no path reaches a after b
        back = None
        for x in cfg.nodes_of(b, 'stmt'):
            back = back or cfg.path(x, cfg.nodes_of(a, 'stmt'))
        fwd = any(cfg.path(x, cfg.nodes_of(b, 'stmt')) for x in a_nodes)
        ctx.check(
            back is None and fwd,
            'C19.R1',
            f'{func_label(mn)}|order:{an}<{bn}',
            loc(mn, b),
            f'main: {an} precedes {bn}',
            f'main: {bn} can run before {an}: a lower-priority source overrides a higher-priority one',
        )
        if must_complete:
            dom = all(cfg.set_dominates(a_nodes, x) for x in cfg.nodes_of(b, 'stmt'))
            ctx.check(
                dom,
                'C19.R1',
                f'{func_label(mn)}|always:{an}<{bn}',
                loc(mn, b),
                f'main: {an} has happened on every path that reaches {bn}',
                f'main: {bn} can be reached on a path that skips {an} (e.g. an early exit of an option-loading branch): that source is silently ignored for some invocations and a lower-priority source wins',
            )
    # defaults handed to the parser: the two exports, unfiltered
    mpc = next(c for c in calls_in(mp) if (dotted(c.func) or '').endswith('make_main_parser'))
    dk = kwarg(mpc, 'defaults')
    ok = False
    why = 'defaults= is not a plain mapping built from the two exports'
    if isinstance(dk, ast.Name):
        D = dk.id
        touches = []
        for n in walk_local(mn.node):
            if isinstance(n, ast.Assign) and any(isinstance(t, ast.Name) and t.id == D for t in n.targets):
                touches.append(('assign', n))
            elif isinstance(n, ast.Assign) and any(isinstance(t, ast.Subscript) and isinstance(t.value, ast.Name) and t.value.id == D for t in n.targets):
                touches.append(('item', n))
            elif isinstance(n, ast.Delete) and any(isinstance(x, ast.Name) and x.id == D for t in n.targets for x in ast.walk(t)):
                touches.append(('del', n))
            elif isinstance(n, ast.AugAssign) and isinstance(n.target, ast.Name) and n.target.id == D:
                touches.append(('aug', n))
            elif isinstance(n, ast.Call) and isinstance(n.func, ast.Attribute) and isinstance(n.func.value, ast.Name) and n.func.value.id == D and n.func.attr not in ('get', 'items', 'keys', 'values', 'copy'):
                touches.append((n.func.attr, n))
        srcs = set()
        shape = True
        for kind, n in touches:
            v = n.value if kind == 'assign' else (n.args[0] if kind == 'update' and n.args else None)
            if kind in ('assign', 'update') and isinstance(v, ast.Call) and isinstance(v.func, ast.Attribute) and v.func.attr == 'dict' and not v.args and dotted(v.func.value) in (core, bk):
                srcs.add(dotted(v.func.value))
            elif kind == 'assign' and isinstance(v, ast.Dict) and all(k is None for k in v.keys) and all(isinstance(x, ast.Call) and isinstance(x.func, ast.Attribute) and x.func.attr == 'dict' and dotted(x.func.value) in (core, bk) for x in v.values):
                srcs |= {dotted(x.func.value) for x in v.values}
            else:
                shape = False
                why = f'`{src(n, 70)}` filters / rewrites the merged values'
        ok = shape and srcs == {core, bk}
        if shape and srcs != {core, bk}:
            why = f'only {sorted(srcs)} exported'
    ctx.check(
        ok,
        'C19.R1',
        f'{func_label(mn)}|defaults-are-both-exports-unfiltered',
        loc(mn, mp),
        'main: the parser-level defaults are core.dict() merged with backend.dict(), every entry included',
        f'main: the mapping handed to the parser as defaults is not the unfiltered merge of the two config exports ({why}): values set in the file/environment (e.g. an explicit None such as no-cache) are dropped and the built-in default wins',
    )


def _walk(t):
    from ..terms import walk

    return walk(t)


def r2_subparsers(ctx):
    corpus = ctx.corpus
    mk = corpus.module('cli').functions.get('make_main_parser')
    if mk is None:
        raise AnalysisError('C19.R2: cli.make_main_parser missing')
    ctx.analysed(mk)
    created = {}
    for a in walk_local(mk.node):
        if isinstance(a, ast.Assign) and isinstance(a.value, ast.Call) and isinstance(a.value.func, ast.Attribute) and a.value.func.attr == 'add_parser' and isinstance(a.targets[0], ast.Name):
            created[a.targets[0].id] = a.value
    ctx.floor('C19.R2', 'sub-parsers', len(created), 10)
    with_defaults = set()
    for c in calls_in(mk.node):
        if isinstance(c.func, ast.Attribute) and c.func.attr == 'set_defaults' and isinstance(c.func.value, ast.Name):
            if any(k.arg is None and isinstance(k.value, ast.Name) and k.value.id == 'defaults' for k in c.keywords):  # `defaults` is a parameter name (public interface of make_main_parser)
                with_defaults.add(c.func.value.id)
    # ... or one loop over every registered sub-parser (`for p in subparsers.choices.values(): p.set_defaults(**defaults)`)
    # placed after the last add_parser call
    actions = {dotted(call.func.value) for call in created.values()}
    last_add = max((call.lineno for call in created.values()), default=0)
    for lp in [l for l in mk.node.body if isinstance(l, ast.For) and isinstance(l.target, ast.Name)]:
        over_all = any(isinstance(x, ast.Attribute) and x.attr == 'choices' and dotted(x.value) in actions for x in ast.walk(lp.iter))
        sets = any(isinstance(c.func, ast.Attribute) and c.func.attr == 'set_defaults' and isinstance(c.func.value, ast.Name) and c.func.value.id == lp.target.id and any(k.arg is None and isinstance(k.value, ast.Name) and k.value.id == 'defaults' for k in c.keywords) for st in lp.body for c in calls_in(st) if st in lp.body and not isinstance(st, (ast.If, ast.Try)))
        if over_all and sets and lp.lineno > last_add:
            with_defaults |= set(created)
    for name, call in created.items():
        par = kwarg(call, 'parents')
        ctx.check(
            name in with_defaults and isinstance(par, ast.Name) and par.id == 'parent_parsers',
            'C19.R2',
            f'{func_label(mk)}|subparser-defaults:{call.args[0].value if call.args and isinstance(call.args[0], ast.Constant) else name}',
            loc(mk, call),
            f'sub-parser {name}: parents=parent_parsers and set_defaults(**defaults)',
            f'sub-parser {name}: config/environment values are not installed as defaults (or the common options are missing): for this command file and environment settings are ignored',
        )
    d0 = [a for a in mk.node.body if isinstance(a, ast.If) and 'defaults is None' in src(a.test)]
    ctx.check(bool(d0), 'C19.R2', f'{func_label(mk)}|defaults-parameter', loc(mk, mk.node), 'make_main_parser takes the defaults mapping from its caller', 'make_main_parser no longer takes the defaults from its caller')


def r3_profile(ctx):
    corpus = ctx.corpus
    rc = corpus.module('config').functions.get('read_config')
    if rc is None:
        raise AnalysisError('C19.R3: config.read_config missing')
    ctx.analysed(rc)
    ups = [c for c in calls_in(rc.node) if isinstance(c.func, ast.Attribute) and c.func.attr == 'update']
    ok = False
    for c in ups:
        recv = c.func.value
        arg = c.args[0] if c.args else None
        recv_def = [a for a in walk_local(rc.node) if isinstance(a, ast.Assign) and isinstance(a.targets[0], ast.Name) and isinstance(recv, ast.Name) and a.targets[0].id == recv.id]
        if recv_def and 'DEFAULTS_SECTION' in src(recv_def[0].value) and isinstance(arg, ast.Subscript) and src(arg.slice) == 'profile':
            rets = [r for r in walk_local(rc.node) if isinstance(r, ast.Return) and isinstance(r.value, ast.Name) and r.value.id == recv.id]
            ok = bool(rets)
    ctx.check(ok, 'C19.R3', f'{func_label(rc)}|profile-overlays-default', loc(rc, rc.node), 'read_config returns the default section updated with the profile section (profile wins)', 'read_config no longer overlays the profile on the default section (defaults would win, or the profile is ignored)')
    unknown = any(isinstance(t, ast.Try) and any('KeyError' in handler_catches(h) and any(isinstance(s, ast.Raise) for s in h.body) for h in t.handlers) for t in walk_local(rc.node))
    ctx.check(unknown, 'C19.R3', f'{func_label(rc)}|unknown-profile-raises', loc(rc, rc.node), 'an unknown profile raises', 'an unknown profile is silently ignored')
    pre = any(isinstance(a, ast.Assign) and 'DEFAULTS_SECTION' in src(a.value) and 'read_text' in src(a.value) for a in walk_local(rc.node))
    ctx.check(pre, 'C19.R3', f'{func_label(rc)}|top-level-options-are-default-section', loc(rc, rc.node), "options before the first [section] form the default section", 'the implicit default section header is no longer prepended')


CORE_FILE = {
    'repository': {'parse_repository'},
    'concurrent': {'_check_natural_number'},
    'hide-progress': {'_check_boolean'},
    'cache-directory': {'Path'},
    'password': {'str.encode'},
    'password-file': {'_read_bytes'},
    'key': {'str.encode'},
    'key-file': {'_read_bytes'},
    'log-level': {'_convert_log_level'},
}
CLI_TYPES = {
    '--repository': {'parse_repository'},
    '--concurrent': {'_natural_number'},
    '--cache-directory': {'Path'},
    '--key-file': {'_read_bytes'},
    '--password': {'os.fsencode'},
    '--password-file': {'_read_bytes'},
}


def r4_coercers(ctx):
    corpus = ctx.corpus
    cm = corpus.module('config')
    cfgc = cm.classes.get('Config')
    ak = cfgc.methods.get('apply_known')
    ae = cfgc.methods.get('apply_env')
    ctx.analysed(ak, ae)
    seen = {}
    for c in calls_in(ak.node):
        if isinstance(c.func, ast.Attribute) and c.func.attr in ('popset', 'getset') and len(c.args) >= 3 and isinstance(c.args[1], ast.Constant):
            seen[c.args[1].value] = dotted(c.args[2])
    for opt, want in CORE_FILE.items():
        ctx.check(seen.get(opt) in want, 'C19.R4', f'{func_label(ak)}|file-coercer:{opt}', loc(ak, ak.node), f'file option {opt}: converter {seen.get(opt)}', f'file option {opt}: converter is {seen.get(opt)}, expected one of {sorted(want)}')
    nc = [c for c in calls_in(ak.node) if dotted(c.func) == '_check_boolean' and any(isinstance(x, ast.Constant) and x.value == 'no-cache' for x in ast.walk(c))]
    ctx.check(bool(nc), 'C19.R4', f'{func_label(ak)}|file-coercer:no-cache', loc(ak, ak.node), 'file option no-cache: _check_boolean', 'file option no-cache is no longer read through _check_boolean')
    # environment
    envs = {}
    for c in calls_in(ae.node):
        if isinstance(c.func, ast.Attribute) and c.func.attr == 'getset' and len(c.args) >= 3 and isinstance(c.args[1], ast.Constant):
            envs[c.args[1].value] = dotted(c.args[2])
        if dotted(c.func) == '_get_environb' and c.args and isinstance(c.args[0], ast.Constant):
            envs[c.args[0].value] = '_get_environb'
        # ... or through the shared "read, ignore a missing key, store" helper: _validate_set(<reader>, <variable>, field=..)
        if isinstance(c.func, ast.Attribute) and c.func.attr == '_validate_set' and len(c.args) >= 2 and isinstance(c.args[1], ast.Constant) and (len(c.args) < 3 or (isinstance(c.args[2], ast.Constant) and c.args[2].value is None)):
            envs[c.args[1].value] = dotted(c.args[0])
    ctx.check(envs.get('REPLICAT_REPOSITORY') == 'parse_repository' and envs.get('REPLICAT_PASSWORD') == '_get_environb', 'C19.R4', f'{func_label(ae)}|env-coercers', loc(ae, ae.node), 'environment: REPLICAT_REPOSITORY -> parse_repository, REPLICAT_PASSWORD -> bytes', f'environment coercers changed: {envs}')
    # every source assignment in apply_env / apply_known is unconditional
    for f in (ae, ak, cm.classes['BaseBackendConfig'].methods.get('apply_env'), cm.classes['BaseBackendConfig'].methods.get('apply_known')):
        ctx.analysed(f)
        bad = []
        for n in walk_local(f.node):
            is_set = (isinstance(n, ast.Assign) and any(isinstance(t, ast.Attribute) and isinstance(t.value, ast.Name) and t.value.id == 'self' for t in n.targets)) or (isinstance(n, ast.Call) and isinstance(n.func, ast.Attribute) and n.func.attr in ('getset', 'popset'))
            if not is_set:
                continue
            for a in ancestors(n):
                if a is f.node:
                    break
                if isinstance(a, ast.If):
                    t = src(a.test)
                    if 'self.' in t or 'getattr(self' in t:
                        bad.append((n, a))
            # early exits that depend on the current value
            for i in walk_local(f.node):
                if isinstance(i, ast.If) and i.lineno < n.lineno and ('self.' in src(i.test) or 'getattr(self' in src(i.test)) and any(isinstance(x, (ast.Return, ast.Raise, ast.Continue, ast.Break)) for b in i.body for x in ast.walk(b)):
                    bad.append((n, i))
        ctx.check(
            not bad,
            'C19.R4',
            f'{func_label(f)}|source-overrides-unconditionally',
            loc(f, bad[0][1]) if bad else loc(f, f.node),
            f'{f.qual}: a value present in this source always replaces the value from lower-priority sources',
            f'{f.qual}: the value from this source is applied only when `{src(bad[0][1].test, 50) if bad else ""}`: a lower-priority source (file/profile) then beats this one',
        )
    # _validate_set assigns whenever the key is present
    vs = cm.classes['BaseConfig'].methods.get('_validate_set')
    from ..cfg import cfg_of as _cfg_of

    vcfg = _cfg_of(vs.node)
    sets = [enclosing_stmt(c) for c in calls_in(vs.node) if dotted(c.func) == 'setattr']
    set_nodes = [n for st in sets for n in vcfg.nodes_of(st, 'stmt')]
    oks = False
    for t in walk_local(vs.node):
        if isinstance(t, ast.Try) and any('KeyError' in handler_catches(h) for h in t.handlers) and t.body:
            present = vcfg.nodes_of(t.body[-1], 'ok') or vcfg.nodes_of(t.body[-1], 'stmt')
            absent = [n for h in t.handlers for n in vcfg.nodes_of(h, 'handler')]
            # key present -> every path to the end assigns; key absent -> no path assigns
            oks = bool(set_nodes) and bool(present) and all(vcfg.path(p, [vcfg.exit], avoid=set_nodes, kinds=('normal',)) is None for p in present) and all(vcfg.path(a, set_nodes) is None for a in absent)
    ctx.check(oks, 'C19.R4', f'{func_label(vs)}|validate-set-shape', loc(vs, vs.node), '_validate_set: missing key -> unchanged, present key -> setattr(validated value)', '_validate_set changed')
    # CLI
    cl = corpus.module('cli')
    cli_types = {}
    for c in ast.walk(cl.tree):
        if isinstance(c, ast.Call) and isinstance(c.func, ast.Attribute) and c.func.attr == 'add_argument':
            flags = [a.value for a in c.args if isinstance(a, ast.Constant) and isinstance(a.value, str) and a.value.startswith('--')]
            t = kwarg(c, 'type')
            for fl in flags:
                if fl in CLI_TYPES:
                    cli_types[fl] = dotted(t) if t is not None else None
    for fl, want in CLI_TYPES.items():
        ctx.check(cli_types.get(fl) in want, 'C19.R4', f'{cl.rel}|cli-coercer:{fl}', cl.rel, f'CLI {fl}: type={cli_types.get(fl)}', f'CLI {fl}: type is {cli_types.get(fl)}, expected one of {sorted(want)} (the same text would be coerced differently from the file/environment value)')
    # equivalence of the natural-number and read-bytes helpers
    nn = cl.functions.get('_natural_number')
    cn = cm.functions.get('_check_natural_number')
    okn = nn is not None and cn is not None and '< 1' in src(nn.node, 400) and '< 1' in src(cn.node, 600) and 'int(value)' in src(nn.node, 400) and 'int(value)' in src(cn.node, 600)
    ctx.check(okn, 'C19.R4', f'{cl.rel}|natural-number-equivalence', cl.rel, '_natural_number (CLI) and _check_natural_number (file) accept the same texts (int(value) >= 1)', 'the CLI and file natural-number converters disagree')
    # backend options: guess_type in all three sources
    bb = cm.classes['BaseBackendConfig']
    for mname in ('apply_known', 'apply_env'):
        f = bb.methods[mname]
        cs = [c for c in calls_in(f.node) if isinstance(c.func, ast.Attribute) and c.func.attr in ('popset', 'getset')]
        ok = bool(cs) and all(len(c.args) >= 3 and dotted(c.args[2]) == 'guess_type' for c in cs)
        ctx.check(ok, 'C19.R4', f'{func_label(f)}|backend-coercer', loc(f, f.node), f'backend options ({mname}): guess_type', f'backend options ({mname}): converter is not guess_type')
    pf = cl.functions.get('parser_for_backend')
    adds = [c for c in calls_in(pf.node) if isinstance(c.func, ast.Attribute) and c.func.attr == 'add_argument']
    ok = bool(adds) and all(dotted(kwarg(c, 'type')) == 'guess_type' for c in adds)
    ctx.check(
        ok,
        'C19.R4',
        f'{func_label(pf)}|backend-cli-coercer',
        loc(pf, adds[0]) if adds else loc(pf, pf.node),
        'backend options (CLI): type=guess_type, the converter the file and the environment use',
        f'backend options (CLI): type is `{src(kwarg(adds[0], "type")) if adds and kwarg(adds[0], "type") is not None else None}`, while file and environment values go through guess_type: the same text yields different values depending on the source',
    )


def r5_exclusions(ctx):
    corpus = ctx.corpus
    cm = corpus.module('config')
    ak = cm.classes['Config'].methods['apply_known']
    first_two = ak.node.body[:2]
    pairs = set()
    for st in first_two:
        for c in calls_in(st):
            if dotted(c.func) == '_check_mutually_exclusive':
                pairs.add(tuple(a.value for a in c.args[1:] if isinstance(a, ast.Constant)))
    ctx.check(pairs == {('key', 'key-file'), ('password', 'password-file')}, 'C19.R5', f'{func_label(ak)}|file-exclusions-first', loc(ak, ak.node), 'file: (key, key-file) and (password, password-file) are checked for exclusivity before any option is consumed', f'file: exclusivity checks are {sorted(pairs)} / not the first statements')
    helper = cm.functions.get('_check_mutually_exclusive')
    if helper is None:
        raise AnalysisError('C19.R5: config._check_mutually_exclusive missing')
    ctx.analysed(helper)
    presence = any(isinstance(g, ast.GeneratorExp) and isinstance(g.elt, ast.Compare) and isinstance(g.elt.ops[0], ast.In) and isinstance(g.elt.comparators[0], ast.Name) and g.elt.comparators[0].id == helper.node.args.args[0].arg for g in ast.walk(helper.node))
    two = sum(1 for c in ast.walk(helper.node) if isinstance(c, ast.Call) and dotted(c.func) == 'any') >= 2 or any(isinstance(c, ast.Call) and dotted(c.func) == 'sum' for c in ast.walk(helper.node))
    raises = any(isinstance(r, ast.Raise) for r in ast.walk(helper.node))
    ctx.check(
        presence and two and raises,
        'C19.R5',
        f'{func_label(helper)}|exclusivity-by-presence',
        loc(helper, helper.node),
        '_check_mutually_exclusive rejects a mapping in which two of the keys are PRESENT (whatever their values)',
        '_check_mutually_exclusive no longer decides by key presence (e.g. by truthiness): `password = ""` together with `password-file` is accepted and the lower-priority source wins',
    )
    cl = corpus.module('cli')
    groups = {}
    for a in ast.walk(cl.tree):
        if isinstance(a, ast.Assign) and isinstance(a.value, ast.Call) and isinstance(a.value.func, ast.Attribute) and a.value.func.attr == 'add_mutually_exclusive_group' and isinstance(a.targets[0], ast.Name):
            groups[a.targets[0].id] = set()
    for c in ast.walk(cl.tree):
        if isinstance(c, ast.Call) and isinstance(c.func, ast.Attribute) and c.func.attr == 'add_argument' and isinstance(c.func.value, ast.Name) and c.func.value.id in groups:
            groups[c.func.value.id] |= {a.value for a in c.args if isinstance(a, ast.Constant) and str(a.value).startswith('--')}
    want = [{'--password', '--password-file'}, {'--no-cache', '--cache-directory'}, {'--ignore-config', '--config'}, {'--new-password', '--new-password-file'}, {'--shared', '--clone'}]
    have = list(groups.values())
    for w in want:
        ctx.check(any(w <= g for g in have), 'C19.R5', f'{cl.rel}|cli-exclusive:{"/".join(sorted(w))}', cl.rel, f'CLI: {sorted(w)} are mutually exclusive', f'CLI: {sorted(w)} are no longer in one mutually exclusive group')


def r7_parsers_agree(ctx):
    """the bootstrap parser and the per-command parsers see the same options: they are built with the same abbreviation /
    prefix policy (an option the second parse accepts as `--prof` but the first one ignores is taken from a lower-priority source)"""
    corpus = ctx.corpus
    cl = corpus.module('cli')
    settings = {}
    for c in ast.walk(cl.tree):
        if isinstance(c, ast.Call) and (dotted(c.func) or '').endswith('ArgumentParser'):
            ab = kwarg(c, 'allow_abbrev')
            v = ab.value if isinstance(ab, ast.Constant) else ('?' if ab is not None else True)
            settings.setdefault(v, []).append(c)
        if isinstance(c, ast.Call) and isinstance(c.func, ast.Attribute) and c.func.attr == 'add_parser':
            ab = kwarg(c, 'allow_abbrev')
            if ab is not None:
                v = ab.value if isinstance(ab, ast.Constant) else '?'
                settings.setdefault(v, []).append(c)
    n = sum(len(v) for v in settings.values())
    ctx.floor('C19.R7', 'ArgumentParser constructions in utils/cli.py', n, 2)
    odd = min(settings.values(), key=len)[0] if len(settings) > 1 else None
    ctx.check(
        len(settings) == 1,
        'C19.R7',
        f'{cl.rel}|parsers-share-abbreviation-policy',
        f'{cl.rel}:{odd.lineno}' if odd is not None else cl.rel,
        'all argument parsers use the same allow_abbrev policy (the bootstrap parse and the final parse recognise the same spellings)',
        f'the parsers disagree on allow_abbrev ({sorted(map(str, settings))}): an abbreviated option is seen by one parse and not by the other - profile / config file / repository are then taken from a lower-priority source',
    )


def _kwonly_selected(f):
    """every effect of the per-parameter loop happens only for parameters whose kind is KEYWORD_ONLY
    (guard clause `is not ...: continue` or positive `if kind is ...:` - decided on the CFG)"""
    from ..cfg import cfg_of

    cfg = cfg_of(f.node)
    sel = []
    guards = []
    for i in walk_local(f.node):
        if isinstance(i, ast.If) and isinstance(i.test, ast.Compare) and len(i.test.ops) == 1:
            c = i.test
            l, r = c.left, c.comparators[0]
            if isinstance(r, ast.Attribute) and r.attr == 'kind':
                l, r = r, l
            if isinstance(l, ast.Attribute) and l.attr == 'kind' and isinstance(r, ast.Attribute) and r.attr == 'KEYWORD_ONLY':
                if isinstance(c.ops[0], (ast.Is, ast.Eq)):
                    sel += cfg.nodes_of(i, 'true')
                    guards.append(i)
                elif isinstance(c.ops[0], (ast.IsNot, ast.NotEq)):
                    sel += cfg.nodes_of(i, 'false')
                    guards.append(i)
    if not sel:
        # comprehension form: {name: .. for name, p in params.items() if p.kind is p.KEYWORD_ONLY and ..}
        for comp in ast.walk(f.node):
            if isinstance(comp, (ast.DictComp, ast.ListComp, ast.SetComp, ast.GeneratorExp)):
                for g in comp.generators:
                    conds = []
                    for i in g.ifs:
                        conds += i.values if isinstance(i, ast.BoolOp) and isinstance(i.op, ast.And) else [i]
                    for c in conds:
                        if isinstance(c, ast.Compare) and len(c.ops) == 1 and isinstance(c.ops[0], (ast.Is, ast.Eq)):
                            l, r = c.left, c.comparators[0]
                            if isinstance(r, ast.Attribute) and r.attr == 'kind':
                                l, r = r, l
                            if isinstance(l, ast.Attribute) and l.attr == 'kind' and isinstance(r, ast.Attribute) and r.attr == 'KEYWORD_ONLY':
                                return True
        return False
    loops = [l for l in walk_local(f.node) if isinstance(l, (ast.For, ast.AsyncFor)) and any(g in list(ast.walk(l)) for g in guards)]
    if not loops:
        return False
    loop = loops[0]
    for st in ast.walk(loop):
        if isinstance(st, (ast.Assign, ast.AugAssign, ast.AnnAssign, ast.Expr, ast.Return, ast.Delete)) and st is not loop:
            for n in cfg.nodes_of(st, 'stmt'):
                if not cfg.set_dominates(sel, n):
                    return False
    return True


def r8_sources_reach_the_command(ctx):
    """(a) A value set in the configuration file / environment takes effect only through the parser-level defaults, i.e.
    when its Config field is the `dest` of some command-line option (or is read from the config object directly in
    main).  A field that is nobody's dest is silently ignored - for that option the file and the environment lose
    their place in the precedence order.  (b) The handler around reading the configuration file covers the read only:
    a "file not found" raised by *applying* the options (password-file / key-file pointing nowhere) is not the "no
    configuration file" case.  (c) The environment-variable prefix of a backend is its OWN short name."""
    corpus = ctx.corpus
    cli, cfgm, mainm = corpus.module('cli'), corpus.module('config'), corpus.module('main')
    dests = set()
    for n in ast.walk(cli.tree):
        if isinstance(n, ast.Call) and isinstance(n.func, ast.Attribute) and n.func.attr == 'add_argument':
            d = kwarg(n, 'dest')
            if isinstance(d, ast.Constant):
                dests.add(d.value)
                continue
            longs = [a.value for a in n.args if isinstance(a, ast.Constant) and isinstance(a.value, str) and a.value.startswith('--')]
            pos = [a.value for a in n.args if isinstance(a, ast.Constant) and isinstance(a.value, str) and not a.value.startswith('-')]
            if longs:
                dests.add(longs[0][2:].replace('-', '_'))
            elif pos:
                dests.add(pos[0])
    C = cfgm.classes.get('Config')
    if C is None:
        raise AnalysisError('C19.R8: config.Config missing')
    fields = [st.target.id for st in C.node.body if isinstance(st, ast.AnnAssign) and isinstance(st.target, ast.Name) and not any(isinstance(x, ast.Name) and x.id == 'ClassVar' or isinstance(x, ast.Attribute) and x.attr == 'ClassVar' for x in ast.walk(st.annotation))]
    ctx.floor('C19.R8', 'fields of config.Config', len(fields), 5)
    mn = mainm.functions.get('main')
    read_directly = {a.attr for f in mainm.all_functions for a in ast.walk(f.node) if isinstance(a, ast.Attribute) and isinstance(a.value, ast.Name) and 'cfg' in a.value.id.lower() and isinstance(a.ctx, ast.Load)}
    for fld in fields:
        ctx.check(
            fld in dests or fld in read_directly,
            'C19.R8',
            f'replicat/utils/config.py|Config|field-reaches-a-consumer:{fld}',
            loc(mn, mn.node),
            f'Config.{fld} is the dest of a command-line option (or read from the config object in main)',
            f'Config.{fld} is not the dest of any command-line option and main never reads it: the value from the configuration file / environment is installed as a parser default under a name no argument uses and '
            'no code reads - the option only works from the command line',
        )
    # (b)
    for t in walk_local(mn.node):
        if not isinstance(t, ast.Try):
            continue
        if not any((dotted(c.func) or '').endswith('read_config') for st in t.body for c in ast.walk(st) if isinstance(c, ast.Call)):
            continue
        for h in t.handlers:
            from ..astutil import handler_reraises as _hr

            if _hr(h):
                continue
            others = [c for st in t.body for c in ast.walk(st) if isinstance(c, ast.Call) and not (dotted(c.func) or '').endswith('read_config') and not (dotted(c.func) or '').startswith(('logger.', 'logging.'))]
            ctx.check(
                not others,
                'C19.R8',
                f'{func_label(mn)}|missing-file-handler-covers-the-read-only',
                loc(mn, h),
                'main: the handler for a missing configuration file covers read_config() only',
                f'main: the handler for a missing configuration file also covers `{src(others[0], 50) if others else ""}`: an error raised while the options are applied (a password-file / key-file that does not exist) is '
                'taken for "no configuration file" - the file\'s options are silently dropped and built-in defaults win',
            )
    # (c)
    base = corpus.cls('base', 'Backend')
    isc = base.methods.get('__init_subclass__')
    if isc is not None:
        ctx.analysed(isc)
        inherited = [c for c in calls_in(isc.node) if (dotted(c.func) or '') == 'getattr' and c.args and isinstance(c.args[0], ast.Name) and c.args[0].id in ('cls', 'self') and len(c.args) >= 2 and isinstance(c.args[1], ast.Constant) and c.args[1].value in ('short_name', 'display_name')]
        ctx.check(
            not inherited,
            'C19.R8',
            f'{func_label(isc)}|short-name-is-the-class-own',
            loc(isc, inherited[0]) if inherited else loc(isc, isc.node),
            'Backend.__init_subclass__: a backend without a declared short name is named after its own class',
            f'Backend.__init_subclass__: `{src(inherited[0], 50) if inherited else ""}` looks the name up through inheritance: a backend derived from another one (S3 from S3Compatible) takes over ITS short name - '
            'the documented environment variables of the derived backend (S3_KEY_ID ..) are no longer read',
        )


def r6_custom_backends(ctx):
    corpus = ctx.corpus
    has_init = 'replicat/backends/__init__.py' in corpus.files
    ctx.check(not has_init, 'C19.R6', 'replicat/backends|namespace-package', 'replicat/backends', 'replicat/backends is a namespace package (no __init__.py): custom backends installed elsewhere are importable as replicat.backends.<name>', 'replicat/backends/__init__.py exists: custom backends from other distributions can no longer be discovered')
    ctx.check('replicat/__init__.py' not in corpus.files, 'C19.R6', 'replicat|namespace-package', 'replicat', 'replicat itself is a namespace package', 'replicat/__init__.py exists: the namespace layout the backends rely on changed')
    setup = corpus.extra_files.get('setup.py', '')
    ctx.check('find_namespace_packages' in setup and 'packages=find_namespace_packages' in setup.replace(' ', ''), 'C19.R6', 'setup.py|find-namespace-packages', 'setup.py', 'setup.py packages the project with find_namespace_packages', 'setup.py no longer uses find_namespace_packages')
    lb = corpus.module('utils').functions.get('load_backend')
    ok = lb is not None and "f'..backends.{name}'" in src(lb.node, 800) and any(isinstance(r, ast.Return) and any(isinstance(a, ast.Attribute) and a.attr == 'Client' for a in ast.walk(r)) for r in ast.walk(lb.node))
    ctx.check(ok, 'C19.R6', f'{func_label(lb)}|load-backend', loc(lb, lb.node), 'load_backend imports replicat.backends.<name> and returns its Client', 'load_backend changed how the adapter module / Client is located')
    # the three consumers of the constructor signature agree
    # every function that reads the constructor signature (found by the inspect.signature call, wherever it lives)
    fns = []
    for mname in ('config', 'cli', 'main'):
        for f in corpus.module(mname).all_functions:
            if any((dotted(c.func) or '') in ('inspect.signature', 'signature') for c in calls_in(f.node)):
                fns.append(f)
    ctx.floor('C19.R6', 'consumers of the adapter constructor signature (config class, CLI parser, instantiation)', len(fns), 3)
    for f in fns:
        ctx.analysed(f)
        ok = _kwonly_selected(f)
        ctx.check(ok, 'C19.R6', f'{func_label(f)}|keyword-only-parameters', loc(f, f.node), f'{f.name}: backend options are exactly the keyword-only parameters of the Client constructor', f'{f.name}: selects another parameter kind than the other consumers')
    pfs = [f for f in fns if any(isinstance(c.func, ast.Attribute) and c.func.attr == 'add_argument' for c in calls_in(f.node))]
    ctx.floor('C19.R6', 'signature consumer that builds the CLI parser', len(pfs))
    pf = pfs[0]
    # the option string handed to add_argument is built from the parameter name with _ -> -
    adds = [c for c in calls_in(pf.node) if isinstance(c.func, ast.Attribute) and c.func.attr == 'add_argument' and c.args]
    ctx.floor('C19.R6', 'add_argument calls of parser_for_backend', len(adds))

    def _hyphenated(fn_node, e, depth=0):
        """sub-expression `<x>.replace('_', '-')` that feeds e (names followed to their definitions)"""
        if depth > 4:
            return None
        for n in ast.walk(e):
            if isinstance(n, ast.Call) and isinstance(n.func, ast.Attribute) and n.func.attr == 'replace' and [const_value(a) for a in n.args] == ['_', '-']:
                return n
        for n in ast.walk(e):
            if isinstance(n, ast.Name) and isinstance(n.ctx, ast.Load):
                d = deref_at(fn_node, n)
                if d is not n:
                    r = _hyphenated(fn_node, d, depth + 1)
                    if r is not None:
                        return r
        return None

    def _is_param_name(fn_node, e):
        """e is the name yielded by iterating <signature>.parameters(.items()) / a dataclass field's .name"""
        d = deref_at(fn_node, e) if isinstance(e, ast.Name) else e
        if isinstance(d, ast.Attribute) and d.attr == 'name' and isinstance(d.value, ast.Name):
            return any(isinstance(l, (ast.For, ast.comprehension)) and any(isinstance(t, ast.Name) and t.id == d.value.id for t in ast.walk(l.target)) and any(isinstance(c, ast.Call) and (dotted(c.func) or '').endswith('fields') for c in ast.walk(l.iter)) for l in ast.walk(fn_node))
        if isinstance(d, ast.Name):
            for l in ast.walk(fn_node):
                if isinstance(l, (ast.For, ast.comprehension)) and isinstance(l.target, ast.Tuple) and l.target.elts and isinstance(l.target.elts[0], ast.Name) and l.target.elts[0].id == d.id:
                    it = deref_at(fn_node, l.iter) if isinstance(l.iter, ast.Name) else l.iter
                    if isinstance(it, ast.Call) and isinstance(it.func, ast.Attribute) and it.func.attr == 'items':
                        return True
        return False

    opt = [_hyphenated(pf.node, c.args[0]) for c in adds]
    ok = all(h is not None and _is_param_name(pf.node, h.func.value) for h in opt)
    ctx.check(ok, 'C19.R6', f'{func_label(pf)}|cli-name-mapping', loc(pf, pf.node), 'CLI option name = parameter name with _ -> - (the string given to add_argument is built from <parameter name>.replace("_", "-"))', 'CLI option naming changed: the option string is not the parameter name with _ -> -')
    bb = corpus.module('config').classes['BaseBackendConfig'].methods['apply_known']
    pops = [c for c in calls_in(bb.node) if isinstance(c.func, ast.Attribute) and c.func.attr == 'popset' and len(c.args) >= 2]
    ctx.floor('C19.R6', 'popset calls of apply_known', len(pops))
    okf = True
    for c in pops:
        h = _hyphenated(bb.node, c.args[1])
        fld = kwarg(c, 'field')
        okf = okf and h is not None and _is_param_name(bb.node, h.func.value) and fld is not None and _is_param_name(bb.node, fld)
    ctx.check(okf, 'C19.R6', f'{func_label(bb)}|file-name-mapping', loc(bb, bb.node), 'file option name = field name with _ -> -, stored into that same field', 'file option naming changed')
    be = corpus.module('config').functions.get('backend_env_option')
    ok = be is not None and src(be.node.body[-1]) == "return f'{backend_type.short_name}_{option_name}'.upper()"
    ctx.check(ok, 'C19.R6', f'{func_label(be)}|env-name', loc(be, be.node), 'environment name = <SHORT_NAME>_<OPTION> upper-cased (used by the config class and the help text)', 'environment variable naming changed')
    ib = fns[2]
    ctx.check('_missing_backend_argument' in src(ib.node, 2000) and 'is not _missing_backend_argument' in src(ib.node, 2000), 'C19.R6', f'{func_label(ib)}|missing-sentinel', loc(ib, ib.node), '_instantiate_backend passes only the options that were given by some source', '_instantiate_backend no longer filters unset options by the sentinel')


def run(ctx):
    r8_sources_reach_the_command(ctx)
    r1_order(ctx)
    r2_subparsers(ctx)
    r3_profile(ctx)
    r4_coercers(ctx)
    r5_exclusions(ctx)
    r6_custom_backends(ctx)
    r7_parsers_agree(ctx)
