"""C09 - Snapshot and restore do not depend on thread or I/O scheduling.

Decides: slot enclosure of every transfer site, exactly N tokens, release in
finally, no nested acquisition, thread-side helpers only from thread entries,
lock discipline incl. check-then-act, abort-before-await and pollable hand-over.
Not decided: equality with the sequential result for all schedules."""
from __future__ import annotations

import ast

from ..astutil import (
    ancestors,
    deref,
    calls_in,
    dotted,
    enclosing_stmt,
    is_within,
    kwarg,
    src,
    walk_local,
)
from ..cfg import cfg_of, deref_at
from ..loader import AnalysisError, FuncInfo
from .common import MAINT, TRANSFER, backend_refs, func_label, loc, nested_by_role, reaches, repo_cls, self_calls

EXPLANATION = (
    'Lexical enclosure of every self.backend.<transfer> reference in a slot-acquiring with-statement; shape of the two slot acquirers (token obtained from '
    'the queue is put back in a finally); call-graph who-may-call rules (no slot acquisition reachable from a slot-holding body; blocking thread-side helpers '
    'not reachable from event-loop code); token-count constants; CFG must-pass-through for abort-before-await on exceptional exits of the worker join and the '
    'pollable producer hand-over; lock-set discipline (mutations and decisions on shared restore state inside one critical section). Rules C09.R1-R8.'
    ' Added with the seeded-defect rounds: results of asyncio.wait are observed, the worker join is followed through task lists, worker polling loops read the producer\'s completion, the limiter\'s debt lock and the cache helpers (shared with C20 / C18), authenticate never deletes credentials.'
    ' Round 6: queue hand-over, per-run stop flags, producer future observed before the snapshot is published, adapter methods store nothing on the shared adapter object.'
)
NOT_DECIDED = 'equality with a sequential run for every schedule (needs interleaving exploration); only the discipline that excludes the races/hangs is decided'
TRUSTED = ['asyncio.PriorityQueue(maxsize=N) holds at most N tokens', 'CPython GIL makes single dict/set operations atomic', 'CPython ast']
ASSUMPTIONS = ['backend adapters do not call back into the repository']


def _all_repo_funcs(corpus):
    cls = repo_cls(corpus)
    out = []
    for m in cls.methods.values():
        out.append(m)
        out.extend(m.all_nested())
    return out


_SLOT_ATTR = {}


def slot_attr(corpus):
    """name of the instance attribute holding the slot queue: the attribute __init__ binds to an asyncio queue
    (`self.<attr> = asyncio.PriorityQueue(maxsize=..)`); `_slots` on the tree the rules were designed against"""
    key = id(corpus)
    if key not in _SLOT_ATTR:
        init = corpus.func('repository', 'Repository.__init__')
        found = []
        for n in walk_local(init.node):
            if isinstance(n, ast.Assign) and isinstance(n.value, ast.Call) and (dotted(n.value.func) or '').endswith('Queue'):
                for t in n.targets:
                    if isinstance(t, ast.Attribute) and isinstance(t.value, ast.Name) and t.value.id == 'self':
                        found.append(t.attr)
        if not found:
            # ... or to a local that was bound to the queue (built, filled, then stored)
            made_ = {t.id for a in walk_local(init.node) if isinstance(a, ast.Assign) and isinstance(a.value, ast.Call) and (dotted(a.value.func) or '').endswith('Queue') for t in a.targets if isinstance(t, ast.Name)}
            for n in walk_local(init.node):
                if isinstance(n, ast.Assign) and isinstance(n.value, ast.Name) and n.value.id in made_:
                    for t in n.targets:
                        if isinstance(t, ast.Attribute) and isinstance(t.value, ast.Name) and t.value.id == 'self':
                            found.append(t.attr)
        if not found:
            # ... or to the result of a method that builds and returns the queue
            cls_ = repo_cls(corpus)
            for n in walk_local(init.node):
                if isinstance(n, ast.Assign) and isinstance(n.value, ast.Call) and isinstance(n.value.func, ast.Attribute) and isinstance(n.value.func.value, ast.Name) and n.value.func.value.id == 'self':
                    m_ = cls_.methods.get(n.value.func.attr)
                    if m_ is None:
                        continue
                    made = {t.id for a in walk_local(m_.node) if isinstance(a, ast.Assign) and isinstance(a.value, ast.Call) and (dotted(a.value.func) or '').endswith('Queue') for t in a.targets if isinstance(t, ast.Name)}
                    if made and any(isinstance(r, ast.Return) and isinstance(r.value, ast.Name) and r.value.id in made for r in walk_local(m_.node)):
                        for t in n.targets:
                            if isinstance(t, ast.Attribute) and isinstance(t.value, ast.Name) and t.value.id == 'self':
                                found.append(t.attr)
        if len(found) != 1:
            raise AnalysisError(f'C09: expected exactly one queue attribute bound in Repository.__init__ (the slot queue), found {found}')
        _SLOT_ATTR[key] = found[0]
    return _SLOT_ATTR[key]


def slot_acquirers(corpus):
    cls = repo_cls(corpus)
    out = []
    for m in cls.methods.values():
        names = m.decorator_names()
        if any(n.endswith('contextmanager') for n in names):
            if any(isinstance(a, ast.Attribute) and a.attr == slot_attr(corpus) for a in ast.walk(m.node)):
                out.append(m)
    return out


def _with_items_calling(node, names):
    """enclosing with-statements of node whose context expr calls self.<name in names>"""
    out = []
    for a in ancestors(node):
        if isinstance(a, (ast.With, ast.AsyncWith)):
            for it in a.items:
                ce = it.context_expr
                if isinstance(ce, ast.Call):
                    d = dotted(ce.func) or ''
                    if d.startswith('self.') and d[5:] in names and not any(node is x for x in ast.walk(ce)):
                        out.append(a)
    return out


def r1_enclosure(ctx):
    corpus = ctx.corpus
    acq = slot_acquirers(corpus)
    ctx.floor('C09.R1', 'slot acquirers (context managers over self._slots)', len(acq), 2)
    acq_names = {a.name for a in acq}
    per_method = {}
    n_enclosed = n_listing = 0
    for f in _all_repo_funcs(corpus):
        for r in backend_refs(f.node, local=True):
            if r.attr == 'list_files':
                n_listing += 1
                continue
            if r.attr not in TRANSFER | MAINT:
                continue
            ctx.analysed(f)
            encl = _with_items_calling(r, acq_names)
            per_method[r.attr] = per_method.get(r.attr, 0) + (1 if encl else 0)
            if encl:
                n_enclosed += 1
                ctx.ok('C09.R1', loc(f, r), f'backend.{r.attr} in {f.qual} is inside `with {src(encl[0].items[0].context_expr, 50)}`')
            else:
                ctx.fail(
                    'C09.R1',
                    f'{func_label(f)}|transfer-inside-slot:{r.attr}',
                    loc(f, r),
                    f'backend.{r.attr} is referenced in {f.qual} outside any slot-acquiring with-statement: this transfer is not counted against the N connection slots',
                )
    for m in ('exists', 'upload', 'upload_stream', 'download', 'download_stream', 'delete'):
        ctx.floor('C09.R1', f'slot-enclosed reference of backend.{m}', per_method.get(m, 0))
    ctx.count('backend_reference_sites', n_enclosed + n_listing)
    return acq


def r2_release(ctx, acq):
    SA = slot_attr(ctx.corpus)
    for a in acq:
        ctx.analysed(a)
        gets = []
        for st in a.node.body:
            if isinstance(st, ast.Assign) and any(isinstance(x, ast.Attribute) and x.attr == SA for x in ast.walk(st.value)):
                gets.append(st)
        ok = False
        why = 'no `slot = ... self._slots.get() ...` assignment found'
        # the token is what is yielded; it must come (through locals) from self._slots.get()
        ylds = [y for y in ast.walk(a.node) if isinstance(y, ast.Yield) and isinstance(y.value, ast.Name)]

        def _from_slots(e, depth=0):
            if depth > 4:
                return False
            if any(isinstance(x, ast.Attribute) and x.attr == SA for x in ast.walk(e)):
                return True
            return any(_from_slots(d, depth + 1) for x in ast.walk(e) if isinstance(x, ast.Name) for d in [deref(a.node, x)] if d is not x)

        tokens = [y.value.id for y in ylds if _from_slots(deref(a.node, y.value))]
        if gets and tokens:
            var = tokens[0]
            why = 'the yield is not inside try/finally that puts the token back'
            for t in walk_local(a.node):
                if isinstance(t, ast.Try) and t.finalbody and any(isinstance(y, ast.Yield) for s in t.body for y in ast.walk(s)):
                    puts = []
                    for c in [c for s in t.finalbody for c in calls_in(s)]:
                        d = dotted(c.func) or ''
                        if d.endswith(SA + '.put_nowait') or d.endswith(SA + '.put'):
                            puts.append(c.args[0] if c.args else None)
                        elif d.endswith('call_soon_threadsafe') and c.args and (dotted(c.args[0]) or '').endswith(SA + '.put_nowait'):
                            puts.append(c.args[1] if len(c.args) > 1 else None)
                    if any(isinstance(p, ast.Name) and p.id == var for p in puts):
                        # the finally must put back unconditionally
                        cond = any(isinstance(s, (ast.If, ast.Try)) for s in t.finalbody)
                        ok = not cond
                        if cond:
                            why = 'the token is put back only conditionally in the finally block'
                    # yields the same token
            ys = [y for y in ast.walk(a.node) if isinstance(y, ast.Yield)]
            if len(ys) != 1:
                ok = False
                why = f'{len(ys)} yields'
        ctx.check(
            ok,
            'C09.R2',
            f'{func_label(a)}|slot-released-in-finally',
            loc(a, a.node),
            f'{a.name}: the token obtained from the slot queue is put back in a finally on every exit',
            f'{a.name}: {why} - a failed or cancelled transfer leaks its slot (later transfers hang / fewer than N run)',
        )


def _callees(corpus, f: FuncInfo):
    """Functions directly called (or referenced as callables) from f's own body."""
    out = []
    cls = f.cls
    for n in walk_local(f.node):
        tgt = None
        if isinstance(n, ast.Attribute) and isinstance(n.value, ast.Name) and n.value.id == 'self' and cls is not None:
            tgt = corpus.method(cls, n.attr)
        elif isinstance(n, ast.Name) and isinstance(n.ctx, ast.Load):
            cur = f
            while cur is not None and tgt is None:
                tgt = cur.nested.get(n.id)
                cur = cur.parent
        if tgt is not None and tgt is not f:
            out.append((n, tgt))
    return out


def _reaches_func(corpus, start_nodes, f: FuncInfo, targets, depth=4):
    """Does any expression in start_nodes (AST nodes within f) reach a function in
    `targets` through calls/references, depth-bounded? Returns the chain."""
    cls = f.cls

    def resolve(n, ctxf):
        if isinstance(n, ast.Attribute) and isinstance(n.value, ast.Name) and n.value.id == 'self' and cls is not None:
            return corpus.method(cls, n.attr)
        if isinstance(n, ast.Name) and isinstance(n.ctx, ast.Load):
            cur = ctxf
            while cur is not None:
                if n.id in cur.nested:
                    return cur.nested[n.id]
                cur = cur.parent
        return None

    seen = set()

    def rec(fn, d, chain):
        if fn.key in seen or d < 0:
            return None
        seen.add(fn.key)
        if fn in targets:
            return chain + [fn]
        for n in walk_local(fn.node):
            t = resolve(n, fn)
            if t is not None and t is not fn:
                r = rec(t, d - 1, chain + [fn])
                if r:
                    return r
        return None

    for root in start_nodes:
        for n in walk_local(root):
            t = resolve(n, f)
            if t is not None:
                r = rec(t, depth, [])
                if r:
                    return r
    return None


def r3_no_nested(ctx, acq):
    corpus = ctx.corpus
    acq_names = {a.name for a in acq}
    n = 0
    for f in _all_repo_funcs(corpus):
        if f in acq:
            continue
        for w in walk_local(f.node):
            if isinstance(w, (ast.With, ast.AsyncWith)) and any(isinstance(it.context_expr, ast.Call) and (dotted(it.context_expr.func) or '')[5:] in acq_names and (dotted(it.context_expr.func) or '').startswith('self.') for it in w.items):
                n += 1
                chain = _reaches_func(corpus, w.body, f, set(acq))
                ctx.check(
                    chain is None,
                    'C09.R3',
                    f'{func_label(f)}|no-slot-acquisition-while-holding-a-slot',
                    loc(f, w),
                    f'{f.qual}: nothing called while holding a slot acquires another slot',
                    f'{f.qual}: a call made while holding a slot reaches a slot acquirer ({" -> ".join(c.qual for c in chain) if chain else ""}): with all N slots held by such callers nobody can proceed (deadlock)',
                )
    ctx.floor('C09.R3', 'slot-holding with-bodies', n, 8)


def r4_sides(ctx, acq):
    corpus = ctx.corpus
    cls = repo_cls(corpus)
    blocking_roots = [a for a in acq if not a.is_async]
    mr = corpus.method(cls, '_maybe_run_coroutine_threadsafe')
    if mr is not None:
        blocking_roots.append(mr)
    ctx.floor('C09.R4', 'blocking thread-side primitives', len(blocking_roots))
    # TS = functions whose own body (transitively through plain calls) reaches a blocking root
    funcs = _all_repo_funcs(corpus)
    ts = set(blocking_roots)
    changed = True
    while changed:
        changed = False
        for f in funcs:
            if f in ts or f.is_async:
                continue
            for n, t in _callees(corpus, f):
                if t in ts and _is_called_or_entered(n):
                    ts.add(f)
                    changed = True
                    break
    n_async = 0
    for f in funcs:
        if not f.is_async:
            continue
        n_async += 1
        for n, t in _callees(corpus, f):
            if t in ts and _is_called_or_entered(n):
                ctx.fail(
                    'C09.R4',
                    f'{func_label(f)}|no-blocking-threadside-helper-on-the-loop',
                    loc(f, n),
                    f'{f.qual} (event-loop code) calls the blocking thread-side helper {t.name}: it waits for a coroutine on the loop it is running on - the command hangs',
                )
    ctx.ok('C09.R4', 'replicat/repository.py', f'none of the {n_async} coroutine functions calls a blocking thread-side helper directly ({len(ts)} such helpers: {", ".join(sorted(x.name for x in ts))})')
    # and the async acquirer is not used from thread entries
    aacq = [a for a in acq if a.is_async]
    for f in funcs:
        if f.is_async:
            continue
        for n, t in _callees(corpus, f):
            if t in aacq and _is_called_or_entered(n):
                ctx.fail('C09.R4', f'{func_label(f)}|no-async-acquirer-in-sync-code', loc(f, n), f'{f.qual} (plain function) uses the coroutine slot acquirer {t.name}')


def _is_called_or_entered(n):
    p = getattr(n, '_parent', None)
    return isinstance(p, ast.Call) and p.func is n


def r9_dedicated_pools_no_blocking(ctx):
    """(i) long-running nested workers (chunk producer, chunk loaders, file writers, snapshot loaders) run on executors created by
    the command itself, never on the shared backend executor whose N threads also carry the backend calls they wait for;
    (ii) nothing on the event-loop side of Repository waits for a pool to drain (Executor.shutdown() blocks by default)."""
    corpus = ctx.corpus
    cls = repo_cls(corpus)
    n = 0
    for m in cls.methods.values():
        nested = {f.name for f in m.all_nested()}
        if not nested:
            continue
        for c in calls_in(m.node, local=False):
            if not (isinstance(c.func, ast.Attribute) and c.func.attr in ('run_in_executor', 'submit')):
                continue
            if c.func.attr == 'run_in_executor':
                ex, fn_arg = (c.args[0] if c.args else None), (c.args[1] if len(c.args) > 1 else None)
            else:
                ex, fn_arg = c.func.value, (c.args[0] if c.args else None)
            if not (isinstance(fn_arg, ast.Name) and fn_arg.id in nested):
                continue
            n += 1
            owner = corpus.func_of_node(m.module, c) or m
            e = deref(m.node, ex) if isinstance(ex, ast.Name) else ex
            local_pool = isinstance(e, ast.Call) and (dotted(e.func) or '').endswith('ThreadPoolExecutor')
            if not local_pool and isinstance(ex, ast.Name):
                # bound by `with <helper that creates the pools>() as (a, b)`
                for w_ in ast.walk(m.node):
                    if isinstance(w_, (ast.With, ast.AsyncWith)):
                        for it in w_.items:
                            ce = deref(m.node, it.context_expr) if isinstance(it.context_expr, ast.Name) else it.context_expr
                            if it.optional_vars is not None and any(isinstance(x, ast.Name) and x.id == ex.id for x in ast.walk(it.optional_vars)) and isinstance(ce, ast.Call):
                                d_ = dotted(ce.func) or ''
                                hm = corpus.method(cls, d_[5:]) if d_.startswith('self.') else None
                                if hm is not None and any(isinstance(q, ast.Call) and (dotted(q.func) or '').endswith('ThreadPoolExecutor') for q in ast.walk(hm.node)):
                                    local_pool = True
            ctx.check(
                local_pool,
                'C09.R9',
                f'{func_label(m)}|worker-on-dedicated-pool:{fn_arg.id}',
                loc(m, c),
                f'{m.name}: `{fn_arg.id}` runs on a thread pool created by this command',
                f'{m.name}: `{fn_arg.id}` is started on `{src(ex, 50) if ex is not None else None}`, not on a pool of its own: it occupies a thread of a pool that also has to run the backend calls it waits for '
                '- with concurrency 1 (or enough busy workers) the command deadlocks',
            )
    ctx.floor('C09.R9', 'nested workers handed to executors', n, 3)
    for m in corpus.module('repository').all_functions:
        for c in calls_in(m.node):
            if isinstance(c.func, ast.Attribute) and c.func.attr == 'shutdown':
                w = kwarg(c, 'wait')
                ok = w is not None and isinstance(w, ast.Constant) and w.value is False
                ctx.check(
                    ok,
                    'C09.R9',
                    f'{func_label(m)}|no-blocking-shutdown',
                    loc(m, c),
                    f'{m.qual}: executor shutdown does not wait',
                    f'{m.qual}: `{src(c, 50)}` waits for the pool to drain; on the event-loop thread this blocks the loop that the pending workers need to obtain their slots - after a failure the command hangs instead of reporting the error',
                )


def r5b_completion_flag(ctx, rule='C09.R5'):
    """"queue empty or producer finished" is evaluated by the upload workers on the event loop: the "finished" flag must not
    be something another thread can flip between the two tests (a threading.Event set by the producer thread)."""
    corpus = ctx.corpus
    snap = corpus.func('repository', 'Repository.snapshot')
    events = set()
    for n in walk_local(snap.node):
        if isinstance(n, ast.Assign) and isinstance(n.value, ast.Call) and (dotted(n.value.func) or '').endswith('Event'):
            events |= {t.id for t in n.targets if isinstance(t, ast.Name)}
    for w in snap.all_nested():
        if not w.is_async:
            continue
        for n in walk_local(w.node):
            if isinstance(n, ast.While):
                for c in calls_in(n.test):
                    if isinstance(c.func, ast.Attribute) and c.func.attr == 'is_set' and isinstance(c.func.value, ast.Name) and c.func.value.id in events:
                        nm = c.func.value.id
                        # set by code that does not run on the event loop (a plain nested function handed to an executor / thread)
                        setters = [f for f in snap.all_nested() if not f.is_async and any(isinstance(x, ast.Call) and isinstance(x.func, ast.Attribute) and x.func.attr == 'set' and isinstance(x.func.value, ast.Name) and x.func.value.id == nm for x in walk_local(f.node))]
                        if setters and any(isinstance(q, ast.Call) and isinstance(q.func, ast.Attribute) and q.func.attr in ('empty', 'qsize') for q in calls_in(n.test)):
                            ctx.fail(
                                rule,
                                f'{func_label(snap)}|completion-flag-is-loop-future',
                                loc(w, n),
                                f'`{nm}.is_set()` polled by the worker loop together with the queue state is a threading.Event set by `{setters[0].name}` on another thread: it can flip between the '
                                '`empty()` and the `is_set()` test, so a worker can leave with the last chunks still queued (they are never uploaded - silent data loss)',
                            )


def r5_abort(ctx):
    corpus = ctx.corpus
    snap = corpus.func('repository', 'Repository.snapshot')
    cfg = cfg_of(snap.node)
    events = set()
    for n in walk_local(snap.node):
        if isinstance(n, ast.Assign) and isinstance(n.value, ast.Call) and (dotted(n.value.func) or '').endswith('Event'):
            for t in n.targets:
                if isinstance(t, ast.Name):
                    events.add(t.id)
    ctx.floor('C09.R5', 'abort Event in snapshot', len(events))
    producers = [p for p in nested_by_role(corpus, snap, lambda n: isinstance(n, ast.Attribute) and n.attr == 'chunkify') if p.parent is snap]
    ctx.floor('C09.R5', 'chunk producer', len(producers))
    # the producer polls the event
    polled = set()
    for p in producers:
        for n in walk_local(p.node):
            if isinstance(n, ast.Call) and isinstance(n.func, ast.Attribute) and n.func.attr == 'is_set' and isinstance(n.func.value, ast.Name) and n.func.value.id in events:
                polled.add(n.func.value.id)
    fut = set()
    for st in walk_local(snap.node):
        if isinstance(st, ast.Assign) and isinstance(st.value, ast.Call) and isinstance(st.value.func, ast.Attribute) and st.value.func.attr in ('run_in_executor', 'submit'):
            if {a.id for a in st.value.args if isinstance(a, ast.Name)} & {p.name for p in producers}:
                fut |= {t.id for t in st.targets if isinstance(t, ast.Name)}
    p_stmts = [enclosing_stmt(n) for n in walk_local(snap.node) if isinstance(n, ast.Await) and any(isinstance(x, ast.Name) and x.id in fut for x in ast.walk(n.value))]
    # the completion flag polled by the workers flips on the event-loop thread only
    for w in snap.nested.values():
        for n in walk_local(w.node):
            if isinstance(n, ast.While):
                for c in calls_in(n.test):
                    if isinstance(c.func, ast.Attribute) and c.func.attr == 'done' and isinstance(c.func.value, ast.Name):
                        nm = c.func.value.id
                        defs = [a for a in walk_local(snap.node) if isinstance(a, ast.Assign) and any(isinstance(t, ast.Name) and t.id == nm for t in a.targets)]
                        ok = bool(defs) and all(isinstance(a.value, ast.Call) and isinstance(a.value.func, ast.Attribute) and a.value.func.attr == 'run_in_executor' for a in defs)
                        ctx.check(
                            ok,
                            'C09.R5',
                            f'{func_label(snap)}|completion-flag-is-loop-future',
                            loc(w, n),
                            f'the worker loop polls `{nm}.done()` of an event-loop future (it can only flip between coroutine steps, so `queue empty or done` is evaluated atomically)',
                            f'`{nm}.done()` polled by the worker loop belongs to a thread-side future (not loop.run_in_executor): it can flip between the `empty()` and `done()` checks and a worker exits with the last chunk still queued',
                        )
    r5b_completion_flag(ctx, 'C09.R5')
    from . import shared as _sh9

    _sh9.run_flags_are_per_run(ctx, 'C09.R5')
    # the producer's outcome is observed on every path that goes on to publish the snapshot
    from ..report import Relabel as _RL9
    from .c03 import r1_snapshot_last

    r1_snapshot_last(_RL9(ctx, 'C09.R5'))
    # one adapter object serves the producer, the workers and all loader threads at once: outside __init__ its methods
    # store nothing on it (a "last key / last cipher" memo updated in two steps pairs one thread's key with another's cipher)
    import ast as _ast

    _n = 0
    for _c in ctx.corpus.module('adapters').classes.values():
        for _m in _c.methods.values():
            if _m.name == '__init__':
                continue
            _n += 1
            _st = [a for a in _ast.walk(_m.node) if isinstance(a, (_ast.Assign, _ast.AugAssign, _ast.AnnAssign)) and any(isinstance(t, _ast.Attribute) and isinstance(t.value, _ast.Name) and t.value.id == 'self' for t in (a.targets if isinstance(a, _ast.Assign) else [a.target]))]
            if _st:
                ctx.analysed(_m)
            ctx.check(
                not _st,
                'C09.R6',
                f'{func_label(_m)}|adapter-methods-store-nothing-on-the-adapter',
                loc(_m, _st[0]) if _st else loc(_m, _m.node),
                f'{_c.name}.{_m.name}: stores nothing on the shared adapter object',
                f'{_c.name}.{_m.name}: `{src(_st[0], 50) if _st else ""}` updates the adapter object, which all threads of a command share, without a lock: interleaved calls see each other\'s half-updated state '
                '(a snapshot fails to decrypt and is taken for another user\'s - its files silently drop out of the restore)',
            )
    ctx.floor('C09.R6', 'adapter methods', _n, 10)
    from .shared import queue_put_retries_until_done

    queue_put_retries_until_done(ctx, 'C09.R5')
    # the polling loop of a worker ends when the producer is through, however the producer ended: its exit decision reads
    # the producer's completion (the future / an Event set in a `finally`), not only what the producer managed to queue
    n_poll = 0
    queues = {t.id for a in walk_local(snap.node) if isinstance(a, ast.Assign) and isinstance(a.value, ast.Call) and (dotted(a.value.func) or '').endswith('Queue') for t in a.targets if isinstance(t, ast.Name)}
    for w in snap.nested.values():
        if not w.is_async:
            continue
        for lp in [l for l in walk_local(w.node) if isinstance(l, ast.While)]:
            polls = [c for c in calls_in(lp) if isinstance(c.func, ast.Attribute) and c.func.attr in ('get_nowait', 'get') and isinstance(c.func.value, ast.Name) and c.func.value.id in queues]
            if not polls:
                continue
            n_poll += 1
            tests = [lp.test] + [i.test for i in walk_local(lp) if isinstance(i, ast.If) and any(isinstance(x, (ast.Break, ast.Return)) for b in (i.body, i.orelse) for st in b for x in ast.walk(st))]
            reads_completion = False
            for t in tests:
                for c in ast.walk(t):
                    if isinstance(c, ast.Call) and isinstance(c.func, ast.Attribute) and isinstance(c.func.value, ast.Name):
                        if c.func.attr == 'done' and c.func.value.id in fut:
                            reads_completion = True
                        if c.func.attr == 'is_set' and c.func.value.id in events and c.func.value.id not in polled:
                            # an Event counts when some `finally` sets it
                            for tr in [x for f_ in [snap] + list(snap.all_nested()) for x in walk_local(f_.node) if isinstance(x, ast.Try)]:
                                if any(isinstance(y, ast.Call) and isinstance(y.func, ast.Attribute) and y.func.attr == 'set' and isinstance(y.func.value, ast.Name) and y.func.value.id == c.func.value.id for st in tr.finalbody for y in ast.walk(st)):
                                    reads_completion = True
            ctx.check(
                reads_completion,
                'C09.R5',
                f'{func_label(w)}|worker-exit-reads-producer-completion',
                loc(w, lp),
                f'{w.name}: the polling loop decides to stop on the completion of the producer (future / Event set in a finally)',
                f'{w.name}: the polling loop stops only on what it finds in the queue (e.g. an end marker): when the producer thread ends without queueing it (an error while reading a file, an abort) '
                'the workers poll forever, the error is never reported and the snapshot hangs',
            )
    ctx.floor('C09.R5', 'worker polling loops', n_poll)
    ctx.floor('C09.R5', 'await of the producer future', len(p_stmts))
    # worker join: awaited statement that applies a nested function referencing upload_stream
    workers = {f.name for f in snap.nested.values() if any(isinstance(n, ast.Attribute) and n.attr == 'upload_stream' for n in walk_local(f.node))}
    w_stmts = []
    def _mentions_worker(e, depth=0):
        for x in ast.walk(e):
            if isinstance(x, ast.Name):
                if x.id in workers:
                    return True
                if depth < 3 and isinstance(x.ctx, ast.Load):
                    d = deref_at(snap.node, x)
                    if d is not x and _mentions_worker(d, depth + 1):
                        return True
        return False

    for n in walk_local(snap.node):
        if isinstance(n, ast.Await) and _mentions_worker(n.value):
            w_stmts.append(enclosing_stmt(n))
    ctx.floor('C09.R5', 'awaited worker join', len(w_stmts))
    set_nodes = []
    for n in walk_local(snap.node):
        if isinstance(n, ast.Call) and isinstance(n.func, ast.Attribute) and n.func.attr == 'set' and isinstance(n.func.value, ast.Name) and n.func.value.id in polled:
            set_nodes += cfg.nodes_of(enclosing_stmt(n))
    for w in w_stmts:
        for wn in cfg.nodes_of(w, 'stmt'):
            woks = cfg.nodes_of(w, 'ok')
            targets = [x for p in p_stmts for x in cfg.nodes_of(p, 'stmt')]
            path = cfg.path(wn, targets, avoid=woks + set_nodes)
            ctx.check(
                path is None,
                'C09.R5',
                f'{func_label(snap)}|abort-set-before-producer-await',
                loc(snap, w),
                'on every exceptional exit of the worker join the abort Event (polled by the producer) is set before the producer future is awaited',
                'a failing worker join can lead to `await <producer>` without the abort Event being set: the producer blocks on the full queue forever and the command hangs',
                cfg.describe_path([x for x in (path or []) if x.kind in ('stmt', 'handler', 'finally', 'dispatch')][:10], snap.module),
            )
    # pollable hand-over
    for p in producers:
        ctx.analysed(p)
        pcfg = cfg_of(p.node)
        puts = [c for c in calls_in(p.node) if isinstance(c.func, ast.Attribute) and c.func.attr in ('put', 'put_nowait', 'join', 'acquire', 'wait')]
        for c in puts:
            if c.func.attr == 'put_nowait':
                continue
            has_timeout = kwarg(c, 'timeout') is not None or (kwarg(c, 'block') is not None and isinstance(kwarg(c, 'block'), ast.Constant) and kwarg(c, 'block').value is False)
            loop = next((a for a in ancestors(c) if isinstance(a, ast.While)), None)
            poll_ok = False
            if loop is not None:
                for i in walk_local(loop):
                    if isinstance(i, ast.If) and any(isinstance(x, ast.Call) and isinstance(x.func, ast.Attribute) and x.func.attr == 'is_set' for x in ast.walk(i.test)) and any(isinstance(s, (ast.Return, ast.Break, ast.Raise)) for s in i.body):
                        # the poll must be on every iteration path to the put
                        st = enclosing_stmt(c)
                        g = pcfg.nodes_of(i, 'false')
                        poll_ok = all(pcfg.set_dominates(g, x) for x in pcfg.nodes_of(st, 'stmt'))
                if isinstance(loop.test, ast.UnaryOp) and any(isinstance(x, ast.Attribute) and x.attr == 'is_set' for x in ast.walk(loop.test)):
                    poll_ok = True
            ctx.check(
                has_timeout and poll_ok,
                'C09.R5',
                f'{func_label(p)}|producer-handover-pollable',
                loc(p, c),
                f'{p.name}: the blocking hand-over `{src(c, 50)}` has a timeout and sits in a loop that tests the abort Event before each attempt',
                f'{p.name}: `{src(c, 60)}` can block without ever re-testing the abort Event (no timeout / no poll): once the consumers are gone the producer never ends and `await producer` hangs',
            )


def r6_locks(ctx):
    corpus = ctx.corpus
    n_vars = 0
    for cmd in ('restore', 'snapshot'):
        fn = corpus.func('repository', f'Repository.{cmd}')
        locks = set()
        own_names = set()
        for n in walk_local(fn.node):
            if isinstance(n, ast.Assign):
                for t in n.targets:
                    if isinstance(t, ast.Name):
                        own_names.add(t.id)
                        if isinstance(n.value, ast.Call) and (dotted(n.value.func) or '').rsplit('.', 1)[-1] in ('Lock', 'RLock'):
                            locks.add(t.id)
        if not locks:
            continue
        threadfuncs = [f for f in fn.all_nested() if not f.is_async]
        # shared variables: own names mutated inside nested thread functions
        info = {}
        for f in threadfuncs:
            aliases = {}
            for n in walk_local(f.node):
                if isinstance(n, ast.Assign) and len(n.targets) == 1 and isinstance(n.targets[0], ast.Name):
                    v = n.value
                    if isinstance(v, ast.Subscript) and isinstance(v.value, ast.Name) and v.value.id in own_names:
                        aliases[n.targets[0].id] = v.value.id
            for n in walk_local(f.node):
                root, kind = _mutation(n, own_names, aliases)
                if root:
                    info.setdefault(root, []).append((f, n, kind, _held_locks(n, locks)))
            f._aliases = aliases
        protected = {v for v, ms in info.items() if any(h for _, _, _, h in ms)}
        for v in sorted(protected):
            n_vars += 1
            for f, n, kind, held in info[v]:
                ctx.check(
                    bool(held),
                    'C09.R6',
                    f'{func_label(f)}|mutation-under-lock:{v}',
                    loc(f, n),
                    f'{f.name}: mutation of shared `{v}` ({kind}) is inside `with {"/".join(sorted(held)) or "?"}`',
                    f'{f.name}: shared `{v}` is mutated ({kind}: `{src(enclosing_stmt(n), 60)}`) outside the lock that protects its other mutations - concurrent writers/loaders can corrupt the bookkeeping',
                )
        # decisions
        for f in threadfuncs:
            aliases = getattr(f, '_aliases', {})
            for n in walk_local(f.node):
                if isinstance(n, (ast.If, ast.While)):
                    names = {x.id for x in ast.walk(n.test) if isinstance(x, ast.Name)}
                    hits = {aliases.get(x, x) for x in names if aliases.get(x, x) in protected}
                    if not hits:
                        continue
                    held = _held_locks(n, locks)
                    ctx.check(
                        bool(held),
                        'C09.R6',
                        f'{func_label(f)}|decision-under-lock:{",".join(sorted(hits))}',
                        loc(f, n),
                        f'{f.name}: decision on shared `{", ".join(sorted(hits))}` is taken inside the critical section',
                        f'{f.name}: `{src(n.test, 60)}` decides on shared state `{", ".join(sorted(hits))}` after leaving the critical section that updated it (check-then-act): '
                        'two threads can both see the same state and both act on it',
                    )
        # (ii) check-then-act across critical sections: a mutation guarded by a local that was
        # computed from protected state must sit in the SAME `with lock` block as that computation
        for f in threadfuncs:
            aliases = getattr(f, '_aliases', {})
            derived = {}
            for a in walk_local(f.node):
                if isinstance(a, ast.Assign) and len(a.targets) == 1 and isinstance(a.targets[0], ast.Name):
                    names = {x.id for x in ast.walk(a.value) if isinstance(x, ast.Name)}
                    if {aliases.get(x, x) for x in names} & protected:
                        w = _lock_block(a, locks)
                        if w is not None:
                            derived[a.targets[0].id] = w
            for n in walk_local(f.node):
                root, kind = _mutation(n, own_names, aliases)
                if not root or root not in protected:
                    continue
                wm = _lock_block(n, locks)
                for anc in ancestors(n):
                    if anc is f.node:
                        break
                    if isinstance(anc, (ast.If, ast.While)):
                        used = {x.id for x in ast.walk(anc.test) if isinstance(x, ast.Name)} & set(derived)
                        # a local that refers to a shared mutable entry (`entry = table[k]`) and is only read through
                        # (`entry.users`, `entry[0]`) yields the current state at the time of the test, not a remembered decision
                        through = {x.value.id for x in ast.walk(anc.test) if isinstance(x, (ast.Attribute, ast.Subscript)) and isinstance(x.value, ast.Name)}
                        bare = {x.id for x in ast.walk(anc.test) if isinstance(x, ast.Name) and not (isinstance(getattr(x, '_parent', None), (ast.Attribute, ast.Subscript)) and x._parent.value is x)}
                        used = {d for d in used if not (d in aliases and d in through and d not in bare)}
                        for d in used:
                            ctx.check(
                                derived[d] is wm,
                                'C09.R6',
                                f'{func_label(f)}|decide-and-act-in-one-critical-section:{root}',
                                loc(f, n),
                                f'{f.name}: the decision `{d}` and the mutation of `{root}` it guards happen in one critical section',
                                f'{f.name}: `{d}` is computed from shared state in one critical section, the lock is released, and `{root}` is mutated on that (possibly stale) decision in another: '
                                'a second thread can change the state in between (e.g. take a reference that is then deleted) and the command fails spuriously',
                            )
    ctx.floor('C09.R6', 'lock-protected shared variables', n_vars, 3)


MUT_METHODS = {'add', 'append', 'extend', 'update', 'discard', 'remove', 'pop', 'popitem', 'clear', 'setdefault', 'difference_update', 'insert', 'sort'}


def _mutation(n, own_names, aliases):
    def root_of(e):
        while isinstance(e, (ast.Subscript, ast.Attribute)):
            e = e.value
        if isinstance(e, ast.Name):
            r = aliases.get(e.id, e.id)
            if r in own_names:
                return r
        return None

    if isinstance(n, ast.Assign):
        for t in n.targets:
            for tt in (t.elts if isinstance(t, ast.Tuple) else [t]):
                if isinstance(tt, ast.Subscript):
                    r = root_of(tt)
                    if r:
                        return r, 'item store'
    if isinstance(n, ast.AugAssign) and isinstance(n.target, ast.Subscript):
        r = root_of(n.target)
        if r:
            return r, 'augmented item store'
    if isinstance(n, ast.Delete):
        for t in n.targets:
            if isinstance(t, ast.Subscript):
                r = root_of(t)
                if r:
                    return r, 'del item'
    if isinstance(n, ast.Call) and isinstance(n.func, ast.Attribute) and n.func.attr in MUT_METHODS:
        r = root_of(n.func.value)
        if r:
            return r, f'.{n.func.attr}()'
    return None, None


def _lock_block(n, locks):
    for a in ancestors(n):
        if isinstance(a, (ast.With, ast.AsyncWith)) and any(isinstance(it.context_expr, ast.Name) and it.context_expr.id in locks for it in a.items):
            return a
        if isinstance(a, (ast.FunctionDef, ast.AsyncFunctionDef)):
            break
    return None


def _held_locks(n, locks):
    held = set()
    for a in ancestors(n):
        if isinstance(a, (ast.With, ast.AsyncWith)):
            for it in a.items:
                if isinstance(it.context_expr, ast.Name) and it.context_expr.id in locks:
                    held.add(it.context_expr.id)
        if isinstance(a, (ast.FunctionDef, ast.AsyncFunctionDef)):
            break
    return held


def r8_tokens(ctx):
    corpus = ctx.corpus
    init = corpus.func('repository', 'Repository.__init__')
    ctx.analysed(init)
    SA = slot_attr(corpus)
    q = None
    for n in walk_local(init.node):
        if isinstance(n, ast.Assign) and any(isinstance(t, ast.Attribute) and t.attr == SA for t in n.targets) and isinstance(n.value, ast.Call):
            q = n.value
    if q is None:
        raise AnalysisError('C09.R8: self._slots construction not found in __init__')
    ms = kwarg(q, 'maxsize') or (q.args[0] if q.args else None)
    ok_max = isinstance(ms, ast.Name) and ms.id == 'concurrent'
    ctx.check(ok_max, 'C09.R8', f'{func_label(init)}|slot-queue-maxsize', loc(init, q), 'slot queue maxsize = concurrent', f'slot queue maxsize is {src(ms) if ms is not None else "unbounded"}')
    loops = [n for n in walk_local(init.node) if isinstance(n, ast.For) and any((dotted(c.func) or '').endswith(SA + '.put_nowait') for c in calls_in(n))]
    if len(loops) != 1:
        raise AnalysisError(f'C09.R8: expected one token-filling loop, found {len(loops)}')
    lp = loops[0]
    it = lp.iter
    verdict = None
    if isinstance(it, ast.Call) and dotted(it.func) == 'range':
        a = it.args
        if len(a) == 1:
            verdict = isinstance(a[0], ast.Name) and a[0].id == 'concurrent'
        elif len(a) == 2:
            lo, hi = a
            if isinstance(lo, ast.Constant) and isinstance(lo.value, int):
                k = lo.value
                if isinstance(hi, ast.BinOp) and isinstance(hi.op, ast.Add):
                    l, r = hi.left, hi.right
                    if isinstance(r, ast.Name):
                        l, r = r, l
                    if isinstance(l, ast.Name) and l.id == 'concurrent' and isinstance(r, ast.Constant):
                        verdict = r.value == k
                elif isinstance(hi, ast.Name) and hi.id == 'concurrent':
                    verdict = k == 0
    if verdict is None:
        raise AnalysisError(f'C09.R8: unrecognised token loop shape `{src(it)}`')
    puts = [c for c in calls_in(lp) if (dotted(c.func) or '').endswith(SA + '.put_nowait')]
    one_per_iter = len(puts) == 1 and getattr(enclosing_stmt(puts[0]), '_parent', None) is lp
    ctx.check(
        verdict and one_per_iter,
        'C09.R8',
        f'{func_label(init)}|exactly-concurrent-tokens',
        loc(init, lp),
        'exactly `concurrent` tokens are put into the slot queue',
        f'the slot queue is filled with a number of tokens different from `concurrent` (`{src(it)}`): more than N transfers can be outstanding (or fewer)',
    )


def r10_credentials_replaced_not_removed(ctx):
    """Re-authorisation runs while other workers keep issuing requests with the old token (they get 401 and wait for the
    new one).  authenticate therefore REPLACES the cached authorisation; it never removes it first - a request started in
    between would die with AttributeError, which nothing retries."""
    corpus = ctx.corpus
    n = 0
    for ci in corpus.subclasses_of(corpus.cls('base', 'Backend')):
        au = ci.methods.get('authenticate')
        if au is None:
            continue
        n += 1
        ctx.analysed(au)

        def removes(node):
            if isinstance(node, ast.Delete) and any(isinstance(t, ast.Attribute) and isinstance(t.value, ast.Name) and t.value.id == 'self' for t in node.targets):
                return True
            if isinstance(node, ast.Call) and (dotted(node.func) or '') == 'delattr' and node.args and isinstance(node.args[0], ast.Name) and node.args[0].id == 'self':
                return True
            return False

        bad = reaches(corpus, au, removes, depth=3)
        ctx.check(
            not bad,
            'C09.R10',
            f'{func_label(au)}|credentials-replaced-not-removed',
            loc(au, au.node),
            f'{ci.name}.authenticate: replaces the cached authorisation, never deletes attributes of the adapter',
            f'{ci.name}.authenticate (or a helper it calls) deletes attributes of the adapter before the new authorisation is there: a request another worker starts meanwhile fails with AttributeError instead of 401 -> wait -> retry',
        )
    ctx.count('adapters_with_authenticate', n)


def run(ctx):
    acq = r1_enclosure(ctx)
    r2_release(ctx, acq)
    r3_no_nested(ctx, acq)
    r4_sides(ctx, acq)
    r5_abort(ctx)
    r6_locks(ctx)
    r8_tokens(ctx)
    r9_dedicated_pools_no_blocking(ctx)
    from .c01 import digest_cleared_after_writes

    digest_cleared_after_writes(ctx, 'C09.R7')
    # the outcome does not depend on completion order: a failure of any worker / loader job is retrieved, whichever finishes first
    from .shared import gathers_propagate

    gathers_propagate(ctx, 'C09.R5')
    # state shared by the worker / loader threads outside snapshot and restore themselves: the limiter's debt (updated and
    # slept off under its lock), the snapshot cache (directories created idempotently), the adapter's credentials
    from ..report import Relabel as _RL9
    from .c18 import r5_helpers as _ch
    from .c20 import r4_debt_lock as _dl

    _dl(_RL9(ctx, 'C09.R6'))
    if all(ctx.corpus.method(repo_cls(ctx.corpus), h_) is not None for h_ in ('_store_cached', '_get_cached', '_delete_cached')):
        _ch(_RL9(ctx, 'C09.R6'))
    r10_credentials_replaced_not_removed(ctx)
