"""Role discovery for the backend adapters (C12, C13, C16)."""
from __future__ import annotations

import ast
from typing import Dict, List, Optional, Set

from ..astutil import calls_in, dotted, kwarg, src, walk_local
from ..loader import AnalysisError, ClassInfo, Corpus, FuncInfo

INTERFACE = ['exists', 'upload', 'upload_stream', 'download', 'download_stream', 'list_files', 'delete']
ENTRY = INTERFACE + ['clean', 'authenticate']


def backend_classes(corpus: Corpus) -> List[ClassInfo]:
    base = corpus.cls('base', 'Backend')
    out = [c for c in corpus.subclasses_of(base)]
    if len(out) < 3:
        raise AnalysisError(f'backend adapters: expected >= 3 subclasses of Backend, found {len(out)}')
    return out


def own_methods(corpus, ci: ClassInfo) -> Dict[str, FuncInfo]:
    """Methods visible on ci that are defined in an adapter class (not in Backend)."""
    base = corpus.cls('base', 'Backend')
    out = {}
    for c in reversed(corpus.mro(ci)):
        if c is base:
            continue
        out.update(c.methods)
    return out


def _max_tries(module, mt):
    """literal value of a max_tries= argument; a module-level name bound once to a literal counts as that literal"""
    for _ in range(4):
        if isinstance(mt, ast.Name) and mt.id in module.assigns:
            binds = [st for st in module.tree.body if isinstance(st, (ast.Assign, ast.AnnAssign, ast.AugAssign)) for t in (st.targets if isinstance(st, ast.Assign) else [st.target]) if isinstance(t, ast.Name) and t.id == mt.id]
            if len(binds) != 1:
                return None
            mt = module.assigns[mt.id]
        else:
            break
    return mt.value if isinstance(mt, ast.Constant) else None


def resolve_decorator(corpus, module, d, depth=0):
    """Return a description dict for a decorator expression:
    {'kind': 'backoff'|'requires_auth'|'other', 'max_tries': int|None, 'name': str}"""
    name = dotted(d.func if isinstance(d, ast.Call) else d) or src(d)
    if depth > 5:
        return {'kind': 'other', 'name': name}
    if isinstance(d, ast.Call):
        fn = dotted(d.func) or ''
        if fn == 'backoff.on_exception':
            mt = kwarg(d, 'max_tries')
            return {'kind': 'backoff', 'name': name, 'max_tries': _max_tries(module, mt), 'call': d}
        if fn in ('functools.partial', 'partial') and d.args and (dotted(d.args[0]) or '') == 'backoff.on_exception':
            mt = kwarg(d, 'max_tries')
            return {'kind': 'backoff-partial', 'name': name, 'max_tries': _max_tries(module, mt), 'call': d}
        # call of a module-level alias (e.g. _backoff_decorator(on_backoff=[...]))
        if isinstance(d.func, ast.Name) and d.func.id in module.assigns:
            inner = resolve_decorator(corpus, module, module.assigns[d.func.id], depth + 1)
            if inner['kind'] == 'backoff-partial':
                mt = kwarg(d, 'max_tries')
                r = dict(inner)
                r['kind'] = 'backoff'
                r['name'] = name
                if mt is not None:
                    r['max_tries'] = _max_tries(module, mt)
                r['outer_call'] = d
                return r
        return {'kind': 'other', 'name': name}
    if isinstance(d, ast.Name) and d.id in module.assigns:
        r = dict(resolve_decorator(corpus, module, module.assigns[d.id], depth + 1))
        r['alias'] = d.id
        return r
    if name.endswith('requires_auth'):
        return {'kind': 'requires_auth', 'name': name}
    return {'kind': 'other', 'name': name}


def decorators_of(corpus, f: FuncInfo):
    return [resolve_decorator(corpus, f.module, d) for d in f.node.decorator_list]


def is_retried(corpus, f: FuncInfo) -> Optional[dict]:
    for d in decorators_of(corpus, f):
        if d['kind'] == 'backoff':
            return d
    return None


LOCAL_TRANSPORT_FUNCS = {'os.path.exists', 'os.scandir', 'os.rmdir', 'os.fstat', 'os.stat', 'os.unlink', 'os.remove', 'os.replace', 'os.rename', 'shutil.copyfileobj', 'NamedTemporaryFile', 'tempfile.NamedTemporaryFile', 'open', 'os.listdir', 'os.makedirs', 'os.mkdir', 'iterative_scandir'}
LOCAL_TRANSPORT_METHODS = {'read_bytes', 'write_bytes', 'open', 'replace', 'unlink', 'mkdir', 'rename', 'exists', 'is_file', 'stat', 'rmdir', 'iterdir'}


def transport_calls(f: FuncInfo, local_fs: bool):
    out = []
    for c in calls_in(f.node):
        d = dotted(c.func) or ''
        if local_fs:
            if d in LOCAL_TRANSPORT_FUNCS:
                out.append(c)
            elif isinstance(c.func, ast.Attribute) and c.func.attr in LOCAL_TRANSPORT_METHODS and not d.startswith(('os.path.', 'logger.')):
                out.append(c)
        else:
            if d.startswith('self._client.'):
                out.append(c)
            elif isinstance(c.func, ast.Attribute) and c.func.attr in BODY_READS and isinstance(c.func.value, ast.Name) and _is_streaming_response(f, c.func.value.id):
                # reading the body of a response that was opened with stream=True talks to the network
                out.append(c)
    return out


BODY_READS = {'aread', 'read', 'aiter_bytes', 'aiter_raw', 'aiter_text', 'aiter_lines', 'iter_bytes', 'iter_raw'}


def _is_streaming_response(f: FuncInfo, name: str) -> bool:
    """the local `name` is bound (assignment / `with .. as name`) to the result of a request made with stream=True -
    directly or through a method of the same class whose request is made that way"""
    def streaming_call(e):
        for c in ast.walk(e):
            if not isinstance(c, ast.Call):
                continue
            kw = kwarg(c, 'stream')
            if isinstance(kw, ast.Constant) and kw.value is True:
                return True
            if isinstance(c.func, ast.Attribute) and c.func.attr == 'stream':
                return True
            d = dotted(c.func) or ''
            if d.startswith('self.') and f.cls is not None:
                m = f.cls.methods.get(d[5:])
                if m is not None and any(isinstance(k, ast.keyword) and k.arg == 'stream' and isinstance(k.value, ast.Constant) and k.value.value is True for k in ast.walk(m.node)):
                    return True
        return False

    for n in ast.walk(f.node):
        if isinstance(n, ast.Assign) and any(isinstance(t, ast.Name) and t.id == name for t in n.targets) and streaming_call(n.value):
            return True
        if isinstance(n, (ast.With, ast.AsyncWith)):
            for it in n.items:
                if isinstance(it.optional_vars, ast.Name) and it.optional_vars.id == name and streaming_call(it.context_expr):
                    return True
    return False


def class_callgraph(corpus, ci: ClassInfo):
    """callers[f.name] = set of method names of the same class (MRO) that call self.<f>."""
    methods = own_methods(corpus, ci)
    callers: Dict[str, Set[str]] = {m: set() for m in methods}
    for name, f in methods.items():
        for n in ast.walk(f.node):
            if isinstance(n, ast.Attribute) and isinstance(n.value, ast.Name) and n.value.id == 'self' and n.attr in methods and n.attr != name:
                callers[n.attr].add(name)
    return methods, callers
