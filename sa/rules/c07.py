"""C07 - Identical data is stored once.

Decides: name/location/chunk-boundary determinism (provenance excludes
nondeterministic and run-dependent sources), deterministic stream order and
piece size, exists-before-upload on the same location, skip-upload only on the
backend's answer, in-snapshot table lookup-before-insert.
Not decided: "objects == distinct chunks" over histories."""
from __future__ import annotations

import ast

from ..cfg import deref_at
from ..astutil import ancestors, calls_in, dotted, enclosing_stmt, is_within, src, walk_local
from ..cfg import cfg_of
from ..loader import AnalysisError
from ..terms import Evaluator, alts, contains, find, show, walk
from .c02 import r8_skip_upload_only_on_backend_answer
from .common import stream_producers, backend_events, const_of, evaluate, func_label, loc, nested_by_role, own_stmt_of_chain, repo_cls, self_calls, term_has_const

EXPLANATION = (
    'Provenance of the chunk location, of the chunker parameters, of the order in which files are streamed and of the piece size handed to the chunker: the terms '
    'may be built only from content, the stored configuration and the key family secrets - no clock, randomness, counter, concurrency level or argument order; '
    'dominance of the existence test (same location term) over the upload; lookup-before-insert on the chunk table. Rules C07.R1-R6.'
    ' Added with the seeded-defect rounds: upload only through backend \'absent\' answers on all reaching definitions, stateless chunker, loader skip whitelist, completion flag of the producer, deletion confinement, cache holds content-addressed snapshot objects only.'
    ' Round 6: keep-set construction and plain set difference in delete, kept hashing contexts used through copies only, queue hand-over.'
)
NOT_DECIDED = 'that the stored object set equals the distinct-chunk set after arbitrary histories (depends on runtime chunker output and backend state)'
TRUSTED = ['the native chunker is a pure function of (buffer, final, key, bounds) - decided for the source under C10', 'CPython ast']
ASSUMPTIONS = ['files do not change between two snapshots that are expected to deduplicate']

NONDET_NAMES = ('os.urandom', 'secrets.', 'random.', 'uuid.', 'time.', 'datetime.', 'id', 'hash', 'itertools.count', 'os.getpid', 'threading.')
RUN_DEPENDENT_ATTRS = ('_concurrent', '_quiet', '_cache_directory', 'chunk_counter', 'counter', 'bytes_chunked', 'bytes_with_padding', 'bytes_reused')


def _nondet(t):
    if t[0] == 'call' and t[1][0] == 'name':
        n = t[1][1]
        for p in NONDET_NAMES:
            if n == p or (p.endswith('.') and n.startswith(p)):
                return f'call of {n}'
    if t[0] == 'attr' and t[2] in RUN_DEPENDENT_ATTRS:
        return f'run-dependent state .{t[2]}'
    if t[0] == 'param' and t[1] in ('rate_limit', 'note'):
        return f'parameter {t[1]}'
    return None


def _first_nondet(t):
    for x in walk(t):
        r = _nondet(x)
        if r:
            return r
    return None


def r1_naming(ctx):
    corpus = ctx.corpus
    cls = repo_cls(corpus)
    CHUNK = const_of(corpus, cls, 'CHUNK_PREFIX')
    snap = corpus.func('repository', 'Repository.snapshot')
    ctx.analysed(snap, *snap.all_nested())
    n = 0
    for enc in (True, False):
        ev = evaluate(corpus, snap, modes={'encrypted': enc}, depth=7)
        ctx.count('terms_built', ev.terms_built)
        for m, e in backend_events(ev, {'exists', 'upload_stream', 'upload'}):
            if not e.args or not term_has_const(e.args[0], CHUNK):
                continue
            n += 1
            bad = _first_nondet(e.args[0])
            st = own_stmt_of_chain(e, snap)
            ctx.check(
                bad is None,
                'C07.R1',
                f'{func_label(snap)}|chunk-location-deterministic:{m}',
                loc(snap, st) if st is not None else e.loc,
                f'[{"encrypted" if enc else "plain"}] the chunk location used for backend.{m} is a function of content, configuration and key only',
                f'the chunk location depends on {bad}: identical data gets different names in different runs (no deduplication)',
            )
            if enc:
                macs = find(e.args[0], lambda y: y[0] == 'call' and y[1][0] == 'attr' and y[1][2] == 'mac')
                keyed = macs and all(dict(x[3]).get('params') is not None and contains(dict(x[3])['params'], lambda y: y == ('const', 'mac_params')) for x in macs)
                ctx.check(bool(keyed), 'C07.R1', f'{func_label(snap)}|name-keyed-by-family-mac-key:{m}', e.loc, "[encrypted] the name is a MAC keyed by private['mac_params'] (shared by the key family, different for independent keys)", 'the chunk name is not a MAC under the family MAC key')
    ctx.floor('C07.R1', 'chunk-location sinks in snapshot', n, 4)


def r2_boundaries(ctx):
    corpus = ctx.corpus
    ck = corpus.func('repository', 'RepositoryProps.chunkify')
    ctx.analysed(ck)
    for enc in (True, False):
        ev = Evaluator(corpus, modes={'encrypted': enc}, depth=4)
        r = ev.run(ck)
        okp = False
        why = show(r, limit=120)
        for a in alts(r):
            if a[0] == 'call':
                p = dict(a[3]).get('params')
                if enc:
                    okp = p is not None and p[0] == 'sub' and p[2] == ('const', 'chunker_params') and p[1][0] == 'attr' and p[1][2] == 'private'
                else:
                    okp = p == ('const', None)
                why = f'params={show(p, limit=80) if p else None}'
        ctx.check(
            okp,
            'C07.R2',
            f'{func_label(ck)}|chunker-params-from-family-key',
            loc(ck, ck.node),
            f"[{'encrypted' if enc else 'plain'}] chunkify passes params = {'private[chunker_params]' if enc else 'None'} to the chunker",
            f'chunkify passes {why}: chunk boundaries no longer depend only on content and the family chunker key',
        )
    ad = corpus.func('adapters', 'gclmulchunker.__call__')
    ctx.analysed(ad)
    ev = Evaluator(corpus, depth=4)
    ev.run(ad)
    natives = [e for e in ev.events if e.callee[0] == 'name' and e.callee[1].endswith('_gclmulchunker')]
    ctx.floor('C07.R2', 'native chunker construction in the adapter', len(natives))
    for e in natives:
        bad = None
        for a in e.args:
            bad = bad or _first_nondet(a)
        args_ok = len(e.args) == 3 and e.args[0] == ('attr', ('self', ev.clskey(ad.cls)), 'min_length') and e.args[1] == ('attr', ('self', ev.clskey(ad.cls)), 'max_length')
        key_ok = len(e.args) == 3 and all(contains(a, lambda y: y == ('param', 'params')) or a[0] == 'bin' and a[2][0] == 'const' for a in alts(e.args[2]))
        ctx.check(
            bad is None and args_ok and key_ok,
            'C07.R2',
            f'{func_label(ad)}|native-chunker-args-deterministic',
            e.loc,
            'the native chunker is constructed from (self.min_length, self.max_length, key derived from params or the fixed default)',
            f'native chunker arguments are not (min_length, max_length, params-derived key): {[show(a, limit=60) for a in e.args]} {bad or ""}',
        )


def r3_exists_before_upload(ctx):
    corpus = ctx.corpus
    snap = corpus.func('repository', 'Repository.snapshot')
    workers = [f for f in snap.nested.values() if any(isinstance(n, ast.Attribute) and n.attr == 'upload_stream' for n in walk_local(f.node))]
    ctx.floor('C07.R3', 'upload worker', len(workers))
    for w in workers:
        cfg = cfg_of(w.node)
        ups = [enclosing_stmt(n) for n in walk_local(w.node) if isinstance(n, ast.Attribute) and n.attr == 'upload_stream']
        ex_assign = {}
        for n in walk_local(w.node):
            if isinstance(n, ast.Assign) and isinstance(n.value, ast.Await) and isinstance(n.value.value, ast.Call) and (dotted(n.value.value.func) or '') in ('self._exists',):
                for t in n.targets:
                    if isinstance(t, ast.Name):
                        ex_assign[t.id] = n.value.value
        falsy = []
        loc_exprs = []

        def _only_backend_answers(name_node):
            # every definition of the tested local that reaches the test is `await self._exists(..)`: a constant on one arm
            # (`exists = False` for "small" chunks) is not an answer of the backend
            from ..cfg import reaching_defs

            rd = reaching_defs(w.node, name_node) or []
            return bool(rd) and all(d != 'entry' and isinstance(d, ast.Assign) and isinstance(d.value, ast.Await) and isinstance(d.value.value, ast.Call) and (dotted(d.value.value.func) or '') == 'self._exists' for d in rd)

        for n in walk_local(w.node):
            if isinstance(n, ast.If):
                t = n.test
                tn = t.operand if isinstance(t, ast.UnaryOp) and isinstance(t.op, ast.Not) else t
                if isinstance(tn, ast.Name) and tn.id in ex_assign and not _only_backend_answers(tn):
                    continue
                if isinstance(t, ast.Name) and t.id in ex_assign:
                    falsy += cfg.nodes_of(n, 'false')
                    loc_exprs.append(ex_assign[t.id])
                elif isinstance(t, ast.UnaryOp) and isinstance(t.op, ast.Not) and isinstance(t.operand, ast.Name) and t.operand.id in ex_assign:
                    falsy += cfg.nodes_of(n, 'true')
                    loc_exprs.append(ex_assign[t.operand.id])
                elif isinstance(t, ast.Await) and isinstance(t.value, ast.Call) and dotted(t.value.func) == 'self._exists':
                    falsy += cfg.nodes_of(n, 'false')
                    loc_exprs.append(t.value)
                elif isinstance(t, ast.UnaryOp) and isinstance(t.op, ast.Not) and isinstance(t.operand, ast.Await) and isinstance(t.operand.value, ast.Call) and dotted(t.operand.value.func) == 'self._exists':
                    falsy += cfg.nodes_of(n, 'true')
                    loc_exprs.append(t.operand.value)
        for u in ups:
            ok = bool(falsy) and all(cfg.set_dominates(falsy, x) for x in cfg.nodes_of(u, ('stmt', 'with_enter')))
            ctx.check(
                ok,
                'C07.R3',
                f'{func_label(w)}|exists-false-dominates-upload',
                loc(w, u),
                'a chunk is uploaded only through the "does not exist" edge of the backend existence test',
                'a chunk can be uploaded without the backend existence test having said "absent": unchanged data is transferred again',
            )
            # same location
            call = next((c for c in calls_in(u) if any(isinstance(a, ast.Attribute) and a.attr == 'upload_stream' for a in c.args)), None)
            if call is not None and loc_exprs:
                up_loc = None
                for i, a in enumerate(call.args):
                    if isinstance(a, ast.Attribute) and a.attr == 'upload_stream' and i + 1 < len(call.args):
                        up_loc = call.args[i + 1]
                same = up_loc is not None and all(le.args and ast.dump(le.args[0]) == ast.dump(up_loc) for le in loc_exprs)
                ctx.check(
                    same,
                    'C07.R3',
                    f'{func_label(w)}|exists-and-upload-same-location',
                    loc(w, u),
                    f'the existence test and the upload use the same location expression `{src(up_loc) if up_loc is not None else "?"}`',
                    f'the existence test asks about `{src(loc_exprs[0].args[0]) if loc_exprs and loc_exprs[0].args else "?"}` but the upload goes to `{src(up_loc) if up_loc is not None else "?"}`',
                )


def r4_table(ctx):
    corpus = ctx.corpus
    snap = corpus.func('repository', 'Repository.snapshot')
    n = 0
    for f in [snap] + list(snap.all_nested()):
        cfg = None
        for a in walk_local(f.node):
            if isinstance(a, ast.Assign):
                for t in a.targets:
                    if isinstance(t, ast.Subscript) and isinstance(t.value, ast.Name) and isinstance(a.value, ast.Call) and dotted(a.value.func) == 'len' and a.value.args and isinstance(a.value.args[0], ast.Name) and a.value.args[0].id == t.value.id:
                        n += 1
                        table, key = t.value.id, ast.dump(t.slice)
                        ok = False
                        # idiom 1: inside `except KeyError` of a try whose body looks up table[key]
                        for anc in ancestors(a):
                            if isinstance(anc, ast.ExceptHandler) and (dotted(anc.type) if anc.type is not None else '') == 'KeyError':
                                tr = getattr(anc, '_parent', None)
                                if isinstance(tr, ast.Try):
                                    for s in tr.body:
                                        for x in ast.walk(s):
                                            if isinstance(x, ast.Subscript) and isinstance(x.value, ast.Name) and x.value.id == table and ast.dump(x.slice) == key and isinstance(x.ctx, ast.Load):
                                                ok = True
                            if isinstance(anc, ast.If):
                                # idiom 2: the branch of a membership test on which the key is absent, whatever the spelling
                                # (`if k not in t:` body, `if k in t: .. else:` orelse, `if not (k in t)`, `v = t.get(k); if v is None:`)
                                tt, neg = anc.test, False
                                while isinstance(tt, ast.UnaryOp) and isinstance(tt.op, ast.Not):
                                    tt, neg = tt.operand, not neg
                                absent_branch = None
                                if isinstance(tt, ast.Compare) and len(tt.ops) == 1 and isinstance(tt.ops[0], (ast.In, ast.NotIn)) and isinstance(tt.comparators[0], ast.Name) and tt.comparators[0].id == table and ast.dump(tt.left) == key:
                                    absent_branch = anc.body if isinstance(tt.ops[0], ast.NotIn) != neg else anc.orelse
                                elif isinstance(tt, ast.Compare) and len(tt.ops) == 1 and isinstance(tt.ops[0], (ast.Is, ast.IsNot)) and isinstance(tt.comparators[0], ast.Constant) and tt.comparators[0].value is None:
                                    got = deref_at(f.node, tt.left) if isinstance(tt.left, ast.Name) else tt.left
                                    if isinstance(got, ast.Call) and isinstance(got.func, ast.Attribute) and got.func.attr == 'get' and isinstance(got.func.value, ast.Name) and got.func.value.id == table and len(got.args) == 1 and ast.dump(got.args[0]) == key:
                                        absent_branch = anc.body if isinstance(tt.ops[0], ast.Is) != neg else anc.orelse
                                if absent_branch and any(is_within(a, s_) for s_ in absent_branch):
                                    ok = True
                        ctx.check(
                            ok,
                            'C07.R4',
                            f'{func_label(f)}|table-insert-only-after-failed-lookup',
                            loc(f, a),
                            f'`{table}[digest] = len({table})` is reached only after a failed lookup of the same digest (one index per distinct chunk)',
                            f'`{src(a, 70)}` is not guarded by a failed lookup of the same key: a repeated chunk gets a new table entry',
                        )
    ctx.floor('C07.R4', 'chunk-table insertion', n)


def r5_stream_order(ctx):
    corpus = ctx.corpus
    snap = corpus.func('repository', 'Repository.snapshot')
    # the list iterated by the stream producer
    producers = stream_producers(snap)
    ctx.floor('C07.R5', 'stream producer (generator that reads files)', len(producers))
    for p in producers:
        ctx.analysed(p)
        loops = [n for n in p.node.body if isinstance(n, ast.For) and isinstance(n.iter, ast.Name)]
        ctx.floor('C07.R5', 'outer loop of the stream producer over a named list', len(loops))
        lst = loops[0].iter.id
        sorts = []
        for n in walk_local(snap.node):
            if isinstance(n, ast.Call) and isinstance(n.func, ast.Attribute) and n.func.attr == 'sort' and isinstance(n.func.value, ast.Name) and n.func.value.id == lst:
                sorts.append(n)
            if isinstance(n, ast.Assign) and any(isinstance(t, ast.Name) and t.id == lst for t in n.targets) and isinstance(n.value, ast.Call) and dotted(n.value.func) == 'sorted':
                sorts.append(n.value)
        ok = False
        why = f'`{lst}` is streamed in input/scandir order (no sort)'
        for s in sorts:
            key = next((k.value for k in s.keywords if k.arg == 'key'), None)
            if key is None:
                ok = True  # natural order of paths: total
                continue
            if isinstance(key, ast.Lambda):
                arg = key.args.args[0].arg
                body = key.body
                elts = body.elts if isinstance(body, ast.Tuple) else [body]
                total = any(
                    (isinstance(e, ast.Name) and e.id == arg)
                    or (isinstance(e, ast.Call) and dotted(e.func) in ('str', 'os.fspath', 'bytes') and e.args and isinstance(e.args[0], ast.Name) and e.args[0].id == arg)
                    or (isinstance(e, ast.Call) and isinstance(e.func, ast.Attribute) and e.func.attr in ('as_posix', '__fspath__') and isinstance(e.func.value, ast.Name) and e.func.value.id == arg)
                    for e in elts
                )
                ok = total
                if not total:
                    why = f'the sort key `{src(body)}` is not a total order on paths: files with equal keys are streamed in argument/scandir order, so equal trees chunk differently'
        ctx.check(ok, 'C07.R5', f'{func_label(snap)}|stream-order-total', loc(snap, sorts[0]) if sorts else loc(snap, snap.node), 'files are streamed in a total order that includes the path itself (independent of argument / directory order)', why)
        # piece size is a constant
        ev = Evaluator(corpus, modes={'encrypted': False}, depth=5)
        ev.run(snap)
        reads = [e for e in ev.events if e.func is p and e.method == 'read']
        ctx.floor('C07.R5', 'read calls in the stream producer', len(reads))
        for e in reads:
            a = e.args[0] if e.args else None
            ctx.check(
                a is not None and a[0] == 'const' and isinstance(a[1], int) and a[1] > 0,
                'C07.R5',
                f'{func_label(p)}|piece-size-constant',
                e.loc,
                f'the piece size handed to the chunker is the constant {a[1] if a and a[0] == "const" else "?"}',
                f'the piece size handed to the chunker is {show(a, limit=80) if a else "unbounded"}: chunk boundaries near piece ends depend on run configuration, identical data is re-uploaded under new names',
            )


def r6_shared(ctx):
    from ..report import Relabel
    from .. import cxx
    from . import c10, c11, c12

    docs = c10._docs(ctx)
    nc = cxx.method(docs, 'next_cut')
    fors = [n for n in cxx.walk(nc) if n.get('kind') == 'ForStmt']
    inc = cxx.strip(fors[0]['inner'][3]) if fors else None
    lit = cxx.strip(inc['inner'][1]) if inc is not None and inc.get('kind') == 'CompoundAssignOperator' else None
    stride = int(lit['value']) if lit is not None and lit.get('kind') == 'IntegerLiteral' else 4
    c11.r2_padding(Relabel(ctx, 'C07.R2'), docs, stride)
    c12.r4_reauth(Relabel(ctx, 'C07.R3'))
    # the CLI turns --clone into a shared key (data of the original key is reused)
    # (the function of __main__ that calls Repository.add_key - the command handler itself or a per-action function)
    mn = next((f for f in ctx.corpus.module('main').all_functions if any((dotted(c.func) or '').endswith('.add_key') for c in calls_in(f.node))), None)
    ok = False
    if mn is not None:
        for c in calls_in(mn.node):
            if (dotted(c.func) or '').endswith('add_key'):
                sh = next((k.value for k in c.keywords if k.arg == 'shared'), None)
                sh = deref_at(mn.node, sh) if sh is not None else None
                ok = isinstance(sh, ast.BoolOp) and isinstance(sh.op, ast.Or) and {'shared', 'clone'} <= {v.attr for v in sh.values if isinstance(v, ast.Attribute)}
    ctx.check(ok, 'C07.R2', f'{func_label(mn)}|clone-is-shared', loc(mn, mn.node) if mn else 'replicat/__main__.py', 'CLI add-key: --clone (like --shared) copies the family secrets, so data stored with the original key is found and reused', 'CLI add-key: --clone no longer creates a shared key: the clone gets fresh MAC / chunker / shared secrets and re-uploads everything the original key already stored')


def run(ctx):
    r6_shared(ctx)
    r1_naming(ctx)
    r2_boundaries(ctx)
    r3_exists_before_upload(ctx)
    r8_skip_upload_only_on_backend_answer(ctx, rule='C07.R3')
    from ..report import Relabel
    from .c01 import r3b_chunk_record_fresh
    from .c13 import r7_exists_answer

    # a chunk is stored under the name of ITS data (no value of an earlier chunk), and "exists" answers are the store's own
    r3b_chunk_record_fresh(Relabel(ctx, 'C07.R4'), rule='C07.R4')
    r7_exists_answer(Relabel(ctx, 'C07.R3'), rule='C07.R3')
    r4_table(ctx)
    r5_stream_order(ctx)
    # equal data gives equal chunks only if the cut points depend on the data alone: the chunker keeps nothing between calls
    from .c10 import r3_stateless

    r3_stateless(Relabel(ctx, 'C07.R2'))
    # "the chunk objects are precisely the chunks referenced" is judged against ALL snapshots of the key family: the loader
    # may drop a snapshot only for the user filter or a foreign tag, never because loading it failed
    from .c02 import r3_skip_whitelist

    r3_skip_whitelist(Relabel(ctx, 'C07.R6'))
    # every chunk the producer queued is taken by a worker: the objects stored are the chunks the snapshot references
    from .c09 import r5b_completion_flag

    r5b_completion_flag(ctx, 'C07.R5')
    from .shared import queue_put_retries_until_done

    queue_put_retries_until_done(ctx, 'C07.R5')
    from .shared import deletion_confined_to_gc_commands

    # a repeat snapshot finds the chunks it needs: nothing but delete / clean removes a stored chunk
    deletion_confined_to_gc_commands(ctx, 'C07.R7')
    # ... and delete removes exactly the chunks no remaining snapshot references (keep set built from every other snapshot,
    # plain set difference applied before anything is deleted)
    from .c02 import r1_keep_set, r4_subtraction_order
    from .gcroles import DeleteRoles

    _roles = DeleteRoles(ctx.corpus)
    _sub = r1_keep_set(Relabel(ctx, 'C07.R7'), _roles)
    r4_subtraction_order(Relabel(ctx, 'C07.R7'), _roles, _sub)
    # chunking and naming parameters are those of THIS repository: nothing but content-addressed snapshot objects goes
    # through the per-user cache (a cached `config` would be another repository's)
    from .c18 import r3b_cache_holds_snapshot_objects_only

    r3b_cache_holds_snapshot_objects_only(Relabel(ctx, 'C07.R2'))
    # a chunk's name is a function of its bytes alone: a hashing context kept on the adapter is used through copies only
    from .c17 import r10_adapter_prototypes_not_shared

    r10_adapter_prototypes_not_shared(Relabel(ctx, 'C07.R2'))
