"""Role discovery for the garbage-collecting commands (delete_snapshots, clean)
shared by C02, C06, C08 and C15."""
from __future__ import annotations

import ast
from typing import List, Optional

from ..astutil import calls_in, dotted, enclosing_stmt, is_within, src, walk_local
from ..cfg import cfg_of, enumerate_paths
from ..loader import AnalysisError
from .common import loc, self_calls

SUB_METHODS = {'difference_update', 'difference'}


class DeleteRoles:
    """Roles in Repository.delete_snapshots, resolved structurally."""

    def __init__(self, corpus):
        self.corpus = corpus
        self.fn = corpus.func('repository', 'Repository.delete_snapshots')
        fn = self.fn
        self.cfg = cfg_of(fn.node)
        # the load loop: for/async for whose iterator calls self._load_snapshots
        self.loop = None
        for n in walk_local(fn.node):
            if isinstance(n, (ast.For, ast.AsyncFor)) and any(True for _ in self_calls(n.iter, {'_load_snapshots'})):
                self.loop = n
        if self.loop is None:
            raise AnalysisError('delete_snapshots: loop over self._load_snapshots() not found')
        tgt = self.loop.target
        if isinstance(tgt, ast.Tuple) and len(tgt.elts) == 2 and all(isinstance(e, ast.Name) for e in tgt.elts):
            self.path_var, self.body_var = tgt.elts[0].id, tgt.elts[1].id
        else:
            raise AnalysisError('delete_snapshots: loop target is not (path, body)')
        # nested deleters: nested function that awaits self._delete(...)
        self.deleters = {}
        for sub in fn.all_nested():
            kinds = set()
            for c in self_calls(sub.node, {'_delete', '_delete_threadsafe'}):
                arg = c.args[0] if c.args else None
                if arg is None:
                    continue
                if isinstance(arg, ast.Name) and arg.id in [a.arg for a in sub.node.args.args]:
                    kinds.add('param')
                else:
                    kinds.add('computed')
            if kinds:
                uses_chunk_builder = any(True for _ in self_calls(sub.node, {'_chunk_digest_to_location', 'get_chunk_location'}))
                self.deleters[sub.name] = 'chunk' if uses_chunk_builder else 'snapshot'
        # a nested function that only wraps a deleter (calls it with its own parameter: progress accounting etc.) deletes what
        # the wrapped one deletes
        for _ in range(2):
            for sub in fn.all_nested():
                if sub.name in self.deleters:
                    continue
                params = [a.arg for a in sub.node.args.args]
                for c in calls_in(sub.node):
                    if isinstance(c.func, ast.Name) and c.func.id in self.deleters and c.args and isinstance(c.args[0], ast.Name) and c.args[0].id in params:
                        self.deleters[sub.name] = self.deleters[c.func.id]
        # join statements: own-body statements that apply a deleter
        self.joins = {}  # kind -> list of (stmt, iterable names)
        for st in fn.node.body + [s for n in walk_local(fn.node) if isinstance(n, (ast.With, ast.AsyncWith)) for s in n.body]:
            if isinstance(st, (ast.With, ast.AsyncWith, ast.FunctionDef, ast.AsyncFunctionDef)):
                continue
            for c in calls_in(st):
                names = [a.id for a in ast.walk(c) if isinstance(a, ast.Name)]
                for d, kind in self.deleters.items():
                    if d in names and (dotted(c.func) or '') in ('map', 'asyncio.gather', 'gather') or (isinstance(c.func, ast.Name) and c.func.id == d):
                        if d in names:
                            others = [n for n in names if n not in self.deleters and n not in ('map', 'asyncio')]
                            self.joins.setdefault(kind, [])
                            if not any(s is st for s, _ in self.joins[kind]):
                                self.joins[kind].append((st, others))

    def chunk_delete_set_name(self) -> Optional[str]:
        for st, names in self.joins.get('chunk', []):
            for n in names:
                return n
        return None

    def subtraction(self):
        """(stmt, D, K): the statement that removes the keep set from the delete set."""
        d0 = self.chunk_delete_set_name()
        if d0 is None:
            return None
        fn = self.fn
        for st in walk_local(fn.node):
            if isinstance(st, ast.Expr) and isinstance(st.value, ast.Call):
                f = st.value.func
                if isinstance(f, ast.Attribute) and f.attr == 'difference_update' and isinstance(f.value, ast.Name) and f.value.id == d0 and st.value.args:
                    k = st.value.args[0]
                    if isinstance(k, ast.Name):
                        return st, d0, k.id
            if isinstance(st, ast.AugAssign) and isinstance(st.op, ast.Sub) and isinstance(st.target, ast.Name) and st.target.id == d0 and isinstance(st.value, ast.Name):
                return st, d0, st.value.id
            if isinstance(st, ast.Assign) and len(st.targets) == 1 and isinstance(st.targets[0], ast.Name) and st.targets[0].id == d0:
                v = st.value
                if isinstance(v, ast.BinOp) and isinstance(v.op, ast.Sub) and isinstance(v.left, ast.Name) and isinstance(v.right, ast.Name):
                    return st, v.left.id, v.right.id
                if isinstance(v, ast.Call) and isinstance(v.func, ast.Attribute) and v.func.attr == 'difference' and isinstance(v.func.value, ast.Name) and v.args and isinstance(v.args[0], ast.Name):
                    return st, v.func.value.id, v.args[0].id
                if isinstance(v, ast.SetComp) and len(v.generators) == 1:
                    g = v.generators[0]
                    if isinstance(g.iter, ast.Name) and len(g.ifs) == 1:
                        t = g.ifs[0]
                        if isinstance(t, ast.Compare) and len(t.ops) == 1 and isinstance(t.ops[0], ast.NotIn) and isinstance(t.comparators[0], ast.Name):
                            return st, g.iter.id, t.comparators[0].id
        return None

    def chunks_updates(self, setname):
        """Statements in the loop body that add the current snapshot's chunk table
        (`<body>['chunks']`) to the set `setname`."""
        out = []
        for st in walk_local(self.loop):
            if isinstance(st, ast.Expr) and isinstance(st.value, ast.Call):
                f = st.value.func
                if isinstance(f, ast.Attribute) and f.attr in ('update', '__ior__') and isinstance(f.value, ast.Name) and f.value.id == setname:
                    if st.value.args and self._is_body_chunks(st.value.args[0]):
                        out.append(st)
            elif isinstance(st, ast.AugAssign) and isinstance(st.op, ast.BitOr) and isinstance(st.target, ast.Name) and st.target.id == setname:
                if self._is_body_chunks(st.value) or (isinstance(st.value, ast.Call) and st.value.args and self._is_body_chunks(st.value.args[0])):
                    out.append(st)
        return out

    def _is_body_chunks(self, e):
        if isinstance(e, ast.Call) and dotted(e.func) in ('set', 'frozenset', 'list', 'tuple') and e.args:
            e = e.args[0]
        return (
            isinstance(e, ast.Subscript)
            and isinstance(e.value, ast.Name)
            and e.value.id == self.body_var
            and isinstance(e.slice, ast.Constant)
            and e.slice.value == 'chunks'
        )

    def loop_paths(self):
        """Acyclic paths through one iteration of the load loop: from the loop's
        `true` node back to the loop head / out of the function."""
        cfg = self.cfg
        heads = cfg.nodes_of(self.loop, 'loop')
        trues = [n for n in cfg.nodes_of(self.loop, 'true')]
        if not heads or not trues:
            raise AnalysisError('delete_snapshots: load loop not in CFG')
        head_ids = {id(h) for h in heads}
        after_ids = {id(n) for n in cfg.nodes_of(self.loop, ('false', 'join'))}

        def terminal(n):
            return id(n) in head_ids or id(n) in after_ids or n.kind in ('exit', 'raise_exit')

        paths = []
        for t in trues:
            try:
                paths += enumerate_paths(cfg, t, terminal, max_paths=3000)
            except OverflowError:
                raise AnalysisError('delete_snapshots: too many paths through the load loop body')
        return paths, head_ids, after_ids
