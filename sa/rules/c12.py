"""C12 - Transient backend faults are masked and persistent ones end in a bounded error.

Decides: bounded retry decoration covers every transport call (call graph);
rewind-before-reraise in every retried stream method; wrapper classes forward
every method backends call on a stream; decorator order for re-auth and retry
through the re-auth wrapper.  Not decided: byte-exact delivery under fault
sequences, the wall-clock bound."""
from __future__ import annotations

import ast

from ..astutil import ancestors, calls_in, deref, dotted, enclosing_stmt, handler_catches, handler_reraises, is_catch_all, is_within, kwarg, src, walk_local
from ..cfg import cfg_of
from ..loader import AnalysisError
from .backends import ENTRY, INTERFACE, backend_classes, class_callgraph, decorators_of, is_retried, own_methods, transport_calls
from .common import func_label, loc

EXPLANATION = (
    'Call-graph enclosure: on every path from an interface method of each backend adapter to a transport call (file-system call for the local adapter, '
    'self._client.* for S3/B2) some function carries backoff.on_exception with an explicit finite max_tries (decorators resolved through module aliases and '
    'functools.partial). Handler-shape rule: in every retried / re-authenticated function that consumes or fills a caller-supplied stream, each consuming call lies '
    'in a try whose catch-all handler rewinds the stream (seek(0)) and re-raises; the digest pre-reader rewinds on its normal path. Table rules: the stream '
    'wrapper classes define, as pure delegations, every method the adapters call on a stream; B2 decorator order [requires_auth, backoff_reauth]; the re-auth '
    'wrapper retries through itself. Rules C12.R1-R4.'
    ' Added with the seeded-defect rounds: body reads of streaming responses are transport calls, callbacks given to backoff cannot fail on transport errors, rewinding handlers of coroutines catch BaseException.'
    ' Round 6: clean-up handlers read only names bound on every path into them, AuthRequired only on the not-429 side of a status test, no read of a body stream left in flight.'
)
NOT_DECIDED = 'that the bytes delivered are exact for every fault position (needs fault injection); the wall-clock bound of the retries'
TRUSTED = ['the backoff library honours max_tries', "tqdm's CallbackIOWrapper delegates unknown attributes (third party)", 'CPython ast']
ASSUMPTIONS = ['httpx raises subclasses of httpx.HTTPError for transport and status errors']


def r1_bounded_retry(ctx):
    corpus = ctx.corpus
    for ci in backend_classes(corpus):
        local_fs = ci.module.rel.endswith('local.py')
        methods, callers = class_callgraph(corpus, ci)
        n = 0
        for name, f in methods.items():
            if name in ('__init__', 'close', '__init_subclass__'):
                continue
            tcs = transport_calls(f, local_fs)
            if not tcs:
                continue
            ctx.analysed(f)
            n += 1
            # f is covered if it is retried, or every chain of callers up to an entry passes a retried function
            seen = set()

            def covered(m):
                if m in seen:
                    return True
                seen.add(m)
                fm = methods[m]
                d = is_retried(corpus, fm)
                if d is not None:
                    return isinstance(d.get('max_tries'), int) and d['max_tries'] >= 1
                cs = callers.get(m, set())
                if m in ENTRY or not cs:
                    return False
                return all(covered(c) for c in cs)

            ok = covered(name)
            d = is_retried(corpus, f)
            detail = f'decorated {d["name"]}(max_tries={d.get("max_tries")})' if d else 'reached only through retried callers'
            ctx.check(
                ok,
                'C12.R1',
                f'{func_label(f)}|transport-under-bounded-retry',
                loc(f, tcs[0]),
                f'{ci.name}.{name}: transport call `{src(tcs[0].func, 40)}` runs under a retry with a finite max_tries ({detail})',
                f'{ci.name}.{name}: transport call `{src(tcs[0].func, 40)}` is not under a backoff.on_exception decorator with an explicit finite max_tries on every call path from the interface '
                '(a transient fault is not retried, or retried without limit)',
            )
        ctx.floor('C12.R1', f'{ci.name}: functions with transport calls', n, 2)
    # the generic decorators themselves: exception classes
    for short, want in (('local', 'OSError'), ('s3c', 'httpx.HTTPError'), ('b2', 'httpx.HTTPError')):
        m = corpus.module(short)
        found = False
        for name, v in m.assigns.items():
            if isinstance(v, ast.Call) and (dotted(v.func) in ('backoff.on_exception',) or (dotted(v.func) in ('functools.partial',) and v.args and dotted(v.args[0]) == 'backoff.on_exception')):
                args = v.args[1:] if dotted(v.func) != 'backoff.on_exception' else v.args
                exc = dotted(args[1]) if len(args) > 1 else None
                found = True
                ctx.check(exc == want, 'C12.R1', f'{m.rel}|retry-exception-class:{name}', f'{m.rel}:{v.lineno}', f'{name} retries on {want}', f'{name} retries on {exc}, not {want}: transient faults of this transport are not retried')
        ctx.floor('C12.R1', f'retry decorator definition in {m.rel}', 1 if found else 0)


def _stream_params(corpus, ci):
    """(function, parameter name) pairs that denote the caller-supplied stream."""
    methods = own_methods(corpus, ci)
    out = {}
    for m in ('upload_stream', 'download_stream'):
        f = methods.get(m)
        if f is None:
            raise AnalysisError(f'{ci.name}.{m} missing')
        params = [a.arg for a in f.node.args.args]
        if len(params) < 3:
            raise AnalysisError(f'{ci.name}.{m}: unexpected signature')
        out[(f.name, params[2])] = f
    # propagate through direct self.<helper>(..., stream, ...) calls and module helpers
    changed = True
    while changed:
        changed = False
        for (fname, p), f in list(out.items()):
            for c in calls_in(f.node):
                d = dotted(c.func) or ''
                tgt = None
                if d.startswith('self.') and d[5:] in methods:
                    tgt = methods[d[5:]]
                    offset = 1
                elif d in f.module.functions:
                    tgt = f.module.functions[d]
                    offset = 0
                if tgt is None:
                    continue
                tparams = [a.arg for a in tgt.node.args.args]
                for i, a in enumerate(c.args):
                    if isinstance(a, ast.Name) and a.id == p and i + offset < len(tparams):
                        key = (tgt.name, tparams[i + offset])
                        if key not in out:
                            out[key] = tgt
                            changed = True
                for k in c.keywords:
                    if isinstance(k.value, ast.Name) and k.value.id == p and k.arg:
                        key = (tgt.name, k.arg)
                        if key not in out:
                            out[key] = tgt
                            changed = True
    return out


def _consumptions(f, p):
    """Calls in f that read from / write to the stream parameter p."""
    out = []
    for c in calls_in(f.node):
        d = dotted(c.func) or ''
        if isinstance(c.func, ast.Attribute) and isinstance(c.func.value, ast.Name) and c.func.value.id == p and c.func.attr in ('read', 'write', 'truncate', 'readinto', 'readline'):
            out.append(c)
        elif d in ('shutil.copyfileobj',) and any(isinstance(a, ast.Name) and a.id == p for a in c.args):
            out.append(c)
        elif d.rsplit('.', 1)[-1] in ('iter_chunks', 'aiter_chunks') and any(isinstance(a, ast.Name) and a.id == p for a in c.args):
            out.append(c)
    return out


def _rewinds(stmts, p):
    for s in stmts:
        for c in calls_in(s):
            if isinstance(c.func, ast.Attribute) and c.func.attr == 'seek' and isinstance(c.func.value, ast.Name) and c.func.value.id == p and c.args and isinstance(c.args[0], ast.Constant) and c.args[0].value == 0 and len(c.args) == 1:
                return True
    return False


def r1b_retry_callbacks_cannot_fail(ctx):
    """The callables handed to backoff (giveup=, on_backoff=, on_giveup=, on_success=) run inside the retry loop: an
    exception escaping from one of them ends the loop at once, whatever max_tries says.  They are called with every
    exception the decorator catches - transport errors have no `.response` - so an attribute of the exception that only
    status errors carry may be read only behind an isinstance test of that exception."""
    corpus = ctx.corpus
    n = 0
    for short in ('s3c', 'b2', 'local'):
        m = corpus.module(short)
        cbs = []
        for c in ast.walk(m.tree):
            if isinstance(c, ast.Call) and ((dotted(c.func) or '').endswith('on_exception') or ((dotted(c.func) or '').endswith('partial') and c.args and (dotted(c.args[0]) or '').endswith('on_exception')) or (isinstance(c.func, ast.Name) and c.func.id in m.assigns)):
                for kwn in ('giveup', 'on_backoff', 'on_giveup', 'on_success'):
                    v = kwarg(c, kwn)
                    if v is None:
                        continue
                    for x in (v.elts if isinstance(v, (ast.List, ast.Tuple)) else [v]):
                        if isinstance(x, ast.Name) and x.id in m.functions:
                            cbs.append((kwn, m.functions[x.id]))
        seen = set()
        for kwn, f in cbs:
            if f.key in seen:
                continue
            seen.add(f.key)
            ctx.analysed(f)
            for a in ast.walk(f.node):
                if not (isinstance(a, ast.Attribute) and a.attr in ('response', 'request') and isinstance(a.ctx, ast.Load)):
                    continue
                n += 1
                base = a.value
                bd = deref(f.node, base) if isinstance(base, ast.Name) else base
                guarded = False
                cur = a
                while cur is not None and cur is not f.node:
                    par = getattr(cur, '_parent', None)
                    tests = []
                    if isinstance(par, ast.BoolOp) and isinstance(par.op, ast.And):
                        idx = next((i for i, v_ in enumerate(par.values) if any(cur is y for y in ast.walk(v_))), 0)
                        tests = par.values[:idx]
                    elif isinstance(par, ast.If) and any(cur is y for st in par.body for y in ast.walk(st)):
                        tests = [par.test]
                    for t in tests:
                        for ic in ast.walk(t):
                            if isinstance(ic, ast.Call) and dotted(ic.func) == 'isinstance' and ic.args:
                                e0 = ic.args[0]
                                e0d = deref(f.node, e0) if isinstance(e0, ast.Name) else e0
                                if ast.dump(e0) == ast.dump(base) or ast.dump(e0d) == ast.dump(bd):
                                    guarded = True
                    cur = par
                # guard clause: `if not isinstance(exc, StatusError): return` before the read (decided on the CFG)
                if not guarded:
                    fcfg = cfg_of(f.node)
                    safe = []
                    for i_ in walk_local(f.node):
                        if isinstance(i_, ast.If):
                            t_, neg_ = i_.test, False
                            while isinstance(t_, ast.UnaryOp) and isinstance(t_.op, ast.Not):
                                t_, neg_ = t_.operand, not neg_
                            conj = t_.values if isinstance(t_, ast.BoolOp) and isinstance(t_.op, ast.And) else [t_]
                            for ic in conj:
                                if isinstance(ic, ast.Call) and dotted(ic.func) == 'isinstance' and ic.args:
                                    e0 = ic.args[0]
                                    e0d = deref(f.node, e0) if isinstance(e0, ast.Name) else e0
                                    if ast.dump(e0) == ast.dump(base) or ast.dump(e0d) == ast.dump(bd):
                                        if not neg_:
                                            safe += fcfg.nodes_of(i_, 'true')
                                        elif len(conj) == 1:
                                            safe += fcfg.nodes_of(i_, 'false')
                    st_nodes = fcfg.nodes_of(enclosing_stmt(a), ('stmt', 'test'))
                    if safe and st_nodes and all(fcfg.set_dominates(safe, x) for x in st_nodes):
                        guarded = True
                # try/except AttributeError around it also makes it harmless
                if any(isinstance(t_, ast.Try) and any(any(x in ('AttributeError', 'Exception') for x in handler_catches(h)) or not handler_catches(h) for h in t_.handlers) and any(a is y for st in t_.body for y in ast.walk(st)) for t_ in ast.walk(f.node)):
                    guarded = True
                ctx.check(
                    guarded,
                    'C12.R1',
                    f'{func_label(f)}|retry-callback-cannot-fail',
                    loc(f, a),
                    f'{f.name} ({kwn}=): `.{a.attr}` of the exception is read behind an isinstance test',
                    f'{f.name} is called by backoff ({kwn}=) for every caught exception, and reads `{src(a, 50)}` without an isinstance test: for a transport error (no `.{a.attr}`) it raises AttributeError inside the retry loop - '
                    'the transient fault is not retried at all',
                )
    ctx.count('retry_callback_attribute_reads', n)


def r2_rewind(ctx, rule='C12.R2', only=None, floor=6):
    corpus = ctx.corpus
    n = 0
    for ci in backend_classes(corpus):
        if ci.name == 'S3' or (only is not None and ci.name not in only):
            continue  # S3 inherits everything from S3Compatible
        for (fname, p), f in _stream_params(corpus, ci).items():
            cons = _consumptions(f, p)
            if not cons:
                continue
            ctx.analysed(f)
            decs = decorators_of(corpus, f)
            retried = any(d['kind'] in ('backoff', 'requires_auth') for d in decs)
            if not retried:
                # a helper that pre-reads the stream must rewind on its normal path
                last = f.node.body[-2:] if len(f.node.body) >= 2 else f.node.body
                ctx.check(
                    _rewinds(f.node.body, p),
                    rule,
                    f'{func_label(f)}|helper-rewinds-stream',
                    loc(f, cons[0]),
                    f'{f.qual}: reads the stream outside a retried function and rewinds it (seek(0)) before returning',
                    f'{f.qual}: consumes the stream `{p}` and does not rewind it: the following (retried) transfer starts at the wrong offset',
                )
                n += 1
                continue
            for c in cons:
                n += 1
                st = enclosing_stmt(c)
                tries = [a for a in ancestors(c) if isinstance(a, ast.Try) and any(is_within(c, b) for b in a.body)]
                ok = False
                why = 'the consuming call is not inside a try'
                for t in tries:
                    for h in t.handlers:
                        # a coroutine can be cancelled at any await (CancelledError is a BaseException): `except Exception` would leave
                        # the caller's stream half-consumed, and the next use of it transfers / hashes only the tail
                        if not is_catch_all(h, accept_exception=not f.is_async):
                            why = f'the handler catches only ({", ".join(handler_catches(h))}): other exceptions that trigger a retry (e.g. AuthRequired, OSError) leave the stream un-rewound'
                            continue
                        if not _rewinds(h.body, p):
                            why = f'the catch-all handler does not call {p}.seek(0)'
                            continue
                        if not handler_reraises(h):
                            why = 'the handler does not re-raise'
                            continue
                        ok = True
                ctx.check(
                    ok,
                    rule,
                    f'{func_label(f)}|rewind-before-reraise',
                    loc(f, c),
                    f'{f.qual}: `{src(c, 50)}` is protected by a catch-all handler that rewinds `{p}` and re-raises (so the retry starts from byte 0)',
                    f'{f.qual}: `{src(c, 50)}` can fail in mid-transfer and be retried without the stream being rewound: {why}',
                )
            # any other fallible step after the first consumption (publishing the temporary,
            # closing the response ...) also triggers a retry and must rewind as well
            if retried and cons:
                fcfg = cfg_of(f.node)
                cons_done = [x for c in cons for x in (fcfg.nodes_of(enclosing_stmt(c), 'ok') or fcfg.nodes_of(enclosing_stmt(c), ('stmt', 'loop', 'with_enter')))]
                cons_stmts = {id(enclosing_stmt(c)) for c in cons}
                for c2 in calls_in(f.node):
                    if c2 in cons or id(enclosing_stmt(c2)) in cons_stmts or any(is_within(c2, enclosing_stmt(c)) for c in cons):
                        continue
                    # "after the consumption" is decided on the control-flow graph (line numbers say nothing once helpers were expanded)
                    tgt = fcfg.nodes_of(enclosing_stmt(c2), ('stmt', 'test', 'loop', 'with_enter'))
                    if not tgt or not any(fcfg.path(x, tgt, kinds=('normal',)) is not None for x in cons_done):
                        continue
                    if any(isinstance(a, ast.ExceptHandler) for a in ancestors(c2)):
                        continue
                    d2 = dotted(c2.func) or ''
                    if d2.startswith(('logger.', 'logging.', 'int', 'str', 'len')) or d2 in ('int', 'str', 'len'):
                        continue
                    if isinstance(c2.func, ast.Attribute) and isinstance(c2.func.value, ast.Name) and c2.func.value.id == p:
                        continue
                    # releasing the response / file in a `finally` is what leaving a `with` block does (the exit of a context
                    # manager is not counted either): the two spellings are judged alike
                    if isinstance(c2.func, ast.Attribute) and c2.func.attr in ('close', 'aclose') and not c2.args and any(isinstance(a, ast.Try) and any(is_within(c2, b) for b in a.finalbody) for a in ancestors(c2)):
                        continue
                    tries = [a for a in ancestors(c2) if isinstance(a, ast.Try) and any(is_within(c2, b) for b in a.body)]
                    prot = any(is_catch_all(h, accept_exception=not f.is_async) and _rewinds(h.body, p) and handler_reraises(h) for t in tries for h in t.handlers)
                    n += 1
                    ctx.check(
                        prot,
                        rule,
                        f'{func_label(f)}|later-step-rewinds-too',
                        loc(f, c2),
                        f'{f.qual}: `{src(c2, 50)}` (after the stream was consumed) is covered by the rewinding catch-all handler',
                        f'{f.qual}: `{src(c2, 50)}` can fail after the stream was consumed and is retried without `{p}.seek(0)`: the retry transfers from an exhausted stream and publishes a truncated/empty object',
                    )
    ctx.floor(rule, 'stream consumption sites in the adapters', n, floor)


def _called_on_streams(corpus):
    up, down = set(), set()
    for ci in backend_classes(corpus):
        if ci.name == 'S3':
            continue
        methods = own_methods(corpus, ci)
        sp = _stream_params(corpus, ci)
        for (fname, p), f in sp.items():
            is_up = fname in ('upload_stream', '_put_object_stream', '_get_stream_hexdigest') or 'upload' in fname or 'put' in fname or 'hexdigest' in fname
            tgt = up if is_up else down
            for c in calls_in(f.node):
                d = dotted(c.func) or ''
                if isinstance(c.func, ast.Attribute) and isinstance(c.func.value, ast.Name) and c.func.value.id == p:
                    tgt.add(c.func.attr)
                elif d == 'shutil.copyfileobj' and len(c.args) >= 2:
                    if isinstance(c.args[0], ast.Name) and c.args[0].id == p:
                        tgt.add('read')
                    if isinstance(c.args[1], ast.Name) and c.args[1].id == p:
                        tgt.add('write')
                elif d.rsplit('.', 1)[-1] in ('iter_chunks', 'aiter_chunks'):
                    tgt.add('read')
            for n in ast.walk(f.node):
                if isinstance(n, ast.Lambda):
                    for c in ast.walk(n):
                        if isinstance(c, ast.Call) and isinstance(c.func, ast.Attribute) and isinstance(c.func.value, ast.Name) and c.func.value.id == p:
                            tgt.add(c.func.attr)
    return up, down


def _delegates(f, name):
    """Body returns self.<attr>.<name>(<own params>) (possibly via a local)."""
    a = f.node.args
    params = [x.arg for x in a.args[1:]] + ([a.vararg.arg] if a.vararg else []) + ([a.kwarg.arg] if a.kwarg else [])
    wrapped_calls = []
    for c in calls_in(f.node):
        fn = c.func
        if isinstance(fn, ast.Attribute) and fn.attr == name and isinstance(fn.value, ast.Attribute) and isinstance(fn.value.value, ast.Name) and fn.value.value.id == 'self':
            wrapped_calls.append(c)
    if len(wrapped_calls) != 1:
        return False, f'{len(wrapped_calls)} delegating calls'
    c = wrapped_calls[0]
    passed = []
    for x in c.args:
        passed.append(x.value.id if isinstance(x, ast.Starred) and isinstance(x.value, ast.Name) else (x.id if isinstance(x, ast.Name) else None))
    for k in c.keywords:
        passed.append(k.value.id if isinstance(k.value, ast.Name) else None)
    if passed != params:
        return False, f'passes ({", ".join(str(p) for p in passed)}) instead of its own parameters ({", ".join(params)})'
    # the result is returned unchanged
    rets = [r for r in walk_local(f.node) if isinstance(r, ast.Return)]
    if len(rets) != 1 or rets[0].value is None:
        return False, 'does not return the wrapped result'
    rv = rets[0].value
    if rv is c:
        return True, ''
    if isinstance(rv, ast.Name):
        assigns = [s for s in walk_local(f.node) if isinstance(s, ast.Assign) and any(isinstance(t, ast.Name) and t.id == rv.id for t in s.targets)]
        if len(assigns) == 1 and assigns[0].value is c:
            return True, ''
    return False, f'returns `{src(rv, 40)}`, not the wrapped call\'s result'


def r2c_fresh_body_iterator(ctx, rule='C12.R2'):
    """a streamed request body is an iterator over the source stream: it has to be created inside the retried function, so
    that every attempt reads the (rewound) stream again - an iterator created by the caller is exhausted after the first attempt"""
    corpus = ctx.corpus
    n = 0
    for ci in backend_classes(corpus):
        if ci.name == 'S3':
            continue
        for f in list(own_methods(corpus, ci).values()):
            for g in [f] + list(f.all_nested()):
                for c in calls_in(g.node):
                    nm = (dotted(c.func) or '').rsplit('.', 1)[-1]
                    if nm not in ('aiter_chunks', 'iter_chunks'):
                        continue
                    n += 1
                    chain = [g]
                    while chain[-1].parent is not None:
                        chain.append(chain[-1].parent)
                    retried = any(any(d['kind'] in ('backoff',) for d in decorators_of(corpus, x)) for x in chain)
                    ctx.check(
                        retried,
                        rule,
                        f'{func_label(g)}|body-iterator-created-per-attempt',
                        loc(g, c),
                        f'{g.qual}: the chunk iterator over the source stream is created inside the retried function (a fresh one per attempt)',
                        f'{g.qual}: `{src(c, 60)}` is created outside the retried function and handed to it: after a failed attempt the retry sends the exhausted iterator - an empty body under the full content-length / payload hash',
                    )
    ctx.count('stream_body_iterators', n)


def r2d_no_read_in_flight(ctx, rule='C12.R2'):
    """A retried upload rewinds its stream and reads it again from the start.  That is only sound if no read of the
    previous attempt is still in flight: the body iterators (utils.iter_chunks / aiter_chunks) read in the caller, one
    read at a time.  A read handed to another thread or task (read-ahead) can complete after the rewind and move the
    position - the retry then sends the body from the wrong offset under the hash and length of the whole payload."""
    um = ctx.corpus.module('utils')
    n = 0
    for nm in ('iter_chunks', 'aiter_chunks', 'async_gen_wrapper'):
        f = um.functions.get(nm)
        if f is None:
            continue
        n += 1
        ctx.analysed(f)
        bad = [c for g in [f] + list(f.all_nested()) for c in calls_in(g.node) if (isinstance(c.func, ast.Attribute) and c.func.attr in ('run_in_executor', 'to_thread', 'create_task', 'ensure_future', 'submit', 'start', 'run_coroutine_threadsafe')) or (dotted(c.func) or '').rsplit('.', 1)[-1] in ('Thread', 'to_thread', 'create_task', 'ensure_future')]
        ctx.check(
            not bad,
            rule,
            f'{func_label(f)}|no-read-in-flight',
            loc(f, bad[0] if bad else f.node),
            f'utils.{nm}: reads the stream in the caller, one read at a time',
            f'utils.{nm}: hands a read of the stream to another thread / task (`{src(bad[0], 60) if bad else ""}`): a read that is still in flight when a failed attempt rewinds the stream '
            'moves the position afterwards - the retried request sends a shifted / truncated body under the hash and length of the whole payload',
        )
    ctx.floor(rule, 'stream body iterators in utils', n, 2)


def r3_wrappers(ctx):
    corpus = ctx.corpus
    up, down = _called_on_streams(corpus)
    ctx.require({'read', 'seek'} <= up and {'write', 'seek', 'truncate'} <= down, f'C12.R3: stream method sets look wrong: up={sorted(up)} down={sorted(down)}')
    ut = corpus.module('utils')
    table = {'TQDMIOReader': up, 'TQDMIOWriter': down, '_RateLimitedFileWrapper': up | down}
    for cname, need in table.items():
        ci = ut.classes.get(cname)
        if ci is None:
            raise AnalysisError(f'C12.R3: utils.{cname} missing')
        for m in sorted(need):
            if m in ('close', 'flush', '__enter__', '__exit__'):
                continue
            f = corpus.method(ci, m)
            if f is None:
                ctx.fail('C12.R3', f'{ci.module.rel}|{cname}|forwards:{m}', f'{ci.module.rel}:{ci.node.lineno}', f'{cname} does not define `{m}`, which backends call on the stream it wraps (falls back to io.IOBase / AttributeError on the retry path)')
                continue
            ctx.analysed(f)
            ok, why = _delegates(f, m)
            ctx.check(
                ok,
                'C12.R3',
                f'{func_label(f)}|delegates:{cname}',
                loc(f, f.node),
                f'{cname}.{m} delegates to the wrapped stream with its own arguments and returns that result',
                f'{cname}.{m} is not a pure delegation: {why}',
            )


def r4_reauth(ctx):
    corpus = ctx.corpus
    b2 = corpus.cls('b2', 'B2')
    n = 0
    for name, f in b2.methods.items():
        reads_auth = any(isinstance(a, ast.Attribute) and a.attr == '_auth' and isinstance(a.ctx, ast.Load) for a in ast.walk(f.node))
        decs = decorators_of(corpus, f)
        kinds = [d['kind'] for d in decs]
        if name == 'authenticate':
            ok = 'requires_auth' not in kinds and any(d['kind'] == 'backoff' and d.get('alias', '').endswith('no_reauth') for d in decs) and f.is_async
            ctx.check(ok, 'C12.R4', f'{func_label(f)}|authenticate-layering', loc(f, f.node), 'B2.authenticate: retried without re-auth, not wrapped by requires_auth, coroutine like its users', 'B2.authenticate has the wrong decorators (must be backoff_no_reauth only, async)')
            continue
        if not reads_auth or name in ('close',):
            continue
        n += 1
        ctx.analysed(f)
        ok = len(kinds) >= 2 and kinds[0] == 'requires_auth' and kinds[1] == 'backoff' and decs[1].get('alias', '').endswith('reauth') and not decs[1].get('alias', '').endswith('no_reauth')
        ctx.check(
            ok,
            'C12.R4',
            f'{func_label(f)}|requires-auth-outside-retry',
            loc(f, f.node),
            f'B2.{name}: decorated [requires_auth, backoff_reauth] (re-authentication is layered outside the bounded retry)',
            f'B2.{name} uses the authorisation token but its decorators are {[d["name"] for d in decs]}: an expired token is not refreshed (or the retry budget wraps the re-auth)',
        )
    ctx.floor('C12.R4', 'B2 methods using the authorisation', n, 6)
    # giveup predicate tests only FORBIDDEN
    for short in ('b2', 's3c'):
        m = corpus.module(short)
        gnames = set()
        for v in m.assigns.values():
            if isinstance(v, ast.Call):
                gk = kwarg(v, 'giveup')
                if gk is not None:
                    gnames.add(dotted(gk) or src(gk))
        ctx.floor('C12.R4', f'{short}: giveup predicate of the retry decorator', len(gnames))
        for gn in gnames:
            g = m.functions.get(gn)
            if g is None:
                ctx.fail('C12.R4', f'{m.rel}|giveup-only-forbidden', m.rel, f'{short}: the give-up predicate `{gn}` is not a module function that can be analysed')
                continue
            codes = {a.attr for a in ast.walk(g.node) if isinstance(a, ast.Attribute) and isinstance(a.value, ast.Attribute) and a.value.attr == 'codes'}
            cmp_ok = any(isinstance(c, ast.Compare) and isinstance(c.ops[0], ast.Eq) and isinstance(c.left, ast.Attribute) and c.left.attr == 'status_code' for c in ast.walk(g.node))
            ctx.check(codes == {'FORBIDDEN'} and cmp_ok, 'C12.R4', f'{m.rel}|giveup-only-forbidden', loc(g, g.node), f'{short}: retries are given up only for status 403', f'{short}: the give-up predicate `{gn}` gives up on more than 403 ({sorted(codes) or src(g.node.body[-1], 80)}): throttling / time-out answers (429, 408) are no longer retried')
    # the re-auth wrapper retries through itself (so that repeated AuthRequired is handled again)
    ra = corpus.module('utils').functions.get('requires_auth')
    if ra is None:
        raise AnalysisError('C12.R4: utils.requires_auth missing')
    class _W:
        def __init__(self, node, i):
            self.node = node
            self.name = node.name
            self.qual = f'requires_auth.<locals>.{node.name}[{"async" if isinstance(node, ast.AsyncFunctionDef) else "sync"}]'
            self.module = ra.module
            self.key = f'{ra.module.rel}::{self.qual}'

    wrappers = [_W(n, i) for i, n in enumerate(x for x in walk_local(ra.node) if isinstance(x, (ast.FunctionDef, ast.AsyncFunctionDef)) and x is not ra.node)]
    ctx.floor('C12.R4', 'requires_auth wrappers', len(wrappers), 2)
    for w in wrappers:
        ctx.analysed(w)
        hs = [h for t in walk_local(w.node) if isinstance(t, ast.Try) for h in t.handlers if any(x.rsplit('.', 1)[-1] == 'AuthRequired' for x in handler_catches(h))]
        ctx.floor('C12.R4', f'AuthRequired handler in {w.qual}', len(hs))
        for h in hs:
            in_loop = any(isinstance(a, (ast.While, ast.For)) for a in ancestors(h) if is_within(a, w.node))
            last = h.body[-1] if h.body else None
            via_wrapper = False
            if isinstance(last, ast.Return) and last.value is not None:
                v = last.value.value if isinstance(last.value, ast.Await) else last.value
                via_wrapper = isinstance(v, ast.Call) and isinstance(v.func, ast.Name) and v.func.id == w.name
            calls_auth = any(isinstance(c.func, ast.Attribute) and c.func.attr == 'authenticate' for s in h.body for c in calls_in(s))
            ctx.check(
                (via_wrapper or in_loop) and calls_auth,
                'C12.R4',
                f'{func_label(w)}|reauth-retries-through-wrapper',
                loc(w, h),
                f'{w.qual}: after re-authenticating, the call is retried through the wrapper itself (a further AuthRequired is handled again)',
                f'{w.qual}: after re-authenticating the call is retried outside the re-auth wrapper: a second authorisation fault on the same call (or the AuthRequired raised for a 5xx) escapes to the caller',
            )


def r4c_throttling_is_not_an_auth_fault(ctx):
    """The retry callbacks that turn a failed attempt into AuthRequired decide by the STATUS of the answer: a 429
    (throttling) is waited out inside the bounded retry; raising AuthRequired for it starts a fresh retry budget through
    requires_auth each time, so persistent throttling is retried without bound (and hammers the authorisation endpoint)."""
    corpus = ctx.corpus
    m = corpus.module('b2')
    n = 0
    for f in m.all_functions:
        raises = [r for r in walk_local(f.node) if isinstance(r, ast.Raise) and r.exc is not None and (dotted(r.exc.func if isinstance(r.exc, ast.Call) else r.exc) or '').rsplit('.', 1)[-1] == 'AuthRequired']
        if not raises or not any((dotted(c.func) or '') == 'sys.exc_info' for c in calls_in(f.node)):
            continue  # the retry callbacks are the functions that look at the exception being handled by backoff
        ctx.analysed(f)
        for r in raises:
            n += 1
            ok = False
            child = r
            for a in ancestors(r):
                if a is f.node:
                    break
                if isinstance(a, ast.If):
                    t = a.test
                    neg = False
                    while isinstance(t, ast.UnaryOp) and isinstance(t.op, ast.Not):
                        t, neg = t.operand, not neg
                    if isinstance(t, ast.Compare) and len(t.ops) == 1 and any(isinstance(x, ast.Attribute) and x.attr == 'status_code' for x in ast.walk(t)):
                        is429 = any((isinstance(x, ast.Attribute) and x.attr == 'TOO_MANY_REQUESTS') or (isinstance(x, ast.Constant) and x.value == 429) for x in ast.walk(t))
                        in_else = any(child is s or is_within(child, s) for s in a.orelse)
                        is_eq = isinstance(t.ops[0], ast.Eq) != neg if isinstance(t.ops[0], (ast.Eq, ast.NotEq)) else None
                        if is429 and is_eq is not None and is_eq == in_else:
                            ok = True
                child = a
            if not ok:
                # guard-clause form: a dominating `if status == 429: return`
                cfg = cfg_of(f.node)
                for i in [x for x in walk_local(f.node) if isinstance(x, ast.If)]:
                    t = i.test
                    if isinstance(t, ast.Compare) and len(t.ops) == 1 and isinstance(t.ops[0], ast.Eq) and any(isinstance(x, ast.Attribute) and x.attr == 'status_code' for x in ast.walk(t)) and any((isinstance(x, ast.Attribute) and x.attr == 'TOO_MANY_REQUESTS') or (isinstance(x, ast.Constant) and x.value == 429) for x in ast.walk(t)):
                        tn = cfg.nodes_of(i, ('test',))
                        rn = cfg.nodes_of(r, ('stmt',))
                        if tn and rn and i.body and isinstance(i.body[-1], (ast.Return, ast.Continue)) and cfg.path(cfg.entry, rn, avoid=tn) is None:
                            ok = True
            ctx.check(
                ok,
                'C12.R4',
                f'{func_label(f)}|throttling-is-not-an-auth-fault',
                loc(f, r),
                f'b2.{f.name}: AuthRequired is raised only for answers whose status is not 429',
                f'b2.{f.name}: AuthRequired can be raised for a 429 answer (the decision does not test the status code against TOO_MANY_REQUESTS): each throttled attempt re-authenticates and restarts the retry budget, so persistent throttling is retried without bound',
            )
    ctx.floor('C12.R4', 'retry callbacks raising AuthRequired', n)


def r4b_reauth_stateless(ctx, rule='C12.R4'):
    """requires_auth decides per call: its wrappers keep nothing on the backend object except the auth lock itself, and
    never give up on their own (a counter that survives calls turns the N-th isolated token expiry into an error)."""
    corpus = ctx.corpus
    ra = corpus.module('utils').functions.get('requires_auth')
    if ra is None:
        raise AnalysisError(f'{rule}: utils.requires_auth missing')
    wrappers = [n for n in ast.walk(ra.node) if isinstance(n, (ast.FunctionDef, ast.AsyncFunctionDef)) and n is not ra.node]
    ctx.floor(rule, 'requires_auth wrappers', len(wrappers), 2)
    for w in wrappers:
        selfname = (w.args.posonlyargs + w.args.args)[0].arg if (w.args.posonlyargs + w.args.args) else 'self'
        for n in ast.walk(w):
            tgts = n.targets if isinstance(n, ast.Assign) else [n.target] if isinstance(n, (ast.AugAssign, ast.AnnAssign)) else []
            for t in tgts:
                if isinstance(t, ast.Attribute) and isinstance(t.value, ast.Name) and t.value.id == selfname:
                    v = getattr(n, 'value', None)
                    is_lock = isinstance(v, ast.Name) and any(isinstance(a, ast.Assign) and any(isinstance(x, ast.Name) and x.id == v.id for tt in a.targets for x in ast.walk(tt)) and any(isinstance(c, ast.Call) and (dotted(c.func) or '').endswith('Lock') for c in ast.walk(a.value)) or (isinstance(a, ast.Assign) and any(isinstance(x, ast.Name) and x.id == v.id for tt in a.targets for x in ast.walk(tt)) and isinstance(a.value, ast.Subscript)) for a in ast.walk(w))
                    ctx.check(
                        is_lock,
                        rule,
                        f'replicat/utils/__init__.py::requires_auth|wrapper-keeps-only-the-lock:{t.attr}',
                        f'replicat/utils/__init__.py:{n.lineno}',
                        f'requires_auth: `{selfname}.{t.attr}` holds the per-object auth lock',
                        f'requires_auth stores `{selfname}.{t.attr} = {src(v, 40) if v is not None else "..."}` on the backend object: whether a later authorisation fault is masked now depends on the history of earlier calls '
                        '(e.g. a re-auth counter that is never reset turns the N-th isolated token expiry of a session into an error)',
                    )
            if isinstance(n, ast.Raise) and n.exc is not None and any(isinstance(x, ast.Attribute) and x.attr == 'AuthRequired' for x in ast.walk(n.exc)):
                ctx.fail(rule, f'replicat/utils/__init__.py::requires_auth|wrapper-never-gives-up', f'replicat/utils/__init__.py:{n.lineno}', 'requires_auth raises AuthRequired itself: an authorisation fault that a re-authentication would have masked reaches the caller')


def r5_no_stale_credentials(ctx):
    """Server-issued state cached on a B2 instance by a re-authenticated method is
    reset by authenticate() (otherwise a stale token is re-sent after every re-auth)."""
    corpus = ctx.corpus
    b2 = corpus.cls('b2', 'B2')
    auth = b2.methods.get('authenticate')
    if auth is None:
        raise AnalysisError('C12.R5: B2.authenticate missing')
    reset = {a.attr for a in ast.walk(auth.node) if isinstance(a, ast.Attribute) and isinstance(a.ctx, (ast.Store, ast.Del)) and isinstance(a.value, ast.Name) and a.value.id == 'self'}
    n = 0
    for name, f in b2.methods.items():
        if name in ('__init__', 'authenticate', 'close'):
            continue
        for a in ast.walk(f.node):
            if isinstance(a, ast.Attribute) and isinstance(a.ctx, ast.Store) and isinstance(a.value, ast.Name) and a.value.id == 'self':
                n += 1
                ctx.check(
                    a.attr in reset,
                    'C12.R5',
                    f'{func_label(f)}|cached-state-reset-on-reauth:{a.attr}',
                    loc(f, a),
                    f'B2.{name}: cached `self.{a.attr}` is (re)set by authenticate()',
                    f'B2.{name} caches server-issued state in `self.{a.attr}` that authenticate() never resets: after the authorisation expires every re-authentication is followed by the same stale value and the call is retried without end',
                )
    ctx.count('b2_cached_attributes', n)


def run(ctx):
    r5_no_stale_credentials(ctx)
    r1_bounded_retry(ctx)
    r1b_retry_callbacks_cannot_fail(ctx)
    from .shared import handlers_use_bound_names

    handlers_use_bound_names(ctx, 'C12.R2', [m for ci in backend_classes(ctx.corpus) for m in own_methods(ctx.corpus, ci).values()], 'retried transfer')
    r2_rewind(ctx)
    r2c_fresh_body_iterator(ctx)
    r2d_no_read_in_flight(ctx)
    r3_wrappers(ctx)
    r4_reauth(ctx)
    r4c_throttling_is_not_an_auth_fault(ctx)
    r4b_reauth_stateless(ctx)
