"""C17 - Accepted settings always yield a usable repository and working keys.

Decides: no backend mutation before all settings-dependent construction in
init; every adapter role is type-checked or exercised and every adapter
parameter bounded / probed / exercised before the config upload; validator /
consumer key agreement; unlock rebuilds from stored data only; new key encrypted
under its own password-derived key; KDFs pass the key material through unchanged.
Not decided: "usable" for every accepted lattice point (execution)."""
from __future__ import annotations

import ast

from ..cfg import deref_at
from ..astutil import ancestors, body_always_raises, calls_in, dotted, enclosing_stmt, is_within, kwarg, src, walk_local
from ..cfg import cfg_of
from ..loader import AnalysisError
from ..terms import Evaluator, alts, contains, find, show, strip_sites, walk
from .common import MUTATORS, backend_events, evaluate, func_label, loc, repo_cls, self_calls

EXPLANATION = (
    'Dominance on the CFG of init: the single backend mutation (the config upload) is dominated by the normal completion of settings validation, config '
    'construction and instantiation and - in encrypted mode - key generation, key instantiation, encryption of the private section and key emission; add_key '
    'reaches no backend mutator. Per adapter role (hash, chunker, cipher, user KDF): the selected class is checked against the role interface or a role '
    'operation is performed before the upload; per constructor parameter: bounded by raising guards, probed by a failing lookup, or used by an operation that is '
    'performed before the upload. Table agreement between the settings validators and the consumers; provenance of the props installed by unlock; provenance of '
    'the key that encrypts a new private section; pass-through of key material in the KDF adapters. Rules C17.R1-R6.'
    ' Added with the seeded-defect rounds: unlock refuses only missing inputs and derives the user key from the key\'s own salt, KDF lengths follow the cipher, kept hashing contexts are used through copy(), loader skip whitelist.'
)
NOT_DECIDED = 'usability of every accepted point of the settings lattice (needs execution per configuration); KDF cost limits'
TRUSTED = ['hashlib / cryptography raise on parameters they cannot serve', 'CPython ast']
ASSUMPTIONS = ['the adapter registry `_adapters` lists every selectable adapter']


def r1_validate_before_upload(ctx):
    corpus = ctx.corpus
    fn = corpus.func('repository', 'Repository.init')
    ctx.analysed(fn)
    cfg = cfg_of(fn.node)
    ups = [enclosing_stmt(c) for c in self_calls(fn.node, {'_upload_data', '_upload_data_threadsafe'})]
    ctx.floor('C17.R1', 'config upload in init', len(ups))
    ctx.check(len(ups) == 1, 'C17.R1', f'{func_label(fn)}|single-backend-mutation', loc(fn, ups[0]), 'init performs exactly one backend mutation (the config upload)', f'init performs {len(ups)} uploads')
    # "not encrypted" edges: false edge of `if <props>.encrypted`, true edge of `if not <props>.encrypted` (the test must be exactly that flag)
    not_enc = []
    for n in walk_local(fn.node):
        if isinstance(n, ast.If):
            t = n.test
            if isinstance(t, ast.Attribute) and t.attr == 'encrypted':
                not_enc += cfg.nodes_of(n, 'false')
            elif isinstance(t, ast.UnaryOp) and isinstance(t.op, ast.Not) and isinstance(t.operand, ast.Attribute) and t.operand.attr == 'encrypted':
                not_enc += cfg.nodes_of(n, 'true')
    no_settings = []
    for n in walk_local(fn.node):
        if isinstance(n, ast.If):
            t = n.test
            if isinstance(t, ast.Name) and t.id == 'settings':
                no_settings += cfg.nodes_of(n, 'false')
            elif isinstance(t, ast.UnaryOp) and isinstance(t.op, ast.Not) and isinstance(t.operand, ast.Name) and t.operand.id == 'settings':
                no_settings += cfg.nodes_of(n, 'true')
    required = [
        ('_validate_init_settings', no_settings, 'settings validation'),
        ('_make_config', [], 'config construction'),
        ('_instantiate_config', [], 'adapter instantiation'),
        ('_make_key', not_enc, 'key generation [encrypted]'),
        ('_instantiate_key', not_enc, 'key instantiation (user KDF exercised) [encrypted]'),
    ]
    u = ups[0]
    for name, alt_nodes, what in required:
        calls = [enclosing_stmt(c) for c in self_calls(fn.node, {name})]
        oks = [x for st in calls for x in cfg.nodes_of(st, 'ok')]
        good = bool(oks) and all(cfg.set_dominates(oks + alt_nodes, x) for x in cfg.nodes_of(u, 'stmt'))
        ctx.check(
            good,
            'C17.R1',
            f'{func_label(fn)}|{name}-dominates-upload',
            loc(fn, u),
            f'init: {what} completes normally on every path to the config upload',
            f'init: the config can be uploaded on a path where {what} has not completed: settings that are rejected later leave a config object in the backend',
        )
    # the private-section encryption and the key emission precede the upload in encrypted mode
    encs = [enclosing_stmt(c) for c in calls_in(fn.node) if isinstance(c.func, ast.Attribute) and c.func.attr == 'encrypt']
    key_names = {t.id for a in walk_local(fn.node) if isinstance(a, ast.Assign) and any(True for _ in self_calls(a.value, {'_make_key'})) for t in a.targets if isinstance(t, ast.Name)}
    emits = [enclosing_stmt(c) for c in calls_in(fn.node) if (isinstance(c.func, ast.Attribute) and c.func.attr == 'write_bytes') or (dotted(c.func) == 'print' and any(isinstance(a, ast.Name) and a.id in key_names for x in c.args for a in ast.walk(x)))]
    for sts, what in ((encs, 'encryption of the private section (cipher exercised)'), (emits, 'key emission')):
        oks = [x for st in sts for x in cfg.nodes_of(st, 'ok')]
        good = bool(oks) and all(cfg.set_dominates(oks + not_enc, x) for x in cfg.nodes_of(u, 'stmt'))
        ctx.check(good, 'C17.R1', f'{func_label(fn)}|{what.split()[0]}-dominates-upload', loc(fn, u), f'init [encrypted]: {what} precedes the config upload', f'init [encrypted]: the config can be uploaded before {what}')
    # add_key reaches no backend mutator
    ak = corpus.func('repository', 'Repository.add_key')
    n = 0
    for sh in (True, False):
        ev = evaluate(corpus, ak, modes={'encrypted': True, 'shared': sh}, depth=6, nonnull={'password'})
        for m, e in backend_events(ev, MUTATORS):
            n += 1
            ctx.fail('C17.R1', f'{func_label(ak)}|add-key-mutates-backend', e.loc, f'add_key reaches backend.{m}: a rejected add-key would not leave the backend untouched')
    if n == 0:
        ctx.ok('C17.R1', loc(ak, ak.node), 'add_key reaches no backend mutator (both modes)')


ROLE_OPS = {
    'CipherAdapter': {'encrypt', 'decrypt', 'generate_key'},
    'KDFAdapter': {'derive'},
    'HashAdapter': set(),
    'ChunkerAdapter': set(),
    'MACAdapter': set(),
}


def _guards(init_node):
    """Raising guards of a constructor: list of (test, names mentioned incl. loop aliases)."""
    out = []
    for n in ast.walk(init_node):
        if isinstance(n, ast.If) and (body_always_raises(n.body) or (n.orelse and body_always_raises(n.orelse))):
            # locals that only name a sub-condition (`is_integer = isinstance(..)`) stand for that condition
            from ..cfg import deref_at as _da

            for x in list(ast.walk(n.test)):
                if isinstance(x, ast.Name) and isinstance(x.ctx, ast.Load):
                    d = _da(init_node, x)
                    if d is not x and not isinstance(d, ast.Name):
                        for par in ast.walk(n.test):
                            for fld, val in ast.iter_fields(par):
                                if val is x:
                                    setattr(par, fld, d)
                                elif isinstance(val, list) and any(v is x for v in val):
                                    val[[i for i, v in enumerate(val) if v is x][0]] = d
                        if n.test is x:
                            n.test = d
            names = {x.id for x in ast.walk(n.test) if isinstance(x, ast.Name)}
            for a in _anc(n):
                if isinstance(a, ast.For) and isinstance(a.target, ast.Name) and a.target.id in names and isinstance(a.iter, (ast.Tuple, ast.List)):
                    names |= {e.id for e in a.iter.elts if isinstance(e, ast.Name)}
            out.append((n, names))
    return out


def _anc(n):
    cur = getattr(n, '_parent', None)
    while cur is not None:
        yield cur
        cur = getattr(cur, '_parent', None)


def _absolute(test, var_names):
    """Does the guard constrain one of var_names against constants (membership
    in a literal collection, comparison with a constant / class constant,
    isinstance)?"""
    has_abs = False
    has_type = False
    for c in ast.walk(test):
        if isinstance(c, ast.Compare):
            operands = [c.left] + list(c.comparators)
            mentions = any(isinstance(o, ast.Name) and o.id in var_names for o in operands)
            consts = [o for o in operands if isinstance(o, ast.Constant) or isinstance(o, (ast.Tuple, ast.List, ast.Set)) or (isinstance(o, ast.Attribute))]
            if mentions and consts:
                has_abs = True
        if isinstance(c, ast.Call) and dotted(c.func) == 'isinstance' and c.args and isinstance(c.args[0], ast.Name) and c.args[0].id in var_names:
            has_type = True
    return has_abs, has_type


def r2_parameters(ctx):
    corpus = ctx.corpus
    ad = corpus.module('adapters')
    # the selectable adapters: the registry list when there is one, otherwise every concrete class of the module that
    # implements one of the role interfaces (registry built as a mapping, by a decorator, ...)
    reg = ad.assigns.get('_adapters')
    if isinstance(reg, ast.List):
        names = [e.id for e in reg.elts if isinstance(e, ast.Name)]
    else:
        names = []
        for cn, ci_ in ad.classes.items():
            bases = [c.name for c in corpus.mro(ci_)][1:]
            if cn.startswith('_') or cn in ROLE_OPS or cn.endswith(('Mixin', 'Adapter')):
                continue
            if any(b in ROLE_OPS for b in bases):
                names.append(cn)
    ctx.floor('C17.R2', 'registered adapters', len(names), 5)
    # role checks / exercise before the upload (in init's call chain)
    ic = corpus.func('repository', 'Repository._instantiate_config')
    mk = corpus.func('repository', 'Repository._make_key')
    ctx.analysed(ic, mk)
    role_checked = set()
    for f in (ic, mk, corpus.func('repository', 'Repository._make_config')):
        for c in calls_in(f.node):
            d = dotted(c.func) or ''
            if d in ('issubclass', 'isinstance') and len(c.args) == 2:
                role_checked.add((dotted(c.args[1]) or '').rsplit('.', 1)[-1])
            if d.startswith('self.') and len(c.args) >= 2:
                tgt = corpus.method(repo_cls(corpus), d[5:])
                if tgt is not None and any(dotted(x.func) in ('issubclass', 'isinstance') for x in calls_in(tgt.node)):
                    role_checked.add((dotted(c.args[1]) or '').rsplit('.', 1)[-1])
    exercised_roles = {'CipherAdapter', 'KDFAdapter'}  # encrypt / derive are called by init before the upload (C17.R1)
    for role, what in (('HashAdapter', 'hashing'), ('ChunkerAdapter', 'chunking'), ('CipherAdapter', 'encryption.cipher')):
        ok = role in role_checked or role in exercised_roles
        ctx.check(
            ok,
            'C17.R2',
            f'{func_label(ic)}|role-checked:{role}',
            loc(ic, ic.node),
            f'the adapter selected for `{what}` is checked against {role} before the config upload',
            f'the adapter selected for `{what}` is looked up by name only and never checked against {role}: e.g. {what}={{"name": "scrypt"}} is accepted, the config is uploaded and every later operation fails',
        )
    # parameters
    n_params = 0
    for nm in names:
        ci = ad.classes.get(nm)
        if ci is None:
            raise AnalysisError(f'C17.R2: registered adapter {nm} not found')
        init = corpus.method(ci, '__init__')
        roles = [c.name for c in corpus.mro(ci) if c.name in ROLE_OPS]
        if init is None or init.cls.name in ROLE_OPS or not init.node.args.kwonlyargs:
            continue
        ctx.analysed(init)
        only_exercised = bool(roles) and all(r in exercised_roles for r in roles)
        guards = _guards(init.node)
        for p in [a.arg for a in init.node.args.kwonlyargs]:
            if p == 'length' and 'KDFAdapter' in roles and roles == ['KDFAdapter']:
                continue  # supplied by the repository (cipher.key_bytes), not user-settable
            n_params += 1
            bounded = typed = False
            for g, gnames in guards:
                if p in gnames:
                    a, t = _absolute(g.test, gnames)
                    bounded = bounded or a
                    typed = typed or t
            probed = False
            for c in calls_in(init.node):
                if dotted(c.func) in ('getattr',) and any(isinstance(x, ast.Name) and x.id == p for a in c.args for x in ast.walk(a)):
                    probed = True
            # relative-only guards (min > max) do not bound
            used_by_exercised_op = False
            if only_exercised:
                stored = _stored_attr(init, p, corpus)
                for r in roles:
                    for op in ROLE_OPS[r]:
                        m = corpus.method(ci, op)
                        if m is not None and stored and any(isinstance(a, ast.Attribute) and a.attr in stored for a in ast.walk(m.node)):
                            used_by_exercised_op = True
            # membership in a literal collection compares by value (256.0 == 256, True == 1): it bounds but does not type the value
            ok = (bounded and typed) or probed or used_by_exercised_op
            how = 'bounded by a raising guard' if bounded else 'probed by a lookup that fails for bad values' if probed else 'used by an operation init performs before the upload'
            ctx.check(
                ok,
                'C17.R2',
                f'{func_label(init)}|parameter-validated:{p}',
                loc(init, init.node),
                f'{nm}.{p}: {how}',
                f'{nm}.{p} is only stored (or only compared with another unbounded parameter) and no operation that uses it runs before the config upload: '
                f'out-of-range or mistyped values are accepted by init and every later {"hash" if "HashAdapter" in roles else "chunking"} operation fails',
            )
    ctx.floor('C17.R2', 'user-settable adapter parameters', n_params, 7)


def _stored_attr(init, p, corpus=None):
    """Attribute names through which parameter p is stored on self (transitively
    through simple derived attributes in the MRO constructors)."""
    out = set()
    nodes = [init.node]
    for n in nodes:
        for a in ast.walk(n):
            if isinstance(a, ast.Assign):
                tl = a.targets[0]
                tg = tl.elts if isinstance(tl, ast.Tuple) else [tl]
                vl = a.value.elts if isinstance(a.value, ast.Tuple) and isinstance(tl, ast.Tuple) else [a.value] * len(tg)
                for t, v in zip(tg, vl):
                    if isinstance(t, ast.Attribute) and any(isinstance(x, ast.Name) and x.id == p for x in ast.walk(v)):
                        out.add(t.attr)
    # derived attributes: self._nonce_bytes = self.nonce_bits // 8 in a constructor of the MRO (transitively)
    if out and corpus is not None and init.cls is not None:
        inits = [c.methods['__init__'] for c in corpus.mro(init.cls) if '__init__' in c.methods]
        changed = True
        while changed:
            changed = False
            for ini in inits:
                for a in ast.walk(ini.node):
                    if isinstance(a, ast.Assign):
                        tl = a.targets[0]
                        tg = tl.elts if isinstance(tl, ast.Tuple) else [tl]
                        vl = a.value.elts if isinstance(a.value, ast.Tuple) and isinstance(tl, ast.Tuple) else [a.value] * len(tg)
                        for t, v in zip(tg, vl):
                            if isinstance(t, ast.Attribute) and t.attr not in out and any(isinstance(x, ast.Attribute) and x.attr in out and isinstance(x.value, ast.Name) for x in ast.walk(v)):
                                out.add(t.attr)
                                changed = True
        # properties / accessors that return a stored attribute (key_bytes -> self._key_bytes)
        for c in corpus.mro(init.cls):
            for mname, m in c.methods.items():
                if mname.startswith('__'):
                    continue
                if len(m.node.body) <= 3 and any(isinstance(x, ast.Attribute) and x.attr in out and isinstance(x.value, ast.Name) for r in ast.walk(m.node) if isinstance(r, ast.Return) and r.value is not None for x in ast.walk(r.value)):
                    out.add(mname)
    return out


def _eval_guard(e, env):
    """evaluate a pure guard expression over integer samples (comparison chains, and/or/not, isinstance, arithmetic);
    returns True / False, or None when the expression uses anything else"""
    try:
        if isinstance(e, ast.Constant):
            return e.value
        if isinstance(e, ast.Name):
            return env[e.id] if e.id in env else None
        if isinstance(e, ast.UnaryOp):
            v = _eval_guard(e.operand, env)
            if v is None:
                return None
            return (not v) if isinstance(e.op, ast.Not) else (-v if isinstance(e.op, ast.USub) else None)
        if isinstance(e, ast.BoolOp):
            vals = [_eval_guard(v, env) for v in e.values]
            if isinstance(e.op, ast.Or):
                if any(v is True for v in vals):
                    return True
                return None if any(v is None for v in vals) else False
            if any(v is False for v in vals):
                return False
            return None if any(v is None for v in vals) else True
        if isinstance(e, ast.Compare):
            left = _eval_guard(e.left, env)
            for op, c in zip(e.ops, e.comparators):
                right = _eval_guard(c, env)
                if left is None or right is None:
                    return None
                r = {ast.Lt: left < right, ast.LtE: left <= right, ast.Gt: left > right, ast.GtE: left >= right, ast.Eq: left == right, ast.NotEq: left != right}.get(type(op))
                if r is None:
                    return None
                if not r:
                    return False
                left = right
            return True
        if isinstance(e, ast.Call) and isinstance(e.func, ast.Name) and e.func.id == 'isinstance' and len(e.args) == 2:
            v = _eval_guard(e.args[0], env)
            t = e.args[1]
            names = [x.id for x in (t.elts if isinstance(t, ast.Tuple) else [t]) if isinstance(x, ast.Name)]
            if v is None or not names:
                return None
            return any((n == 'int' and isinstance(v, int)) or (n == 'bool' and isinstance(v, bool)) or (n == 'float' and isinstance(v, float)) for n in names)
        if isinstance(e, ast.BinOp):
            a, b = _eval_guard(e.left, env), _eval_guard(e.right, env)
            if a is None or b is None:
                return None
            return {ast.Add: lambda: a + b, ast.Sub: lambda: a - b, ast.Mult: lambda: a * b, ast.Mod: lambda: a % b if b else None, ast.FloorDiv: lambda: a // b if b else None}.get(type(e.op), lambda: None)()
    except Exception:
        return None
    return None


def r2b_chunker_lengths_positive(ctx):
    """gclmulchunker refuses a non-positive length: with min_length = 0 the native cutter answers "cut at 0" forever -
    init accepts the settings, snapshots succeed with no chunks and restores write empty files"""
    corpus = ctx.corpus
    ci = corpus.cls('adapters', 'gclmulchunker')
    init = ci.methods.get('__init__')
    if init is None:
        raise AnalysisError('C17.R2: gclmulchunker.__init__ missing')
    ctx.analysed(init)
    params = [a.arg for a in init.node.args.kwonlyargs + init.node.args.args][0:]
    params = [p for p in params if p != 'self']
    guards = _guards(init.node)
    for p in params:
        # sample: this length = 0, the others large enough to satisfy every relative constraint
        env = {q: 4096 for q in params}
        env[p] = 0
        rejected = False
        undecided = False
        for g, gnames in guards:
            tests = [g.test]
            # a guard inside `for length in (min_length, max_length)`: the loop variable stands for either parameter
            for a in _anc(g):
                if isinstance(a, ast.For) and isinstance(a.target, ast.Name) and isinstance(a.iter, (ast.Tuple, ast.List)) and any(isinstance(e, ast.Name) and e.id == p for e in a.iter.elts):
                    env2 = dict(env)
                    env2[a.target.id] = 0
                    v = _eval_guard(g.test, env2)
                    raising_branch_true = body_always_raises(g.body)
                    if v is not None and (v if raising_branch_true else not v):
                        rejected = True
            v = _eval_guard(g.test, env)
            raising_branch_true = body_always_raises(g.body)
            if v is None:
                undecided = undecided or (p in gnames)
            elif (v if raising_branch_true else not v):
                rejected = True
        ctx.check(
            rejected,
            'C17.R2',
            f'{func_label(init)}|length-positive:{p}',
            loc(init, init.node),
            f'gclmulchunker: {p} = 0 is refused by a raising guard',
            f'gclmulchunker accepts {p} = 0' + (' (no guard could be evaluated for it)' if undecided else '') + ': the native cutter then returns position 0 for every buffer, snapshots contain no chunks and restore silently writes empty files',
        )


def r3_validator_consumers(ctx):
    corpus = ctx.corpus
    cls = repo_cls(corpus)
    vi = corpus.method(cls, '_validate_init_settings')
    va = corpus.method(cls, '_validate_add_key_settings')
    if vi is None:
        raise AnalysisError('C17.R3: anchor function missing: Repository._validate_init_settings')
    if va is None:
        # written out in add_key: the schema literals handed to _validate_settings there
        va = corpus.func('repository', 'Repository.add_key')
    ctx.analysed(vi, va)
    allowed = []
    for f in (vi, va):
        nodes = [f.node] if f.name.startswith('_validate') else [a for c in self_calls(f.node, {'_validate_settings'}) for a in c.args[:1]]
        for d in [x for n_ in nodes for x in ast.walk(n_)]:
            if isinstance(d, ast.Dict):
                allowed += [(f, k.value) for k in d.keys if isinstance(k, ast.Constant)]
            # dict.fromkeys(<table>, type): the keys of the table are allowed
            if isinstance(d, ast.Call) and dotted(d.func) == 'dict.fromkeys' and d.args:
                tbl = deref(f.node, d.args[0]) if isinstance(d.args[0], ast.Name) else d.args[0]
                if isinstance(tbl, ast.Dict):
                    allowed += [(f, k.value) for k in tbl.keys if isinstance(k, ast.Constant)]
                elif isinstance(tbl, (ast.Tuple, ast.List, ast.Set)):
                    allowed += [(f, k.value) for k in tbl.elts if isinstance(k, ast.Constant)]
    allowed = list(dict.fromkeys(allowed))
    # the sections init accepts under `encryption` are the documented ones (README: --encryption.<section>.<option>)
    import re as _re

    documented = set(_re.findall(r'--encryption\.([a-z_]+)\.', corpus.extra_files.get('README.md', '')))
    top = {'hashing', 'chunking', 'encryption'}
    if documented:
        for f, k in allowed:
            if f is vi and k not in top:
                ctx.check(
                    k in documented,
                    'C17.R3',
                    f'{func_label(f)}|accepted-section-documented:{k}',
                    loc(f, f.node),
                    f'init accepts the documented encryption section {k!r}',
                    f'init accepts an `encryption.{k}` section that the documentation does not offer (documented: {sorted(documented)}): its adapter is built from user input but never exercised before the config upload, '
                    'so e.g. invalid parameters are accepted, the repository is created and every later snapshot fails',
                )
    consumers = [corpus.method(cls, '_make_config'), corpus.method(cls, '_make_key')]
    read = set()
    for c in consumers:
        for x in calls_in(c.node):
            if isinstance(x.func, ast.Attribute) and x.func.attr == 'get' and x.args and isinstance(x.args[0], ast.Constant):
                read.add(x.args[0].value)
    ctx.floor('C17.R3', 'validator-allowed settings keys', len(allowed), 5)
    for f, k in allowed:
        ctx.check(k in read, 'C17.R3', f'{func_label(f)}|allowed-key-consumed:{k}', loc(f, f.node), f'settings key {k!r} allowed by {f.name} is consumed by _make_config/_make_key', f'settings key {k!r} is accepted by {f.name} but never read: the setting is silently ignored')
    fc = corpus.module('adapters').functions.get('from_config')
    if fc is None:
        raise AnalysisError('C17.R3: adapters.from_config missing')
    ctx.analysed(fc)
    binds = [c for c in calls_in(fc.node) if isinstance(c.func, ast.Attribute) and c.func.attr in ('bind', 'bind_partial')]
    okb = len(binds) == 1 and binds[0].func.attr == 'bind' and any(isinstance(k.value, ast.Name) and k.arg is None for k in binds[0].keywords)
    conv = False
    for t in walk_local(fc.node):
        if isinstance(t, ast.Try) and any(is_within(binds[0], s) for s in t.body) if binds else False:
            for h in t.handlers:
                if (dotted(h.type) if h.type is not None else '') == 'TypeError' and body_always_raises(h.body) and 'ReplicatError' in src(h.body[0]):
                    conv = True
    ctx.check(okb and conv, 'C17.R3', f'{func_label(fc)}|strict-binding', loc(fc, fc.node), 'from_config binds the settings with Signature.bind(**kwargs) and turns a mismatch into ReplicatError (unknown / missing entries are refused)', 'from_config no longer refuses unknown or missing adapter arguments with ReplicatError (bind_partial / dropped handler)')
    lk = any(isinstance(t, ast.Try) and any((dotted(h.type) if h.type is not None else '') == 'KeyError' and body_always_raises(h.body) for h in t.handlers) for t in walk_local(fc.node))
    ctx.check(lk, 'C17.R3', f'{func_label(fc)}|unknown-adapter-refused', loc(fc, fc.node), 'an unknown adapter name is refused', 'an unknown adapter name is not refused')
    # _validate_settings refuses extra keys and wrong types
    vs = corpus.method(cls, '_validate_settings')
    raises = [r for r in ast.walk(vs.node) if isinstance(r, ast.Raise)]
    ctx.check(len(raises) >= 2, 'C17.R3', f'{func_label(vs)}|validator-raises', loc(vs, vs.node), '_validate_settings refuses unrecognised keys and wrongly typed values', '_validate_settings no longer refuses unrecognised keys / wrong types')


def r4_unlock_from_stored(ctx):
    corpus = ctx.corpus
    fn = corpus.func('repository', 'Repository.unlock')
    ctx.analysed(fn)
    ev = Evaluator(corpus, modes={}, depth=6, nonnull={'password', 'key'})
    ev.run(fn)
    t = ev.entry_env.vars.get('self.props')
    if t is None:
        raise AnalysisError('C17.R4: unlock does not assign self.props')
    stale = contains(t, lambda y: y[0] == 'attr' and y[2] == 'props' and y[1][0] == 'self')
    from_cfg = contains(t, lambda y: y == ('const', 'config')) and contains(t, lambda y: y[0] == 'call' and y[1][0] == 'attr' and y[1][2] == 'download')
    elsewhere = find(t, lambda y: y[0] == 'call' and ((y[1][0] == 'attr' and y[1][2] in ('read_bytes', 'read_text', 'read', 'open', '_get_cached')) or y[1] == ('name', 'open')))
    ctx.check(
        not elsewhere,
        'C17.R4',
        f'{func_label(fn)}|config-only-from-backend',
        loc(fn, fn.node),
        'unlock takes the repository config from the backend only',
        f'unlock can take the config from somewhere else than the repository ({show(elsewhere[0], limit=80) if elsewhere else ""}): a copy that belongs to another repository / an older state decides whether (and how) data is encrypted',
    )
    ctx.check(
        from_cfg and not stale,
        'C17.R4',
        f'{func_label(fn)}|props-from-stored-config',
        loc(fn, fn.node),
        "unlock builds props from backend.download('config') and the password / key arguments only",
        'unlock reuses previous instance state (self.props) or does not read the stored config: a fresh process would behave differently from the process that ran init',
    )


def r5_new_key(ctx):
    from .c06 import r5_key_material

    r5_key_material_rule = r5_key_material
    # report under C17 ids by temporarily wrapping ctx
    class _Proxy:
        def __init__(self, c):
            self._c = c

        def __getattr__(self, n):
            return getattr(self._c, n)

        def ok(self, rule, *a):
            return self._c.ok('C17.R5', *a)

        def fail(self, rule, *a, **k):
            return self._c.fail('C17.R5', *a, **k)

        def check(self, cond, rule, *a, **k):
            return self._c.check(cond, 'C17.R5', *a, **k)

        def floor(self, rule, *a):
            return self._c.floor('C17.R5', *a)

    r5_key_material_rule(_Proxy(ctx))
    # clone mode: the CLI passes the caller's password as the new password
    mn = next((f for f in ctx.corpus.module('main').all_functions if any((dotted(c.func) or '').endswith('.add_key') for c in calls_in(f.node))), None)
    if mn is None:
        raise AnalysisError('C17.R5: no function of __main__ calls Repository.add_key')
    ok = False
    for c in calls_in(mn.node):
        if (dotted(c.func) or '').endswith('add_key'):
            pw = kwarg(c, 'password')
            pw = deref_at(mn.node, pw) if pw is not None else None
            if isinstance(pw, ast.IfExp):
                t, when_clone, otherwise = pw.test, pw.body, pw.orelse
                if isinstance(t, ast.UnaryOp) and isinstance(t.op, ast.Not):
                    t, when_clone, otherwise = t.operand, otherwise, when_clone
                t = deref_at(mn.node, t)
                ok = isinstance(t, ast.Attribute) and t.attr == 'clone' and isinstance(when_clone, ast.Attribute) and when_clone.attr == 'password' and isinstance(otherwise, ast.Attribute) and otherwise.attr == 'new_password' and dotted(when_clone.value) == dotted(otherwise.value) == dotted(t.value)
    ctx.check(ok, 'C17.R5', f'{func_label(mn)}|clone-uses-own-password', loc(mn, mn.node), 'CLI add-key: the new key takes --new-password, or the caller\'s password in clone mode', 'CLI add-key: the password handed to add_key is not (new password | own password when cloning)')


def r6_kdf_passthrough(ctx):
    corpus = ctx.corpus
    ad = corpus.module('adapters')
    base = ad.classes.get('KDFAdapter')
    n = 0
    for ci in ad.classes.values():
        if base in corpus.mro(ci) and ci is not base and 'derive' in ci.methods:
            f = ci.methods['derive']
            ctx.analysed(f)
            n += 1
            km = f.node.args.args[1].arg
            ev = Evaluator(corpus, depth=2)
            r = strip_sites(ev.run(f))
            # the key material parameter reaches the primitive unchanged
            raw = contains(r, lambda y: y == ('param', km))
            transformed = [x for x in walk(r) if x[0] in ('sub', 'call') and x != r and ((x[0] == 'sub' and x[1] == ('param', km)) or (x[0] == 'call' and x[1][0] == 'attr' and x[1][1] == ('param', km)))]
            ctx.check(
                raw and not transformed,
                'C17.R6',
                f'{func_label(f)}|key-material-unchanged',
                loc(f, f.node),
                f'{ci.name}.derive hands the key material to the primitive unchanged',
                f'{ci.name}.derive transforms the key material ({show(transformed[0], limit=80) if transformed else "not passed"}) before deriving: different passwords / keys can yield the same derived key',
            )
            # params and context are used
            for pn in ('params', 'context'):
                ctx.check(contains(r, lambda y: y == ('param', pn)), 'C17.R6', f'{func_label(f)}|uses:{pn}', loc(f, f.node), f'{ci.name}.derive uses `{pn}`', f'{ci.name}.derive ignores `{pn}`')
    ctx.floor('C17.R6', 'KDF adapters', n, 2)
    # nonce layout agreement (an accepted nonce size must yield a key that unlocks)
    from .c14 import r7_nonce_layout

    class _P:
        def __init__(self, c):
            self._c = c

        def __getattr__(self, nme):
            return getattr(self._c, nme)

        def check(self, cond, rule, *a, **k):
            return self._c.check(cond, 'C17.R6', *a, **k)

        def floor(self, rule, *a):
            return self._c.floor('C17.R6', *a)

    r7_nonce_layout(_P(ctx))


def r7_emitted_key_encrypted(ctx):
    """The key that is emitted (file AND stdout) is the one whose private section was encrypted
    under the new password (otherwise the saved key unlocks with any password)."""
    from .c05 import taint
    from ..terms import contains as _contains

    corpus = ctx.corpus
    n = 0
    for cmd, variants in (('init', [{}]), ('add_key', [{'shared': True}, {'shared': False}])):
        fn = corpus.func('repository', f'Repository.{cmd}')
        for extra in variants:
            modes = {'encrypted': True}
            modes.update(extra)
            ev = evaluate(corpus, fn, modes=modes, depth=7, nonnull={'password'})
            for e in ev.events:
                sink = None
                if e.method in ('write_bytes', 'write_text', 'write') and e.receiver is not None and _contains(e.receiver, lambda y: y == ('param', 'key_output_path')):
                    sink = ('key file', e.args[0] if e.args else None)
                elif e.callee == ('name', 'print') and e.args and e.func is not None and e.func.name in ('init', '_add_key', 'add_key') and _contains(e.args[0], lambda y: y == ('const', 'private') or y == ('const', 'kdf_params')):
                    sink = ('stdout', e.args[0])
                if sink is None or sink[1] is None:
                    continue
                n += 1
                r = taint(sink[1])
                ctx.check(
                    r is None,
                    'C17.R5',
                    f'{func_label(e.func)}|emitted-key-is-the-encrypted-key:{sink[0]}',
                    e.loc,
                    f'{cmd}{extra or ""}: the key emitted to {sink[0]} has its private section encrypted under the new password',
                    f'{cmd}: the key emitted to {sink[0]} carries an unencrypted private section ({r[0] if r else ""}): saved to a file it unlocks the repository with ANY password',
                )
    ctx.floor('C17.R5', 'key emission sinks', n, 4)


def r9_unlock_refuses_only_missing_inputs(ctx):
    """unlock accepts every (password, key) pair that init / add-key can produce: its own refusals concern only a MISSING
    password or key (None tests on the two parameters); whether the pair is right is decided by the authenticated
    decryption inside _instantiate_key.  A refusal that looks at sizes / fields of the key locks out configurations
    the writers accept (another KDF, another salt length)."""
    corpus = ctx.corpus
    un = corpus.func('repository', 'Repository.unlock')
    ctx.analysed(un)
    a = un.node.args
    params = {x.arg for x in a.posonlyargs + a.args + a.kwonlyargs} - {'self'}
    n = 0
    for r in walk_local(un.node):
        if not isinstance(r, ast.Raise):
            continue
        n += 1
        guards = [g for g in ancestors(r) if isinstance(g, ast.If)]
        ok = bool(guards)
        why = 'unconditional raise'
        for g in guards:
            t = g.test
            atoms = t.values if isinstance(t, ast.BoolOp) else [t]
            for at in atoms:
                while isinstance(at, ast.UnaryOp) and isinstance(at.op, ast.Not):
                    at = at.operand
                if isinstance(at, ast.Attribute) and at.attr == 'encrypted':
                    continue
                none_test = isinstance(at, ast.Compare) and len(at.ops) == 1 and isinstance(at.ops[0], (ast.Is, ast.IsNot)) and isinstance(at.comparators[0], ast.Constant) and at.comparators[0].value is None and isinstance(at.left, ast.Name) and at.left.id in params
                if not none_test:
                    ok = False
                    why = f'`{src(g.test, 70)}`'
        ctx.check(
            ok,
            'C17.R5',
            f'{func_label(un)}|unlock-refuses-only-missing-inputs',
            loc(un, r),
            'unlock: refuses only when the password or the key is missing (None)',
            f'unlock: refuses on {why}: a key that init / add-key wrote for an accepted configuration (another KDF, salt length, cipher) may never unlock again',
        )
    ctx.floor('C17.R5', 'refusals in unlock', n)


def r11_kdf_lengths_follow_cipher(ctx):
    """Keys derived for the cipher have the cipher's key size: every KDF that _make_key configures with a `length`
    takes it from `<cipher>.key_bytes` (the adapter the config selected), not from a constant - otherwise every
    configuration with another key size than the constant writes a key that cannot encrypt anything."""
    corpus = ctx.corpus
    mk = corpus.method(repo_cls(corpus), '_make_key')
    if mk is None:
        raise AnalysisError('C17.R10: Repository._make_key missing')
    ctx.analysed(mk)
    cipher_params = {x.arg for x in mk.node.args.kwonlyargs + mk.node.args.args if 'cipher' in x.arg}
    n = 0
    for c in calls_in(mk.node):
        if not (dotted(c.func) or '').endswith('from_config'):
            continue
        ln = kwarg(c, 'length')
        # KDF configurations are the ones that get a length; the MAC has its own fixed size
        tgt = enclosing_stmt(c)
        names = [t.id for t in tgt.targets[0].elts] if isinstance(tgt, ast.Assign) and isinstance(tgt.targets[0], ast.Tuple) and all(isinstance(t, ast.Name) for t in tgt.targets[0].elts) else []
        is_kdf = any('kdf' in x.lower() for x in names) or any(isinstance(k.value, ast.Name) and 'kdf' in k.value.id.lower() for k in c.keywords if k.arg is None) or any(isinstance(k.value, ast.Attribute) and 'KDF' in k.value.attr for k in c.keywords)
        if not is_kdf:
            continue
        n += 1
        ok = isinstance(ln, ast.Attribute) and ln.attr == 'key_bytes' and isinstance(ln.value, ast.Name) and ln.value.id in cipher_params
        if not ok and isinstance(ln, ast.Attribute) and ln.attr == 'key_bytes':
            # ... or the cipher taken from a parameter object (`props.cipher`), directly or through a local
            all_params = {x.arg for x in mk.node.args.kwonlyargs + mk.node.args.args}
            base = ln.value
            if isinstance(base, ast.Name) and base.id not in all_params:
                base = deref_at(mk.node, base)
            ok = isinstance(base, ast.Attribute) and base.attr == 'cipher' and isinstance(base.value, ast.Name) and base.value.id in all_params - {'self'}
        ctx.check(
            ok,
            'C17.R10',
            f'{func_label(mk)}|kdf-length-is-cipher-key-size',
            loc(mk, c),
            '_make_key: the KDF is configured with length=<cipher>.key_bytes',
            f'_make_key: a KDF is configured with length `{src(ln, 30) if ln is not None else "<default>"}` instead of the key size of the configured cipher: with a cipher of another key size (AES-128/192) the derived keys do not fit - '
            'init and unlock succeed, every snapshot fails',
        )
    ctx.floor('C17.R10', 'KDF configurations in _make_key', n, 2)


def r10_adapter_prototypes_not_shared(ctx):
    """An adapter object serves every call of a session (and concurrent streams): a mutable hashing context kept on it
    is only ever used through a fresh `.copy()`.  Handing the kept context itself to a caller lets the first stream
    change what every later digest is computed from."""
    corpus = ctx.corpus
    mod = corpus.module('adapters')
    n = 0
    for ci in mod.classes.values():
        init = ci.methods.get('__init__')
        if init is None:
            continue
        protos = set()
        for st in walk_local(init.node):
            if isinstance(st, ast.Assign) and isinstance(st.value, ast.Call):
                v = st.value
                is_ctx = isinstance(v.func, ast.Call) and (dotted(v.func.func) or '') == 'getattr' and v.func.args and (dotted(v.func.args[0]) or '') == 'hashlib'
                is_ctx = is_ctx or (dotted(v.func) or '').startswith('hashlib.')
                if is_ctx:
                    protos |= {t.attr for t in st.targets if isinstance(t, ast.Attribute) and isinstance(t.value, ast.Name) and t.value.id == 'self'}
        for attr in sorted(protos):
            for m in ci.methods.values():
                if m is init:
                    continue
                for u in ast.walk(m.node):
                    if isinstance(u, ast.Attribute) and u.attr == attr and isinstance(u.value, ast.Name) and u.value.id == 'self':
                        n += 1
                        ctx.analysed(m)
                        par = getattr(u, '_parent', None)
                        ok = isinstance(par, ast.Attribute) and par.value is u and par.attr in ('copy', 'digest_size', 'block_size', 'name')
                        ctx.check(
                            ok,
                            'C17.R9',
                            f'{func_label(m)}|kept-context-used-through-copy:{attr}',
                            loc(m, u),
                            f'{ci.name}.{m.name}: the kept hashing context `self.{attr}` is used through .copy()',
                            f'{ci.name}.{m.name}: the hashing context kept on the adapter (`self.{attr}`) is used / handed out itself, not a copy: the first stream fed through it changes every digest computed '
                            'afterwards (snapshots written with this hasher are reported corrupted on restore)',
                        )
    ctx.count('kept_hash_contexts_uses', n)


def run(ctx):
    r2b_chunker_lengths_positive(ctx)
    # a key that init / add-key accepted and wrote must unlock the repository again: unlock applies the same acceptance
    # test to (password, key) as the writers (None only), and the user key is KDF(password, the key's OWN kdf_params) -
    # never a value remembered from another key
    from ..report import Relabel as _RL17
    from .c06 import r1_unlock

    r1_unlock(_RL17(ctx, 'C17.R5'))
    r9_unlock_refuses_only_missing_inputs(ctx)
    r10_adapter_prototypes_not_shared(ctx)
    r11_kdf_lengths_follow_cipher(ctx)
    # what was written under an accepted configuration is found again under it: the loader drops a listed snapshot only for
    # the user filter or a foreign tag - no condition that depends on digest / tag sizes, i.e. on the chosen hash or MAC
    from .c02 import r3_skip_whitelist

    r3_skip_whitelist(_RL17(ctx, 'C17.R2'))
    from ..report import Relabel
    from .c10 import r4_prefix, r3_stateless

    # every accepted chunker bound must yield a usable repository: the adapter's
    # emit/remove discipline is what makes out-of-range cut values harmless
    r4_prefix(Relabel(ctx, 'C17.R8'))
    r3_stateless(Relabel(ctx, 'C17.R8'))
    r7_emitted_key_encrypted(ctx)
    r1_validate_before_upload(ctx)
    r2_parameters(ctx)
    r3_validator_consumers(ctx)
    r4_unlock_from_stored(ctx)
    r5_new_key(ctx)
    r6_kdf_passthrough(ctx)
