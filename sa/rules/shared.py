"""Rules shared by several properties (each property reports them under its own
rule id)."""
from __future__ import annotations

import ast

from ..astutil import (
    ancestors,
    calls_in,
    dotted,
    enclosing_stmt,
    handler_catches,
    handler_reraises,
    is_catch_all,
    kwarg,
    src,
    walk_local,
)
from ..loader import FuncInfo
from .common import MAINT, TRANSFER, backend_refs, func_label, is_backend_ref, loc, reaches, repo_cls

# Exception classes that a handler may absorb around backend work without
# hiding a backend fault: none.  (FileNotFoundError/OSError can come from the
# local backend, ReplicatError from verification.)  Registered exceptions would
# be listed here with a one-line reason.
REGISTERED_SWALLOW = {}


def no_swallowed_backend_errors(ctx, rule, scope_pred=None, what='backend'):
    """Every `try` in Repository whose body reaches a backend transfer reference:
    each handler re-raises on all of its paths."""
    corpus = ctx.corpus
    cls = repo_cls(corpus)
    n_try = 0
    n_reach = 0
    for f in list(cls.methods.values()) + [n for m in cls.methods.values() for n in m.all_nested()]:
        if scope_pred is not None and not scope_pred(f):
            continue
        ctx.analysed(f)
        for t in walk_local(f.node):
            if not isinstance(t, ast.Try) or not t.handlers:
                continue
            n_try += 1
            if not _body_reaches_backend(corpus, f, t.body):
                continue
            n_reach += 1
            for h in t.handlers:
                if handler_reraises(h):
                    ctx.ok(rule, loc(f, h), f'handler ({", ".join(handler_catches(h)) or "bare"}) around {what} work re-raises [{f.qual}]')
                else:
                    ctx.fail(
                        rule,
                        f'{func_label(f)}|swallow:{",".join(handler_catches(h)) or "bare"}',
                        loc(f, h),
                        f'handler `except {", ".join(handler_catches(h)) or ""}` in {f.qual} absorbs an exception raised by {what} work '
                        f'(the try body reaches a backend call) and does not re-raise: a failed transfer is reported as success',
                        [f'try at {loc(f, t)}; body: {src(t.body[0], 90)}'],
                    )
    ctx.count('try_blocks_scanned', n_try)
    ctx.count('try_blocks_reaching_backend', n_reach)
    return n_reach


def handlers_use_bound_names(ctx, rule, funcs, what):
    """An exception handler (or finally block) that cleans up after a failed attempt runs whatever statement of the try
    body failed - including the first.  A local it reads must therefore be bound BEFORE the try: if the try body itself
    binds it (`temp = make_temp()` moved inside the try), a failure of that very statement makes the handler raise
    UnboundLocalError, which replaces the real error - and, in a retried function, ends the retry loop."""
    import builtins
    from ..cfg import reaching_defs

    n = 0
    for f in funcs:
        a = f.node.args
        params = {x.arg for x in a.posonlyargs + a.args + a.kwonlyargs} | ({a.vararg.arg} if a.vararg else set()) | ({a.kwarg.arg} if a.kwarg else set())
        local_names = {x.id for x in walk_local(f.node) if isinstance(x, ast.Name) and isinstance(x.ctx, ast.Store)}
        for t in walk_local(f.node):
            if not isinstance(t, ast.Try):
                continue
            blocks = [(h, h.body) for h in t.handlers] + ([(t, t.finalbody)] if t.finalbody else [])
            for owner, body in blocks:
                seen = set()
                for st in body:
                    for u in ast.walk(st):
                        if not (isinstance(u, ast.Name) and isinstance(u.ctx, ast.Load)) or u.id in seen:
                            continue
                        if u.id in params or u.id not in local_names or hasattr(builtins, u.id):
                            continue
                        if isinstance(owner, ast.ExceptHandler) and owner.name == u.id:
                            continue
                        # only names the try body binds are of interest
                        binds_in_try = any(isinstance(x, ast.Name) and x.id == u.id and isinstance(x.ctx, ast.Store) for b in t.body for x in ast.walk(b))
                        if not binds_in_try:
                            continue
                        seen.add(u.id)
                        n += 1
                        rd = reaching_defs(f.node, u) or []
                        ctx.check(
                            'entry' not in rd,
                            rule,
                            f'{func_label(f)}|cleanup-reads-bound-names:{u.id}',
                            loc(f, u),
                            f'{what}: `{u.id}` is bound on every path into the clean-up code that reads it',
                            f'{what}: the clean-up code of {f.qual} reads `{u.id}`, which the try body itself binds: when the binding statement (or one before it) fails, the handler raises UnboundLocalError '
                            'instead of re-raising the real error - a transient fault at that point is not retried',
                        )
    ctx.count('cleanup_reads_of_try_bound_names', n)
    return n


def late_binding_closures(ctx, rule, funcs, what):
    """A lambda / nested function created inside a loop that refers to the loop variable and outlives the iteration (it is
    stored or handed on, not called on the spot) sees the variable's LAST value when it finally runs: every closure made
    by the loop then acts on the last item (three listing columns all showing the last field)."""
    n = 0
    for f in funcs:
        for lp in walk_local(f.node):
            if not isinstance(lp, (ast.For, ast.AsyncFor)):
                continue
            tnames = {x.id for x in ast.walk(lp.target) if isinstance(x, ast.Name)}
            for st in lp.body:
                for c in ast.walk(st):
                    if not isinstance(c, (ast.Lambda, ast.FunctionDef, ast.AsyncFunctionDef)):
                        continue
                    a = c.args
                    bound = {x.arg for x in a.posonlyargs + a.args + a.kwonlyargs} | ({a.vararg.arg} if a.vararg else set()) | ({a.kwarg.arg} if a.kwarg else set())
                    body = [c.body] if isinstance(c, ast.Lambda) else c.body
                    free = {x.id for b in body for x in ast.walk(b) if isinstance(x, ast.Name) and isinstance(x.ctx, ast.Load)} - bound
                    hit = free & tnames
                    if not hit:
                        continue
                    n += 1
                    par = getattr(c, '_parent', None)
                    called_now = isinstance(par, ast.Call) and par.func is c
                    # handed to something that consumes it within the iteration (sorted(key=..), map/filter consumed at once, max/min)
                    consumed = isinstance(par, (ast.Call, ast.keyword)) and not called_now and any((dotted(getattr(p2, 'func', None)) or '') in ('sorted', 'max', 'min', 'any', 'all', 'sum', 'list', 'tuple', 'set') or (isinstance(getattr(p2, 'func', None), ast.Attribute) and p2.func.attr == 'sort') for p2 in [par if isinstance(par, ast.Call) else getattr(par, '_parent', None)] if p2 is not None)
                    ctx.check(
                        called_now or consumed,
                        rule,
                        f'{func_label(f)}|no-late-binding-closure:{",".join(sorted(hit))}',
                        loc(f, c),
                        f'{what}: the closure over `{", ".join(sorted(hit))}` is consumed within its iteration',
                        f'{what}: a function created in the loop at line {lp.lineno} refers to the loop variable `{", ".join(sorted(hit))}` and is kept for later: when it runs, the variable holds the LAST item - '
                        'every closure made by the loop behaves like the last one (e.g. all time columns show the same metadata field)',
                    )
    ctx.count('closures_over_loop_variables', n)
    return n


def no_swallowed_source_errors(ctx, rule):
    """The stream producer of snapshot() either streams a collected file completely or fails the snapshot: a handler
    around opening / reading a source file that does not re-raise leaves a registered file without content, digest
    and metadata in the stored snapshot."""
    from .common import stream_producers

    corpus = ctx.corpus
    snap = corpus.func('repository', 'Repository.snapshot')
    n = 0
    for p_ in stream_producers(snap):
        ctx.analysed(p_)
        for t in walk_local(p_.node):
            if not isinstance(t, ast.Try):
                continue
            touches_source = any(isinstance(c.func, ast.Attribute) and c.func.attr in ('open', 'read', 'readinto', 'fileno', 'stat') or (dotted(c.func) or '') in ('open', 'os.stat', 'os.fstat') or (dotted(c.func) or '').endswith('read_metadata') for st in t.body for c in ast.walk(st) if isinstance(c, ast.Call))
            if not touches_source:
                continue
            for h in t.handlers:
                n += 1
                ctx.check(
                    handler_reraises(h),
                    rule,
                    f'{func_label(p_)}|source-errors-propagate',
                    loc(p_, h),
                    f'{p_.qual}: the handler around reading a source file re-raises',
                    f'{p_.qual}: `except {", ".join(handler_catches(h)) or ""}` around opening / reading a source file does not re-raise: the file stays registered but is not streamed - the snapshot is '
                    'written with a record that has no content, digest or metadata (an independent reader cannot reconstruct it, restore fails on it)',
                )
    ctx.count('handlers_around_source_reads', n)
    return n


DELETING_COMMANDS = {'delete_snapshots', 'clean', 'delete_objects'}


def deletion_confined_to_gc_commands(ctx, rule):
    """Objects are removed from the repository by the three commands whose purpose that is.  No other command of
    Repository (snapshot, restore, the listings, init / unlock / add_key, upload / download-objects) reaches
    backend.delete / backend.clean - not for "rolling back" a failed run either: what such a command believes to be
    its own garbage may be a chunk an earlier snapshot (of any user) references."""
    corpus = ctx.corpus
    cls = repo_cls(corpus)

    def pred(n):
        return is_backend_ref(n, {'delete', 'clean'})

    n = 0
    for name, m in cls.methods.items():
        if name.startswith('_') or name in DELETING_COMMANDS:
            continue
        if not (m.is_async or name in ('init', 'unlock')):
            continue
        n += 1
        bad = reaches(corpus, m, pred, depth=6)
        if bad:
            ctx.analysed(m)
        ctx.check(
            not bad,
            rule,
            f'{func_label(m)}|command-does-not-delete',
            loc(m, m.node),
            f'{name}: cannot reach backend.delete / backend.clean',
            f'{name} can reach backend.delete (directly or through a helper): a command that is not delete / clean / delete-objects removes objects - e.g. "cleaning up" after a failed snapshot '
            'deletes chunks that already existed and are referenced by other snapshots',
        )
    ctx.floor(rule, 'non-deleting commands of Repository', n, 6)
    return n


def local_listing_errors_propagate(ctx, rule):
    """The file-system listing either reports every object under the prefix or raises.  A handler that absorbs an
    OSError may cover only the opening of the listing root (a missing area is an empty listing), never the walk below
    it; and the walk is not delegated to os.walk() without an `onerror` that raises (os.walk skips unreadable
    directories silently by default - CPython documentation)."""
    corpus = ctx.corpus
    from .backends import backend_classes

    funcs = []
    for ci in backend_classes(corpus):
        lf = ci.methods.get('list_files')
        if lf is not None and any((dotted(c.func) or '').startswith('os.') or (dotted(c.func) or '').endswith('iterative_scandir') for c in calls_in(lf.node)):
            funcs.append(lf)
            funcs += [m for m in ci.methods.values() if m is not lf and any(isinstance(a, ast.Attribute) and a.attr == m.name for a in ast.walk(lf.node))]
    fs = corpus.module('fs')
    funcs += [f for f in fs.all_functions if f.name in ('iterative_scandir',) or any(isinstance(y, (ast.Yield, ast.YieldFrom)) for y in walk_local(f.node))]
    ctx.floor(rule, 'file-system listing functions', len(funcs), 2)
    n = 0
    for f in funcs:
        ctx.analysed(f)
        for c in calls_in(f.node):
            if (dotted(c.func) or '') in ('os.walk', 'walk', 'os.fwalk'):
                n += 1
                oe = kwarg(c, 'onerror')
                ok = oe is not None and not (isinstance(oe, ast.Constant) and oe.value is None)
                ctx.check(ok, rule, f'{func_label(f)}|walk-reports-errors', loc(f, c), f'{f.qual}: os.walk is given an onerror callback', f'{f.qual}: `{src(c, 60)}` has no onerror callback: a directory that cannot be listed (I/O error, permissions) is skipped silently, the listing is incomplete without anyone noticing - '
                          'snapshots / chunks under it look absent (their chunks are then unreferenced and removed, or orphans are never cleaned)')
        for t in walk_local(f.node):
            if not isinstance(t, ast.Try):
                continue
            for h in t.handlers:
                catches = set(handler_catches(h))
                if handler_reraises(h) or not (not catches or catches & {'OSError', 'Exception', 'BaseException', 'IOError', 'EnvironmentError', 'PermissionError', 'FileNotFoundError', 'NotADirectoryError'}):
                    continue
                n += 1
                narrow = catches and catches <= {'FileNotFoundError', 'NotADirectoryError'}
                walks = [x for st in t.body for x in ast.walk(st) if isinstance(x, (ast.For, ast.AsyncFor, ast.While, ast.Yield, ast.YieldFrom, ast.With, ast.ListComp, ast.GeneratorExp, ast.SetComp, ast.DictComp))]
                calls = [x for st in t.body for x in ast.walk(st) if isinstance(x, ast.Call)]
                ok = not walks and len(calls) <= 1
                ctx.check(
                    ok,
                    rule,
                    f'{func_label(f)}|absorbed-oserror-covers-only-the-root',
                    loc(f, h),
                    f'{f.qual}: the handler that absorbs {", ".join(sorted(catches)) or "everything"} covers only the opening of the listing root',
                    f'{f.qual}: `except {", ".join(sorted(catches))}` without re-raise encloses the walk over the listing (loops / yields in the try body): an I/O error in any sub-directory ends the listing early and silently - '
                    'live objects look absent (clean / delete then remove chunks that are still referenced, or leave orphans)',
                )
    return n


def _body_reaches_backend(corpus, f: FuncInfo, stmts) -> bool:
    methods = TRANSFER | MAINT | {'list_files'}

    def pred(n):
        return is_backend_ref(n, methods)

    cls = f.cls
    for st in stmts:
        for n in walk_local(st):
            if pred(n):
                return True
            tgt = None
            if isinstance(n, ast.Attribute) and isinstance(n.value, ast.Name) and n.value.id == 'self' and cls is not None:
                tgt = corpus.method(cls, n.attr)
            elif isinstance(n, ast.Name):
                cur = f
                while cur is not None and tgt is None:
                    tgt = cur.nested.get(n.id)
                    cur = cur.parent
            if tgt is not None and tgt is not f and reaches(corpus, tgt, pred, depth=4):
                return True
    return False


def gathers_propagate(ctx, rule, module_short='repository'):
    """No asyncio.gather(..., return_exceptions=<truthy>) in the module."""
    m = ctx.corpus.module(module_short)
    n = 0
    for f in m.all_functions:
        for c in calls_in(f.node, local=True):
            if dotted(c.func) in ('asyncio.gather', 'gather'):
                n += 1
                kw = kwarg(c, 'return_exceptions')
                bad = kw is not None and not (isinstance(kw, ast.Constant) and not kw.value)
                if bad:
                    ctx.fail(
                        rule,
                        f'{func_label(f)}|gather-return-exceptions',
                        loc(f, c),
                        f'asyncio.gather(..., return_exceptions={src(kw)}) in {f.qual}: failures of the gathered backend work are returned, not raised',
                    )
                else:
                    ctx.ok(rule, loc(f, c), f'gather propagates exceptions [{f.qual}]')
    ctx.count('gathers', n)
    # asyncio.wait / concurrent.futures.wait hand back (done, pending) and never raise for a failed member: the failures
    # live in the `done` futures until somebody asks for their result.  Dropping `done` drops the failures.
    for f in m.all_functions:
        for c in calls_in(f.node, local=True):
            if dotted(c.func) in ('asyncio.wait', 'concurrent.futures.wait', 'futures.wait', 'wait') and c.args:
                n += 1
                st = enclosing_stmt(c)
                done_name = None
                if isinstance(st, ast.Assign) and len(st.targets) == 1 and isinstance(st.targets[0], ast.Tuple) and len(st.targets[0].elts) == 2 and isinstance(st.targets[0].elts[0], ast.Name):
                    done_name = st.targets[0].elts[0].id
                elif isinstance(st, ast.Assign) and len(st.targets) == 1 and isinstance(st.targets[0], ast.Name):
                    done_name = st.targets[0].id
                observed = False
                if done_name and done_name != '_':
                    for x in walk_local(f.node):
                        if isinstance(x, (ast.For, ast.AsyncFor)) and any(isinstance(y, ast.Name) and y.id == done_name for y in ast.walk(x.iter)) and any(isinstance(y, ast.Await) or (isinstance(y, ast.Call) and isinstance(y.func, ast.Attribute) and y.func.attr in ('result', 'exception')) for y in ast.walk(x)):
                            observed = True
                        if isinstance(x, ast.Call) and dotted(x.func) in ('asyncio.gather', 'gather') and any(isinstance(y, ast.Name) and y.id == done_name for a_ in x.args for y in ast.walk(a_)):
                            observed = True
                # the waited collection itself may be kept whole and gathered later (then nothing is lost)
                waited = c.args[0]
                kept = False
                if isinstance(waited, ast.Name):
                    rebinds = [a_ for a_ in walk_local(f.node) if isinstance(a_, ast.Assign) and any(isinstance(y, ast.Name) and y.id == waited.id and isinstance(y.ctx, ast.Store) for t in a_.targets for y in ast.walk(t)) and any(c is y for y in ast.walk(a_.value))]
                    shrinks = [x for x in walk_local(f.node) if isinstance(x, ast.Call) and isinstance(x.func, ast.Attribute) and isinstance(x.func.value, ast.Name) and x.func.value.id == waited.id and x.func.attr in ('discard', 'remove', 'pop', 'clear', 'difference_update')]
                    later = any(isinstance(x, ast.Call) and dotted(x.func) in ('asyncio.gather', 'gather') and any(isinstance(y, ast.Name) and y.id == waited.id for a_ in x.args for y in ast.walk(a_)) for x in walk_local(f.node))
                    kept = later and not rebinds and not shrinks
                ctx.check(
                    observed or kept,
                    rule,
                    f'{func_label(f)}|wait-observes-done',
                    loc(f, c),
                    f'{f.qual}: the futures that `{src(c, 50)}` reports as done have their results retrieved',
                    f'{f.qual}: the completed futures returned by `{src(c, 50)}` are dropped (`{src(st, 70)}`): an exception raised by one of them (a failed download, a digest mismatch) is never '
                    'retrieved - the command reports success although part of the work failed',
                )
    return n


def control_gather_flag():
    """Positive control for the expected-zero rule: the matcher must fire on a
    tiny known-bad sample."""
    sample = 'import asyncio\nasync def f(xs):\n    await asyncio.gather(*xs, return_exceptions=True)\n'
    tree = ast.parse(sample)
    for c in ast.walk(tree):
        if isinstance(c, ast.Call) and dotted(c.func) == 'asyncio.gather':
            kw = kwarg(c, 'return_exceptions')
            return kw is not None and not (isinstance(kw, ast.Constant) and not kw.value)
    return False


# ---- verify-before-decode (C04.R2 / C18.R1 / C18.R2) ------------------------
def _is_verify_test(test, var):
    """`<hash>(var) != <expected>` / `==`: returns 'ne' / 'eq' / None."""
    for c in ast.walk(test):
        if isinstance(c, ast.Compare) and len(c.ops) == 1 and isinstance(c.ops[0], (ast.NotEq, ast.Eq)):
            sides = [c.left, c.comparators[0]]
            for s in sides:
                if isinstance(s, ast.Call) and isinstance(s.func, ast.Attribute) and s.func.attr in ('hash_digest', 'digest') and len(s.args) == 1 and isinstance(s.args[0], ast.Name) and s.args[0].id == var:
                    return 'ne' if isinstance(c.ops[0], ast.NotEq) else 'eq'
    return None


def snapshot_bytes_verified(ctx, rule_src, rule_store, fi: FuncInfo, sources=('_get_cached', '_download_threadsafe', '_download'), sinks=('_decrypt_snapshot_body', 'deserialize'), stores=('_store_cached',)):
    """Path-sensitive typestate over the CFG of the snapshot loader: the byte
    string that reaches the decoder (and the cache store) passed the digest
    comparison on that path, whatever its source."""
    from ..cfg import cfg_of, enumerate_paths
    from .common import self_calls

    cfg = cfg_of(fi.node)
    sink_stmts, store_stmts = [], []
    # the tracked byte strings: locals that receive the result of a source (cache read / download) somewhere in the function
    tracked = set()
    for a in ast.walk(fi.node):
        if isinstance(a, ast.Assign) and any(True for _ in self_calls(a.value, set(sources))):
            tracked |= {t.id for t in a.targets if isinstance(t, ast.Name)}
        if isinstance(a, ast.Call) and isinstance(a.func, ast.Attribute) and a.func.attr == 'read_bytes':
            par = getattr(a, '_parent', None)
            if isinstance(par, ast.Assign):
                tracked |= {t.id for t in par.targets if isinstance(t, ast.Name)}
    for c in self_calls(fi.node, set(sinks)):
        if c.args and isinstance(c.args[0], ast.Name) and (c.args[0].id in tracked or not tracked):
            sink_stmts.append((enclosing_stmt(c), c.args[0].id, c))
    for c in self_calls(fi.node, set(stores)):
        if len(c.args) >= 2 and isinstance(c.args[1], ast.Name):
            store_stmts.append((enclosing_stmt(c), c.args[1].id, c))
    # the helper written out in place: <Path(cache_directory, ..)>.write_bytes(var)
    for c in ast.walk(fi.node):
        if isinstance(c, ast.Call) and isinstance(c.func, ast.Attribute) and c.func.attr == 'write_bytes' and len(c.args) == 1 and isinstance(c.args[0], ast.Name):
            store_stmts.append((enclosing_stmt(c), c.args[0].id, c))
    ctx.floor(rule_src, f'decoder call in {fi.qual}', len(sink_stmts))
    results = []
    for kind, stmts, rule in (('decode', sink_stmts, rule_src), ('store', store_stmts, rule_store)):
        for st, var, call in stmts:
            targets = cfg.nodes_of(st, 'stmt')
            tid = {id(t) for t in targets}
            try:
                paths = enumerate_paths(cfg, cfg.entry, lambda n: id(n) in tid or n.kind in ('exit', 'raise_exit'), max_paths=4000)
            except OverflowError:
                from ..loader import AnalysisError

                raise AnalysisError(f'{rule}: too many paths in {fi.qual}')
            bad = None
            n_paths = 0
            for p in paths:
                if id(p[-1]) not in tid:
                    continue
                n_paths += 1
                state = 'unset'
                for i, n in enumerate(p):
                    a = n.ast
                    if n.kind == 'ok' and isinstance(a, ast.Assign) and any(isinstance(t, ast.Name) and t.id == var for t in a.targets):
                        if isinstance(a.value, ast.Constant) and a.value.value is None:
                            state = 'none'
                        elif any(True for _ in self_calls(a.value, set(sources))):
                            state = 'unverified'
                        else:
                            state = 'unverified'
                    elif n.kind == 'stmt' and isinstance(a, ast.Assign) and not stmt_has_ok(cfg, a) and any(isinstance(t, ast.Name) and t.id == var for t in a.targets):
                        if isinstance(a.value, ast.Constant) and a.value.value is None:
                            state = 'none'
                        else:
                            state = 'unverified'
                    elif n.kind in ('true', 'false') and isinstance(a, ast.If) and _none_test(a.test, var) is not None:
                        is_none_edge = (_none_test(a.test, var) == 'is') == (n.kind == 'true')
                        if is_none_edge and state in ('unverified', 'verified'):
                            state = 'infeasible'
                            break
                        if not is_none_edge and state in ('none', 'unset'):
                            state = 'infeasible'
                            break
                    elif n.kind in ('true', 'false') and isinstance(a, ast.If):
                        v = _is_verify_test(a.test, var)
                        if v is not None and state == 'unverified':
                            # only a test that is not weakened by other conjuncts/disjuncts counts
                            plain = isinstance(a.test, ast.Compare)
                            # `var is not None and hash(var) != d` (false edge) / `var is None or hash(var) == d` (true edge): the extra
                            # operands only say that the bytes exist - which they do in state `unverified`
                            if isinstance(a.test, ast.BoolOp):
                                rest = [x for x in a.test.values if _is_verify_test(x, var) is None]
                                want = 'isnot' if isinstance(a.test.op, ast.And) else 'is'
                                shape = (isinstance(a.test.op, ast.And) and v == 'ne') or (isinstance(a.test.op, ast.Or) and v == 'eq')
                                plain = shape and all(_none_test(x, var) == want for x in rest) and sum(1 for x in a.test.values if _is_verify_test(x, var) is not None) == 1
                            if plain and ((v == 'ne' and n.kind == 'false') or (v == 'eq' and n.kind == 'true')):
                                state = 'verified'
                if state == 'infeasible':
                    n_paths -= 1
                    continue
                if state != 'verified':
                    bad = (p, state)
                    break
            ctx.count('paths_enumerated', n_paths)
            site = loc(fi, st)
            if bad is None and n_paths:
                ctx.ok(rule, site, f'{fi.qual}: on all {n_paths} paths the bytes handed to {"the decoder" if kind == "decode" else "the cache"} passed the digest comparison (cache and backend source alike)')
            else:
                p, state = bad if bad else ([], 'unreachable')
                ctx.fail(
                    rule,
                    f'{func_label(fi)}|{kind}-only-verified-bytes',
                    site,
                    f'{fi.qual}: snapshot bytes reach {"the decoder" if kind == "decode" else "the cache store"} without having passed the digest comparison on some path (state: {state}) '
                    '- a damaged, truncated or substituted object (or cache entry) is used as if it were the snapshot',
                    cfg.describe_path([n for n in p if n.kind in ('stmt', 'true', 'false', 'handler')][:16], fi.module),
                )
            results.append((kind, bad is None))
    return results


def _none_test(test, var):
    if isinstance(test, ast.Compare) and len(test.ops) == 1 and isinstance(test.left, ast.Name) and test.left.id == var:
        c = test.comparators[0]
        if isinstance(c, ast.Constant) and c.value is None:
            if isinstance(test.ops[0], ast.Is):
                return 'is'
            if isinstance(test.ops[0], ast.IsNot):
                return 'isnot'
    return None


def stmt_has_ok(cfg, stmt):
    return bool(cfg.nodes_of(stmt, 'ok'))


# ---- generic dataflow lints used by several properties --------------------------------------------
def _target_names(t):
    return {n.id for n in ast.walk(t) if isinstance(n, ast.Name)}


def stale_loop_variables(ctx, rule, funcs, what):
    """A loop / comprehension whose control variable is never used while its body reads the control variable of a
    *different* loop is iterating one collection and reading another's leftover element (B007 with a witness)."""
    from ..astutil import walk_local
    from .common import func_label, loc

    n = 0
    for f in funcs:
        loop_targets = {}
        for node in ast.walk(f.node):
            if isinstance(node, (ast.For, ast.AsyncFor)):
                for nm in _target_names(node.target):
                    loop_targets.setdefault(nm, []).append(node)
            elif isinstance(node, ast.comprehension):
                for nm in _target_names(node.target):
                    loop_targets.setdefault(nm, []).append(node)
        sites = []
        for node in ast.walk(f.node):
            if isinstance(node, (ast.For, ast.AsyncFor)):
                sites.append((node, _target_names(node.target), node.body, node))
            elif isinstance(node, (ast.ListComp, ast.SetComp, ast.GeneratorExp, ast.DictComp)):
                parts = [node.key, node.value] if isinstance(node, ast.DictComp) else [node.elt]
                for i, g in enumerate(node.generators):
                    rest = parts + [x for g2 in node.generators[i + 1 :] for x in [g2.iter] + g2.ifs] + g.ifs
                    sites.append((g, _target_names(g.target), rest, node))
        for g, targets, body, owner in sites:
            n += 1
            used = {x.id for b in body for x in ast.walk(b) if isinstance(x, ast.Name) and isinstance(x.ctx, ast.Load)}
            unused = {t for t in targets if not t.startswith('_') and t not in used}
            if not unused:
                continue
            # names read in the body that are control variables of other loops only (not bound here)
            bound_here = set()
            if not isinstance(g, ast.comprehension):
                bound_here = {x.id for b in body for x in ast.walk(b) if isinstance(x, ast.Name) and isinstance(x.ctx, ast.Store)}
            else:
                bound_here = {t for g2 in owner.generators for t in _target_names(g2.target)}
            stale = sorted(nm for nm in used if nm in loop_targets and nm not in bound_here and nm not in targets and all(lt is not g for lt in loop_targets[nm]))
            if stale and len(unused) == len([t for t in targets if not t.startswith('_')]):
                ctx.fail(
                    rule,
                    f'{func_label(f)}|loop-variable-unused:{sorted(unused)[0]}',
                    loc(f, owner),
                    f'{what}: the loop over `{src_(g)}` never uses its variable `{sorted(unused)[0]}` and reads `{stale[0]}`, the leftover variable of another loop: '
                    'every iteration processes the same stale element instead of the elements of this collection',
                )
    ctx.count('loops_checked_for_stale_variables', n)


def src_(g):
    from ..astutil import src

    return src(g.iter, 50) if hasattr(g, 'iter') else '?'


def values_fresh_in_iteration(ctx, rule, f, loop, use_stmt, names, what):
    """Each of `names` read by `use_stmt` inside `loop` is (re)defined on every path of the *current* iteration before
    the use - or is an accumulator updated in the loop.  Otherwise a value of an earlier iteration can be used."""
    from ..cfg import cfg_of
    from ..astutil import walk_local
    from .common import func_label, loc

    cfg = cfg_of(f.node)
    starts = cfg.nodes_of(loop, 'true')
    use_nodes = cfg.nodes_of(use_stmt, 'stmt')
    for nm in sorted(names):
        defs = []
        accumulator = False
        for n in walk_local(loop):
            if isinstance(n, ast.Name) and n.id == nm and isinstance(n.ctx, ast.Store):
                st = n
                while st is not None and not isinstance(st, ast.stmt):
                    st = getattr(st, '_parent', None)
                if isinstance(st, ast.AugAssign):
                    accumulator = True
                elif isinstance(st, ast.Assign) and any(isinstance(x, ast.Name) and x.id == nm and isinstance(x.ctx, ast.Load) for x in ast.walk(st.value)):
                    accumulator = True
                elif st is loop:
                    defs.append(('target', st))
                elif st is not None:
                    defs.append(('stmt', st))
        if accumulator or any(k == 'target' for k, _ in defs):
            continue
        if not defs:
            continue  # defined outside the loop: a constant of the loop
        dnodes = [x for _k, st in defs for x in (cfg.nodes_of(st, 'ok') or cfg.nodes_of(st, 'stmt'))]
        stale = None
        for s0 in starts:
            for u in use_nodes:
                stale = stale or cfg.path(s0, [u], avoid=dnodes, kinds=('normal',))
        ctx.check(
            stale is None,
            rule,
            f'{func_label(f)}|fresh-in-iteration:{nm}',
            loc(f, use_stmt),
            f'{what}: `{nm}` is computed in the current iteration on every path before it is used',
            f'{what}: `{nm}` is assigned only on some paths of the loop body, so the value computed for an EARLIER element can be used for the current one (stale value)',
            cfg.describe_path([x for x in (stale or []) if x.kind in ('stmt', 'true', 'false', 'test')][:8], f.module),
        )


def leftover_from_finished_loop(ctx, rule, funcs, what):
    """A local that is (re)assigned only inside a loop L, from L's current item, and is then read inside a *different*
    loop M that runs after L has finished holds whatever the LAST iteration of L left behind: every item of M is
    processed with the data of one (unrelated) item of L.  Decided with reaching definitions on the CFG."""
    from ..astutil import ancestors, enclosing_stmt, is_within, walk_local
    from ..cfg import reaching_defs
    from .common import func_label, loc

    n = 0
    for f in funcs:
        loops = [l for l in walk_local(f.node) if isinstance(l, (ast.For, ast.AsyncFor))]
        if len(loops) < 2:
            continue
        seen = set()
        for M in loops:
            for u in walk_local(M):
                if not (isinstance(u, ast.Name) and isinstance(u.ctx, ast.Load)) or u.id in seen:
                    continue
                if any(u is x for x in ast.walk(M.iter)):
                    continue
                # only names bound inside some other loop are candidates
                binders = [st for st in walk_local(f.node) if isinstance(st, ast.Assign) and any(isinstance(t, ast.Name) and t.id == u.id for t in st.targets)]
                if not binders:
                    continue
                outer = []
                for st in binders:
                    Ls = [a for a in ancestors(st) if isinstance(a, (ast.For, ast.AsyncFor)) and is_within(a, f.node)]
                    Ls = [L for L in Ls if not is_within(u, L)]
                    outer.append(Ls[0] if Ls else None)
                if any(L is None for L in outer):
                    continue
                rd = reaching_defs(f.node, u)
                a_ = f.node.args
                if u.id in {x.arg for x in a_.posonlyargs + a_.args + a_.kwonlyargs}:
                    continue
                # 'entry' stands for "unbound" here (the earlier loop ran zero times): not a definition
                rd = [d for d in (rd or []) if d != 'entry']
                if not rd or not all(any(d is b for b in binders) for d in rd):
                    continue
                n += 1
                bad = []
                for d in rd:
                    L = outer[[i for i, b in enumerate(binders) if b is d][0]]
                    tnames = {x.id for x in ast.walk(L.target) if isinstance(x, ast.Name)}
                    per_item = set(tnames)
                    # locals of L's body computed from its item count as the item too
                    for st in walk_local(L):
                        if isinstance(st, ast.Assign) and any(isinstance(x, ast.Name) and x.id in per_item for x in ast.walk(st.value)):
                            per_item |= {t.id for t in st.targets if isinstance(t, ast.Name)}
                    reads_item = any(isinstance(x, ast.Name) and x.id in per_item for x in ast.walk(d.value))
                    accum = any(isinstance(x, ast.Name) and x.id == u.id for x in ast.walk(d.value))
                    if reads_item and not accum:
                        bad.append((d, L))
                seen.add(u.id)
                ctx.check(
                    not bad,
                    rule,
                    f'{func_label(f)}|no-leftover-of-finished-loop:{u.id}',
                    loc(f, enclosing_stmt(u)),
                    f'{what}: `{u.id}` read in the loop at line {M.lineno} is not a leftover of an earlier loop',
                    f'{what}: `{u.id}` is assigned from the current item of the loop at line {bad[0][1].lineno if bad else 0} and read, after that loop has finished, for every item of the loop at line {M.lineno}: '
                    'all items are processed with the data of the LAST item of the earlier loop (e.g. the chunk table of another snapshot)',
                )
    return n


def file_digest_covers_stream(ctx, rule):
    """The digest recorded for a file is the repository hash of exactly the bytes streamed for it: the hasher is the
    repository's incremental hasher, and every block read is fed to it before it is yielded to the chunker."""
    from ..astutil import deref, dotted, enclosing_stmt, walk_local
    from ..cfg import cfg_of
    from .common import func_label, loc, stream_producers

    corpus = ctx.corpus
    snap = corpus.func('repository', 'Repository.snapshot')
    n = 0
    for p in stream_producers(snap):
        cfg = cfg_of(p.node)
        for a in walk_local(p.node):
            if not (isinstance(a, ast.Assign) and any(isinstance(t, ast.Attribute) and t.attr == 'digest' for t in a.targets) and isinstance(a.value, ast.Call) and isinstance(a.value.func, ast.Attribute) and isinstance(a.value.func.value, ast.Name)):
                continue
            n += 1
            H = a.value.func.value.id
            hdef = deref(p.node, a.value.func.value)
            feeds = [c for c in ast.walk(p.node) if isinstance(c, ast.Call) and isinstance(c.func, ast.Attribute) and c.func.attr in ('feed', 'update') and isinstance(c.func.value, ast.Name) and c.func.value.id == H]
            is_repo_hasher = isinstance(hdef, ast.Call) and (dotted(hdef.func) or '').endswith('incremental_hasher')
            if not is_repo_hasher:
                cname = dotted(hdef.func) if isinstance(hdef, ast.Call) else None
                ci = p.module.classes.get(cname) if cname else None
                ok_cls = False
                why = f'`{H}` is `{src_expr(hdef)}`, not the repository\'s incremental hasher'
                if ci is not None:
                    fm = ci.methods.get('feed') or ci.methods.get('update')
                    if fm is not None:
                        fcfg = cfg_of(fm.node)
                        prm = [x.arg for x in fm.node.args.posonlyargs + fm.node.args.args][1:]
                        inner = [enclosing_stmt(c) for c in ast.walk(fm.node) if isinstance(c, ast.Call) and isinstance(c.func, ast.Attribute) and c.func.attr in ('feed', 'update') and any(isinstance(x, ast.Name) and x.id in prm for y in c.args for x in ast.walk(y))]
                        nodes = [x for st in inner for x in fcfg.nodes_of(st, 'stmt')]
                        skip = fcfg.path(fcfg.entry, [fcfg.exit], avoid=nodes, kinds=('normal',)) if nodes else [fcfg.entry]
                        ok_cls = skip is None
                        why = f'`{cname}.{fm.name}` can return without passing the block to a hasher (line {fm.node.lineno}): the recorded digest does not cover every streamed block'
                ctx.check(ok_cls, rule, f'{func_label(p)}|file-digest-by-repository-hasher', loc(p, a), 'the file digest comes from a hasher that receives every block', f'file digest: {why} - the `digest` recorded in the snapshot is not the hash of the file\'s bytes (other readers of the format reject or mis-verify the file)')
            ctx.check(bool(feeds), rule, f'{func_label(p)}|file-digest-fed', loc(p, a), f'`{H}` is fed in the read loop', f'the hasher `{H}` whose digest is recorded for the file is never fed')
            # every yielded block was fed first
            for y in [y for y in walk_local(p.node) if isinstance(y, ast.Yield) and isinstance(y.value, ast.Name)]:
                fed = [enclosing_stmt(c) for c in feeds if any(isinstance(x, ast.Name) and x.id == y.value.id for x in ast.walk(c))]
                if not fed:
                    continue
                fnodes = [x for st in fed for x in cfg.nodes_of(st, 'ok') or cfg.nodes_of(st, 'stmt')]
                ynodes = cfg.nodes_of(enclosing_stmt(y), 'stmt')
                ctx.check(
                    all(cfg.set_dominates(fnodes, x) for x in ynodes),
                    rule,
                    f'{func_label(p)}|block-hashed-before-yield',
                    loc(p, enclosing_stmt(y)),
                    f'every block `{y.value.id}` handed to the chunker has been fed to the file hasher',
                    f'a block `{y.value.id}` can be handed to the chunker without having been fed to the file hasher: the recorded file digest misses data',
                )
    ctx.floor(rule, 'file digest assignments in the stream producer', n)


def src_expr(e):
    from ..astutil import src

    return src(e, 60) if e is not None else '?'


def zip_alignment(ctx, rule, f, what):
    """`zip(a, b)` pairs element i of a with element i of b: when b was computed element-wise from a list c and a is a
    filtered / different view of c, the pairs do not belong together (a verdict computed for one object is applied to another)."""
    from ..astutil import deref, src
    from .common import func_label, loc

    def base_of(e, depth=0):
        """(source list name, 'same' | 'subset' | 'map') for an expression derived from a named list"""
        if depth > 4:
            return None
        if isinstance(e, ast.Name):
            defs = [a.value for a in ast.walk(f.node) if isinstance(a, ast.Assign) and any(isinstance(t, ast.Name) and t.id == e.id for t in a.targets)]
            if not defs:
                return (e.id, 'same')
            bases = {base_of(d, depth + 1) for d in defs}
            if len(bases) == 1 and None not in bases:
                return next(iter(bases))
            return (e.id, 'same')
        if isinstance(e, ast.Await):
            return base_of(e.value, depth + 1)
        if isinstance(e, (ast.ListComp, ast.SetComp, ast.GeneratorExp)) and len(e.generators) == 1 and isinstance(e.generators[0].iter, ast.Name):
            src_ = e.generators[0].iter.id
            kind = 'subset' if e.generators[0].ifs else 'map'
            return (src_, kind)
        if isinstance(e, ast.Call):
            names = [a for a in e.args if isinstance(a, ast.Name)]
            fname = (e.func.attr if isinstance(e.func, ast.Attribute) else getattr(e.func, 'id', '')) or ''
            if fname in ('filter',) and len(e.args) == 2 and isinstance(e.args[1], ast.Name):
                return (e.args[1].id, 'subset')
            if fname in ('list', 'tuple', 'sorted', 'map', 'run_in_executor', 'submit', 'to_thread') or names:
                # a nested function run element-wise over a list of the enclosing scope (`for x in xs: out.append(g(x))`)
                nested = {d.name: d for d in ast.walk(f.node) if isinstance(d, (ast.FunctionDef, ast.AsyncFunctionDef)) and d is not f.node}
                for a_ in names:
                    d = nested.get(a_.id)
                    if d is not None:
                        loops = [l for l in ast.walk(d) if isinstance(l, (ast.For, ast.AsyncFor)) and isinstance(l.iter, ast.Name) and any(isinstance(c_, ast.Call) and isinstance(c_.func, ast.Attribute) and c_.func.attr == 'append' for c_ in ast.walk(l))]
                        params = {x.arg for x in d.args.posonlyargs + d.args.args + d.args.kwonlyargs}
                        if len(loops) == 1 and loops[0].iter.id not in params:
                            return (loops[0].iter.id, 'map')
                        if len(loops) == 1 and loops[0].iter.id in params:
                            others = [x for x in names if x.id not in nested]
                            if others:
                                return (others[-1].id, 'map')
                if names:
                    return (names[-1].id, 'map')
        if isinstance(e, ast.BinOp) and isinstance(e.op, ast.Mult):
            for side in (e.left, e.right):
                if isinstance(side, ast.Call) and getattr(side.func, 'id', '') == 'len' and side.args and isinstance(side.args[0], ast.Name):
                    return (side.args[0].id, 'map')
        return None

    n = 0
    for c in ast.walk(f.node):
        if isinstance(c, ast.Call) and isinstance(c.func, ast.Name) and c.func.id == 'zip' and len(c.args) == 2:
            n += 1
            a, b = base_of(c.args[0]), base_of(c.args[1])
            if a is None or b is None:
                continue
            bad = a[0] == b[0] and {a[1], b[1]} & {'subset'} and a[1] != b[1]
            ctx.check(
                not bad,
                rule,
                f'{func_label(f)}|zip-pairs-belong-together',
                loc(f, c),
                f'{what}: `{src(c, 60)}` pairs sequences of the same elements',
                f'{what}: `{src(c, 60)}` pairs a filtered view of `{a[0]}` with values computed for every element of `{b[0]}` (or the reverse): the i-th verdict belongs to a different object than the i-th element - '
                'objects are selected on the strength of another object\'s check',
            )
    return n


def adapter_delete_discipline(ctx, rule):
    """What the commands that remove objects rely on in every adapter's delete(name):
    (a) the removing request addresses the object called `name` - a request that removes "whatever a lookup returned"
        without comparing it with `name` removes a neighbour when the named object is already gone;
    (b) delete returns normally only when the object is gone afterwards: the only faults it may absorb are the store's
        "there is no such object" answers.  A refused removal (403, retention) reported as success lets
        delete_snapshots go on to remove the chunks of a snapshot that is still listed."""
    from ..cfg import cfg_of
    from .backends import backend_classes, own_methods, transport_calls

    corpus = ctx.corpus
    GONE = {'NOT_FOUND', 'no_such_file', 'already_hidden', 404, 'NoSuchKey', 'file_not_present'}
    n = 0
    for ci in backend_classes(corpus):
        d = own_methods(corpus, ci).get('delete')
        if d is None:
            continue
        n += 1
        ctx.analysed(d)
        name = d.node.args.args[1].arg if len(d.node.args.args) > 1 else None
        local = ci.module.rel.endswith('local.py')
        cfg = cfg_of(d.node)
        tcs = transport_calls(d, local)
        if not local:
            tcs = [c for c in tcs] + [c for c in calls_in(d.node) if (dotted(c.func) or '').startswith('self._make_request')]
        for c in tcs:
            st = enclosing_stmt(c)
            # names the call's arguments are computed from (one level of local definitions)
            mentioned = {x.id for a in list(c.args) + [k.value for k in c.keywords] + ([c.func.value] if isinstance(c.func, ast.Attribute) else []) for x in ast.walk(a) if isinstance(x, ast.Name)}
            frontier, seen = set(mentioned), set()
            while frontier:
                v = frontier.pop()
                if v in seen:
                    continue
                seen.add(v)
                for a in walk_local(d.node):
                    if isinstance(a, ast.Assign) and any(isinstance(t, ast.Name) and t.id == v for t in a.targets):
                        frontier |= {x.id for x in ast.walk(a.value) if isinstance(x, ast.Name)}
            carries = name in seen
            # lookups (GET-like listing helpers) are not removals
            is_lookup = any(w in (dotted(c.func) or '') for w in ('list', 'get', 'head'))
            if carries and not is_lookup:
                # the name must reach the REQUEST, not only an earlier lookup the request is built from
                direct = {x.id for a in list(c.args) + [k.value for k in c.keywords] + ([c.func.value] if isinstance(c.func, ast.Attribute) else []) for x in ast.walk(a) if isinstance(x, ast.Name)}
                frontier, seen2 = set(direct), set()
                via_lookup = False
                while frontier:
                    v = frontier.pop()
                    if v in seen2:
                        continue
                    seen2.add(v)
                    for a in walk_local(d.node):
                        if isinstance(a, ast.Assign) and any(isinstance(t, ast.Name) and t.id == v for t in a.targets):
                            if any(isinstance(x, (ast.Await, ast.Call)) and any(w in (dotted(getattr(x, 'func', None) or getattr(getattr(x, 'value', None), 'func', None)) or '') for w in ('list', '.get', 'head')) for x in ast.walk(a.value)):
                                via_lookup = True
                                continue
                            frontier |= {x.id for x in ast.walk(a.value) if isinstance(x, ast.Name)}
                carries = name in seen2
            if is_lookup:
                continue
            compared = any(isinstance(t, ast.Compare) and any(isinstance(o, (ast.Eq, ast.NotEq)) for o in t.ops) and any(isinstance(x, ast.Name) and x.id == name for x in ast.walk(t)) for t in ast.walk(d.node))
            ctx.check(
                carries or compared,
                rule,
                f'{func_label(d)}|removal-addresses-the-named-object',
                loc(d, c),
                f'{ci.name}.delete: the removing request `{src(c.func, 40)}(…)` is addressed by the `{name}` argument',
                f'{ci.name}.delete: the removing request `{src(c.func, 40)}(…)` is not built from `{name}` (it removes what an earlier lookup returned, without comparing that with `{name}`): '
                'deleting a name that is already gone removes another object - a chunk or snapshot that is still referenced',
            )
        for t in walk_local(d.node):
            if not isinstance(t, ast.Try):
                continue
            for h in t.handlers:
                caught = handler_catches(h)
                if caught and all(x.rsplit('.', 1)[-1] == 'FileNotFoundError' for x in caught):
                    continue
                gone_edges = []
                for i in [x for x in walk_local(d.node) if isinstance(x, ast.If)]:
                    consts = {x.value for x in ast.walk(i.test) if isinstance(x, ast.Constant)} | {x.attr for x in ast.walk(i.test) if isinstance(x, ast.Attribute)}
                    if consts & GONE:
                        gone_edges += cfg.nodes_of(i, 'true')
                swallow = None
                for hn in cfg.nodes_of(h, 'handler'):
                    swallow = swallow or cfg.path(hn, [cfg.exit], avoid=gone_edges)
                ctx.check(
                    swallow is None,
                    rule,
                    f'{func_label(d)}|delete-absorbs-only-already-gone',
                    loc(d, h),
                    f'{ci.name}.delete: a fault is absorbed only on the store\'s "no such object" answers',
                    f'{ci.name}.delete: the handler at line {h.lineno} lets delete return normally for a fault that is not "no such object" (e.g. a refused removal): the caller takes the object for gone - '
                    'delete_snapshots then removes the chunks of a snapshot that is still listed',
                )
    ctx.floor(rule, 'adapter delete methods', n, 3)


def queue_put_retries_until_done(ctx, rule):
    """The chunk producer hands every chunk to the workers: a put() that times out on a full queue is tried again until
    it succeeds; the only other way out is the abort flag.  A handler for queue.Full from which the producer can go on
    to the next chunk (or report the chunk as queued) drops that chunk: its table entry stays, its object is never
    uploaded and its ranges are never recorded."""
    from ..cfg import cfg_of

    corpus = ctx.corpus
    sn = corpus.func('repository', 'Repository.snapshot')
    n = 0
    for f in [sn] + list(sn.all_nested()):
        for t in walk_local(f.node):
            if not isinstance(t, ast.Try):
                continue
            puts = [c for st in t.body for c in ast.walk(st) if isinstance(c, ast.Call) and isinstance(c.func, ast.Attribute) and c.func.attr in ('put', 'put_nowait')]
            hs = [h for h in t.handlers if any(x.rsplit('.', 1)[-1] == 'Full' for x in handler_catches(h)) or is_catch_all(h)]
            if not puts or not hs:
                continue
            n += 1
            ctx.analysed(f)
            cfg = cfg_of(f.node)
            avoid = [x for c in puts for x in cfg.nodes_of(enclosing_stmt(c), ('stmt',))]
            # abort edges: the edge on which <event>.is_set() holds
            for s in walk_local(f.node):
                if isinstance(s, (ast.If, ast.While)):
                    tt, neg = s.test, False
                    while isinstance(tt, ast.UnaryOp) and isinstance(tt.op, ast.Not):
                        tt, neg = tt.operand, not neg
                    if isinstance(tt, ast.Call) and isinstance(tt.func, ast.Attribute) and tt.func.attr == 'is_set':
                        avoid += cfg.nodes_of(s, 'false' if neg else 'true')
            outer = [a for a in ancestors(t) if isinstance(a, (ast.For, ast.AsyncFor)) and is_within_(a, f.node)]
            targets = [cfg.exit] + [x for a in outer for x in cfg.nodes_of(a, 'loop')]
            drop = None
            for h in hs:
                for hn in cfg.nodes_of(h, 'handler'):
                    drop = drop or cfg.path(hn, targets, avoid=avoid)
            ctx.check(
                drop is None,
                rule,
                f'{func_label(f)}|full-queue-retries-the-put',
                loc(f, t),
                f'{f.name}: after queue.Full the same chunk is put again (or the abort flag ends the producer)',
                f'{f.name}: after queue.Full the producer can move on without the chunk having been queued: the chunk is in the table but is never uploaded and its ranges are never recorded '
                '(the snapshot references an object that was not stored / files lose ranges)',
            )
    # (a producer that blocks in put() without a time-out has no Full handler and drops nothing: no floor here)
    ctx.count('queue_put_full_handlers', n)


def is_within_(a, root):
    return any(a is x for x in ast.walk(root))


def no_negative_zero_slices(ctx, rule, funcs, what):
    """`seq[-n:]` is the LAST n items only when n > 0; for n == 0 it is the whole sequence.  Where n is computed (a
    remainder, a difference) the slice must be guarded by a test that n is non-zero - otherwise data is emitted twice
    exactly when the computed length is 0 (an input that is a multiple of the block size)."""
    from ..cfg import cfg_of

    n = 0
    for f in funcs:
        for s in walk_local(f.node):
            if not (isinstance(s, ast.Subscript) and isinstance(s.slice, ast.Slice) and s.slice.upper is None and s.slice.step is None and isinstance(s.slice.lower, ast.UnaryOp) and isinstance(s.slice.lower.op, ast.USub)):
                continue
            k = s.slice.lower.operand
            if isinstance(k, ast.Constant):
                continue
            n += 1
            ctx.analysed(f)
            names = {x.id for x in ast.walk(k) if isinstance(x, ast.Name)}
            guarded = False
            for a in ancestors(s):
                if a is f.node:
                    break
                if isinstance(a, (ast.If, ast.While, ast.IfExp)):
                    tn = {x.id for x in ast.walk(a.test) if isinstance(x, ast.Name)}
                    in_body = not any(s is x for o in (a.orelse if isinstance(a.orelse, list) else [a.orelse]) for x in ast.walk(o))
                    if tn & names and in_body and not (isinstance(a.test, ast.UnaryOp) and isinstance(a.test.op, ast.Not)):
                        guarded = True
            if not guarded:
                # guard clause: `if not n: return/continue` dominating the slice
                cfg = cfg_of(f.node)
                sn = cfg.nodes_of(enclosing_stmt(s), ('stmt',))
                for i in [x for x in walk_local(f.node) if isinstance(x, ast.If)]:
                    t = i.test
                    neg = isinstance(t, ast.UnaryOp) and isinstance(t.op, ast.Not)
                    tn = {x.id for x in ast.walk(t) if isinstance(x, ast.Name)}
                    if not (tn & names):
                        continue
                    edge = cfg.nodes_of(i, 'true' if neg or (isinstance(t, ast.Compare) and isinstance(t.ops[0], (ast.Eq, ast.LtE))) else 'false')
                    if sn and edge and cfg.path(cfg.entry, sn, avoid=[x for x in cfg.nodes_of(i, ('true', 'false')) if x not in edge]) is None:
                        pass
                    zero_edge = cfg.nodes_of(i, 'true') if (neg or (isinstance(t, ast.Compare) and isinstance(t.ops[0], (ast.Eq, ast.LtE)))) else cfg.nodes_of(i, 'false')
                    if sn and zero_edge and all(cfg.path(z, sn) is None for z in zero_edge):
                        guarded = True
            ctx.check(
                guarded,
                rule,
                f'{func_label(f)}|tail-slice-guarded-against-zero',
                loc(f, s),
                f'{f.name}: `{src(s, 40)}` is taken only when its length is non-zero',
                f'{f.name}: `{src(s, 40)}` is the WHOLE sequence when `{src(k, 30)}` is 0 (nothing guards that case): {what}',
            )
    ctx.count('computed_tail_slices', n)


FS_PROBES = {'os.stat', 'os.lstat', 'os.path.exists', 'os.path.isfile', 'os.path.getsize', 'os.path.getmtime', 'os.path.lexists', 'os.access', 'os.path.samefile'}
FS_PROBE_METHODS = {'exists', 'is_file', 'stat', 'lstat', 'samefile'}


def restore_ignores_target_state(ctx, rule):
    """What restore writes is decided by the snapshots alone.  It never inspects what the target path already holds
    (size, mtime, existence) to decide that a file "is already there": restore itself pre-allocates every target at its
    final length with a fresh mtime, so a failed run leaves files that pass any such test while holding zeros."""
    corpus = ctx.corpus
    cls = repo_cls(corpus)
    fn = corpus.func('repository', 'Repository.restore')
    seen, work = {}, [fn]
    while work:
        f = work.pop()
        if f.key in seen:
            continue
        seen[f.key] = f
        for g in f.all_nested():
            work.append(g)
        for c in calls_in(f.node):
            if isinstance(c.func, ast.Attribute) and isinstance(c.func.value, ast.Name) and c.func.value.id == 'self':
                m = cls.methods.get(c.func.attr)
                if m is not None and m.name not in ('restore_metadata', '_load_snapshots') and len(seen) < 40:
                    work.append(m)
    n = 0
    for f in seen.values():
        if f.name in ('_download_snapshot_threadsafe', '_get_cached', '_store_cached', '_delete_cached'):
            continue
        probes = [c for c in calls_in(f.node) if (dotted(c.func) or '') in FS_PROBES or (isinstance(c.func, ast.Attribute) and c.func.attr in FS_PROBE_METHODS and not (dotted(c.func) or '').startswith(('self.', 'os.')))]
        n += 1
        for c in probes:
            ctx.analysed(f)
        ctx.check(
            not probes,
            rule,
            f'{func_label(f)}|restore-does-not-probe-the-target',
            loc(f, probes[0]) if probes else loc(f, f.node),
            f'{f.name}: does not inspect existing files',
            f'{f.name}: `{src(probes[0], 60) if probes else ""}` inspects what is already on disk on the way through restore: a decision based on it (e.g. "same size and a recent mtime - already in place") '
            'accepts the zero-filled files a failed restore leaves behind - restore reports success over wrong bytes',
        )
    ctx.floor(rule, 'functions on the restore path', n, 3)


def run_flags_are_per_run(ctx, rule, commands=('snapshot', 'restore')):
    """The events a command uses to stop its own threads belong to that call.  An event that lives on the Repository
    object (set by one run or by close(), never cleared) is still set when the same object runs the command again: the
    producer / the loaders stop at once and the command "succeeds" with a snapshot that references chunks never
    uploaded, or files never written."""
    corpus = ctx.corpus
    cls = repo_cls(corpus)
    from ..cfg import cfg_of

    n = 0
    for cmd in commands:
        fn = corpus.func('repository', f'Repository.{cmd}')
        funcs = [fn] + list(fn.all_nested())
        for f in funcs:
            for c in calls_in(f.node):
                if not (isinstance(c.func, ast.Attribute) and c.func.attr in ('is_set', 'wait') and not c.args):
                    continue
                recv = c.func.value
                origin = None
                if isinstance(recv, ast.Attribute) and isinstance(recv.value, ast.Name) and recv.value.id == 'self':
                    origin = recv.attr
                elif isinstance(recv, ast.Name):
                    for g in funcs:
                        for a in walk_local(g.node):
                            if isinstance(a, ast.Assign) and any(isinstance(t, ast.Name) and t.id == recv.id for t in a.targets) and isinstance(a.value, ast.Attribute) and isinstance(a.value.value, ast.Name) and a.value.value.id == 'self':
                                origin = a.value.attr
                if c.func.attr == 'wait' and origin is None:
                    continue
                n += 1
                if origin is None:
                    continue
                ctx.analysed(f)
                # cleared at the start of the command?
                cfg = cfg_of(fn.node)
                clears = [enclosing_stmt(x) for x in calls_in(fn.node) if isinstance(x.func, ast.Attribute) and x.func.attr == 'clear' and isinstance(x.func.value, ast.Attribute) and x.func.value.attr == origin]
                clears += [a for a in walk_local(fn.node) if isinstance(a, ast.Assign) and any(isinstance(t, ast.Attribute) and t.attr == origin for t in a.targets)]
                cn = [x for s_ in clears for x in cfg.nodes_of(s_, ('stmt', 'ok'))]
                fresh = bool(cn) and cfg.path(cfg.entry, [cfg.exit], avoid=cn, kinds=('normal',)) is None
                ctx.check(
                    fresh,
                    rule,
                    f'{func_label(f)}|stop-flag-belongs-to-the-run:{origin}',
                    loc(f, c),
                    f'{cmd}: the stop flag self.{origin} is reset at the start of every run',
                    f'{cmd}: `{src(c, 40)}` consults self.{origin}, an event that lives on the Repository object and is not reset when {cmd} starts: once set (a failed run, close()) it stops the '
                    f'threads of every later {cmd} on this object at once - the command ends "successfully" with chunks never uploaded / files never written',
                )
    ctx.count('stop_flag_reads', n)
