"""Rules shared by several properties (each property reports them under its own
rule id)."""
from __future__ import annotations

import ast

from ..astutil import (
    ancestors,
    calls_in,
    dotted,
    enclosing_stmt,
    handler_catches,
    handler_reraises,
    is_catch_all,
    kwarg,
    src,
    walk_local,
)
from ..loader import FuncInfo
from .common import MAINT, TRANSFER, backend_refs, func_label, is_backend_ref, loc, reaches, repo_cls

# Exception classes that a handler may absorb around backend work without
# hiding a backend fault: none.  (FileNotFoundError/OSError can come from the
# local backend, ReplicatError from verification.)  Registered exceptions would
# be listed here with a one-line reason.
REGISTERED_SWALLOW = {}


def no_swallowed_backend_errors(ctx, rule, scope_pred=None, what='backend'):
    """Every `try` in Repository whose body reaches a backend transfer reference:
    each handler re-raises on all of its paths."""
    corpus = ctx.corpus
    cls = repo_cls(corpus)
    n_try = 0
    n_reach = 0
    for f in list(cls.methods.values()) + [n for m in cls.methods.values() for n in m.all_nested()]:
        if scope_pred is not None and not scope_pred(f):
            continue
        ctx.analysed(f)
        for t in walk_local(f.node):
            if not isinstance(t, ast.Try) or not t.handlers:
                continue
            n_try += 1
            if not _body_reaches_backend(corpus, f, t.body):
                continue
            n_reach += 1
            for h in t.handlers:
                if handler_reraises(h):
                    ctx.ok(rule, loc(f, h), f'handler ({", ".join(handler_catches(h)) or "bare"}) around {what} work re-raises [{f.qual}]')
                else:
                    ctx.fail(
                        rule,
                        f'{func_label(f)}|swallow:{",".join(handler_catches(h)) or "bare"}',
                        loc(f, h),
                        f'handler `except {", ".join(handler_catches(h)) or ""}` in {f.qual} absorbs an exception raised by {what} work '
                        f'(the try body reaches a backend call) and does not re-raise: a failed transfer is reported as success',
                        [f'try at {loc(f, t)}; body: {src(t.body[0], 90)}'],
                    )
    ctx.count('try_blocks_scanned', n_try)
    ctx.count('try_blocks_reaching_backend', n_reach)
    return n_reach


def _body_reaches_backend(corpus, f: FuncInfo, stmts) -> bool:
    methods = TRANSFER | MAINT | {'list_files'}

    def pred(n):
        return is_backend_ref(n, methods)

    cls = f.cls
    for st in stmts:
        for n in walk_local(st):
            if pred(n):
                return True
            tgt = None
            if isinstance(n, ast.Attribute) and isinstance(n.value, ast.Name) and n.value.id == 'self' and cls is not None:
                tgt = corpus.method(cls, n.attr)
            elif isinstance(n, ast.Name):
                cur = f
                while cur is not None and tgt is None:
                    tgt = cur.nested.get(n.id)
                    cur = cur.parent
            if tgt is not None and tgt is not f and reaches(corpus, tgt, pred, depth=4):
                return True
    return False


def gathers_propagate(ctx, rule, module_short='repository'):
    """No asyncio.gather(..., return_exceptions=<truthy>) in the module."""
    m = ctx.corpus.module(module_short)
    n = 0
    for f in m.all_functions:
        for c in calls_in(f.node, local=True):
            if dotted(c.func) in ('asyncio.gather', 'gather'):
                n += 1
                kw = kwarg(c, 'return_exceptions')
                bad = kw is not None and not (isinstance(kw, ast.Constant) and not kw.value)
                if bad:
                    ctx.fail(
                        rule,
                        f'{func_label(f)}|gather-return-exceptions',
                        loc(f, c),
                        f'asyncio.gather(..., return_exceptions={src(kw)}) in {f.qual}: failures of the gathered backend work are returned, not raised',
                    )
                else:
                    ctx.ok(rule, loc(f, c), f'gather propagates exceptions [{f.qual}]')
    ctx.count('gathers', n)
    return n


def control_gather_flag():
    """Positive control for the expected-zero rule: the matcher must fire on a
    tiny known-bad sample."""
    sample = 'import asyncio\nasync def f(xs):\n    await asyncio.gather(*xs, return_exceptions=True)\n'
    tree = ast.parse(sample)
    for c in ast.walk(tree):
        if isinstance(c, ast.Call) and dotted(c.func) == 'asyncio.gather':
            kw = kwarg(c, 'return_exceptions')
            return kw is not None and not (isinstance(kw, ast.Constant) and not kw.value)
    return False
