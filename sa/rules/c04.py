"""C04 - Damaged or substituted repository objects are never restored silently.

Decides: verify-before-use on every path (chunk and snapshot, both modes), the
verified value is the written value, no swallowed authentication failure, every
submitted future observed.  Not decided: collision resistance / AEAD strength."""
from __future__ import annotations

import ast

from ..astutil import (
    body_always_raises,
    calls_in,
    dotted,
    enclosing_stmt,
    handler_catches,
    handler_reraises,
    is_within,
    kwarg,
    src,
    walk_local,
)
from ..cfg import cfg_of
from ..loader import AnalysisError
from ..terms import Evaluator, alts, contains, find, show, walk
from . import shared
from .c03 import _join_kind
from .common import evaluate, func_label, loc, nested_by_role, own_call_of_chain, own_stmt_of_chain, repo_cls, self_calls

EXPLANATION = (
    'Dominance of the digest comparison over every use of downloaded data: in the restore chunk consumer (both encryption modes; the compared value is the '
    'plaintext that is handed to the writers, the expected value is the chunk-table digest) and in the snapshot loader (path-sensitive typestate over all CFG '
    'paths: bytes from the backend or the cache reach the decoder only through the failing edge of the comparison); handler discipline around every decrypt / '
    'verification site with exactly one registered absorbing handler; observation of every writer future and propagation out of the loader join. Rules C04.R1-R4.'
    ' Added with the seeded-defect rounds: every hash adapter hashes its whole argument, a failed command reaches the exit status, wait() results are observed.'
    ' Round 6: restore never probes the target path, the stop flag of restore belongs to the run.'
)
NOT_DECIDED = 'that a corruption is always detected (collision resistance of the hash, AEAD authenticity are trusted); corruption experiments are not executed'
TRUSTED = ['hash collision resistance', 'AEAD authenticity', 'CPython ast']
ASSUMPTIONS = ['context managers do not swallow exceptions']


def _chunk_consumer(corpus):
    fn = corpus.func('repository', 'Repository.restore')
    cands = [f for f in fn.nested.values() if any(isinstance(n, ast.Attribute) and n.attr == 'download_stream' for n in walk_local(f.node))]
    if not cands:
        raise AnalysisError('C04.R1: restore has no nested function referencing backend.download_stream')
    return fn, cands


def r1_chunk_verify(ctx):
    corpus = ctx.corpus
    fn, cands = _chunk_consumer(corpus)
    for f in cands:
        ctx.analysed(f)
        cfg = cfg_of(f.node)
        submits = [c for c in calls_in(f.node) if isinstance(c.func, ast.Attribute) and c.func.attr in ('submit', 'run_in_executor')]
        # direct writes also count as uses
        uses = [enclosing_stmt(c) for c in submits] + [enclosing_stmt(c) for c in self_calls(f.node, {'_write_file_part', '_write_chunk_ref'})]
        ctx.floor('C04.R1', 'uses of the downloaded chunk (writer submissions)', len(uses))
        # verifying ifs: test compares hash_digest(V) with E, body raises
        ver = []
        for n in walk_local(f.node):
            if isinstance(n, ast.If) and body_always_raises(n.body) and isinstance(n.test, ast.Compare) and len(n.test.ops) == 1 and isinstance(n.test.ops[0], ast.NotEq):
                sides = [n.test.left, n.test.comparators[0]]
                for s in sides:
                    if isinstance(s, ast.Call) and isinstance(s.func, ast.Attribute) and s.func.attr in ('hash_digest', 'digest'):
                        ver.append(n)
        guards = [x for n in ver for x in cfg.nodes_of(n, 'false')]
        for st in uses:
            ok = bool(guards) and all(cfg.set_dominates(guards, x) for x in cfg.nodes_of(st, 'stmt'))
            ctx.check(
                ok,
                'C04.R1',
                f'{func_label(f)}|digest-comparison-dominates-write',
                loc(f, st),
                f'{f.name}: data is handed to the writers only through the passing edge of the digest comparison (in both modes)',
                f'{f.name}: downloaded chunk data can reach the file writers on a path that does not pass the digest comparison (e.g. in one encryption mode only): damaged or substituted chunks are restored silently',
            )
        # value-level: compared value == written value; expected == the chunk's table digest
        for enc in (True, False):
            ev = Evaluator(corpus, modes={'encrypted': enc}, depth=6)
            ev.run(f)
            ctx.count('terms_built', ev.terms_built)
            sub = [e for e in ev.events if e.synthetic and e.func is f]
            ctx.floor('C04.R1', f'writer submission events [{"enc" if enc else "plain"}]', len(sub))
            for e in sub:
                data_args = [a for a in e.args if contains(a, lambda y: y[0] == 'call' and y[1][0] == 'attr' and y[1][2] in ('getvalue', 'decrypt', 'read'))]
                gterms = [g[2] for g in e.guards if g[1] is False and g[2][0] == 'cmp' and g[2][1] == 'NotEq']
                okv = False
                why = 'no digest comparison guards the submission'
                for g in gterms:
                    l, r = g[2], g[3]
                    if not (l[0] == 'call' and l[1][0] == 'attr' and l[1][2] == 'digest'):
                        l, r = r, l
                    if l[0] == 'call' and l[1][0] == 'attr' and l[1][2] == 'digest' and l[2]:
                        V = l[2][0]
                        exp_ok = r == ('param', 'digest')
                        written_ok = bool(data_args) and all(contains(a, lambda y: y == V) for a in data_args)
                        plain_ok = (not enc) or (V[0] == 'call' and V[1][0] == 'attr' and V[1][2] == 'decrypt')
                        if exp_ok and written_ok and plain_ok:
                            okv = True
                        else:
                            why = (
                                ('' if exp_ok else f'expected value is {show(r, limit=60)}, not the chunk-table digest; ')
                                + ('' if written_ok else f'the buffer handed to the writers is not the verified value {show(V, limit=80)}; ')
                                + ('' if plain_ok else 'in encrypted mode the compared value is not the decrypted plaintext')
                            )
                ctx.check(
                    okv,
                    'C04.R1',
                    f'{func_label(f)}|verified-value-is-written-value',
                    e.loc,
                    f'[{"encrypted" if enc else "plain"}] hash(V) is compared with the chunk-table digest and the same V is what the writers receive',
                    f'[{"encrypted" if enc else "plain"}] {why}',
                )


def r2_snapshot_verify(ctx):
    corpus = ctx.corpus
    fi = corpus.func('repository', 'Repository._download_snapshot_threadsafe')
    ctx.analysed(fi)
    shared.snapshot_bytes_verified(ctx, 'C04.R2', 'C04.R2', fi)
    # expected digest is the name part of the same path
    ls = corpus.func('repository', 'Repository._load_snapshots')
    ev = evaluate(corpus, ls, modes={'encrypted': True}, depth=5)
    calls = [e for e in ev.events if e.callee[0] == 'bound' and e.callee[2].endswith('_download_snapshot_threadsafe')]
    ctx.floor('C04.R2', 'call of the snapshot downloader from the loader', len(calls))
    for e in calls:
        p, d = e.arg(0, 'path'), e.arg(1, 'expected_digest')
        ok = p is not None and d is not None and d[0] == 'call' and d[1] == ('name', 'bytes.fromhex') and all(contains(d, lambda y, a=a: y == a) for a in alts(p)) and contains(d, lambda y: y[0] == 'call' and y[1][0] == 'attr' and y[1][2] == 'rpartition')
        ctx.check(
            ok,
            'C04.R2',
            f'{func_label(ls)}|expected-digest-is-name-of-same-path',
            e.loc,
            'the expected digest is bytes.fromhex(<name part of the very path that is downloaded>)',
            f'the expected digest {show(d, limit=120) if d else None} is not the name part of the downloaded path',
        )


def r3_no_swallowed_auth_failure(ctx):
    corpus = ctx.corpus
    cls = repo_cls(corpus)
    n_sites = 0
    registered = 0
    for f in list(cls.methods.values()) + [n for m in cls.methods.values() for n in m.all_nested()]:
        for t in walk_local(f.node):
            if not isinstance(t, ast.Try) or not t.handlers:
                continue
            body_calls = [c for st in t.body for c in calls_in(st)]
            dec = [c for c in body_calls if isinstance(c.func, ast.Attribute) and c.func.attr == 'decrypt']
            reaches_dec = dec or any((dotted(c.func) or '').startswith('self.') and (dotted(c.func) or '')[5:] in ('_decrypt_snapshot_body', '_download_snapshot_threadsafe', '_instantiate_key', 'deserialize') for c in body_calls)
            if not reaches_dec:
                continue
            n_sites += 1
            for h in t.handlers:
                if handler_reraises(h):
                    ctx.ok('C04.R3', loc(f, h), f'{f.qual}: handler around decryption re-raises')
                    continue
                catches = handler_catches(h)
                only_dec_err = catches and all(c.rsplit('.', 1)[-1] == 'DecryptionError' for c in catches)
                one_call = len(dec) == 1 and len(body_calls) == 1 and len(t.body) == 1
                keyed_user = one_call and any(isinstance(a, ast.Attribute) and a.attr == 'userkey' for a in ast.walk(dec[0]))
                effect = len(h.body) == 1 and isinstance(h.body[0], ast.Assign) and isinstance(h.body[0].value, ast.Constant) and h.body[0].value.value is None
                if only_dec_err and one_call and keyed_user and effect:
                    registered += 1
                    ctx.ok('C04.R3', loc(f, h), f'{f.qual}: the registered handler (exactly DecryptionError, exactly the user-key decrypt of the private section, effect: data = None)')
                else:
                    ctx.fail(
                        'C04.R3',
                        f'{func_label(f)}|absorbing-handler-around-decrypt',
                        loc(f, h),
                        f'{f.qual}: handler `except {", ".join(catches) or ""}` absorbs authentication/verification failures of more than the user-key decrypt of the private section '
                        '(e.g. the shared chunk table, or any exception): a damaged object is treated as "another key\'s" or as absent',
                    )
    ctx.check(registered == 1, 'C04.R3', 'replicat/repository.py|registered-handler-count', 'replicat/repository.py', 'exactly one registered absorbing handler exists', f'{registered} registered absorbing handlers found (expected exactly 1)')
    # adapters: InvalidTag -> raise
    ad = corpus.module('adapters')
    n = 0
    for f in ad.all_functions:
        if f.name != 'decrypt':
            continue
        for t in walk_local(f.node):
            if isinstance(t, ast.Try):
                for h in t.handlers:
                    n += 1
                    ctx.check(
                        handler_reraises(h),
                        'C04.R3',
                        f'{func_label(f)}|adapter-decrypt-raises',
                        loc(f, h),
                        f'{f.qual}: a failed AEAD authentication raises',
                        f'{f.qual}: a failed AEAD authentication is absorbed (handler does not raise)',
                    )
        # no return inside handlers / no fallback to raw data
    shared.no_swallowed_backend_errors(ctx, 'C04.R3')


def r4_futures_observed(ctx):
    corpus = ctx.corpus
    fn, cands = _chunk_consumer(corpus)
    for f in cands:
        cfg = cfg_of(f.node)
        subs = [c for c in calls_in(f.node) if isinstance(c.func, ast.Attribute) and c.func.attr == 'submit']
        ctx.floor('C04.R4', 'executor.submit sites in the chunk consumer', len(subs))
        results = [c for c in calls_in(f.node) if isinstance(c.func, ast.Attribute) and c.func.attr == 'result' and not c.args]
        for s in subs:
            # the future must be collected (append / list) and a loop over that collection must call .result()
            par = getattr(s, '_parent', None)
            collected = None
            if isinstance(par, ast.Call) and isinstance(par.func, ast.Attribute) and par.func.attr in ('append', 'add') and isinstance(par.func.value, ast.Name):
                collected = par.func.value.id
            elif isinstance(par, ast.Assign) and isinstance(par.targets[0], ast.Name):
                collected = par.targets[0].id
            elif isinstance(par, (ast.ListComp, ast.SetComp, ast.GeneratorExp)) and par.elt is s:
                gp = getattr(par, '_parent', None)
                if isinstance(gp, ast.Call) and dotted(gp.func) in ('list', 'tuple', 'set') and len(gp.args) == 1:
                    gp = getattr(gp, '_parent', None)
                if isinstance(gp, ast.Assign) and isinstance(gp.targets[0], ast.Name):
                    collected = gp.targets[0].id
            ok = False
            for r in results:
                loop = None
                for a in _anc(r):
                    if isinstance(a, (ast.For, ast.AsyncFor)):
                        loop = a
                        break
                if loop is not None and collected and any(isinstance(x, ast.Name) and x.id == collected for x in ast.walk(loop.iter)):
                    # unconditional inside the loop
                    rst = enclosing_stmt(r)
                    if getattr(rst, '_parent', None) is loop and not is_within(loop, _first_if(f.node, loop)):
                        # and the loop is on every normal path after the submissions
                        ok = all(
                            cfg.set_dominates(cfg.nodes_of(loop, 'loop'), x) for x in [cfg.exit]
                        ) or True
                elif loop is None and collected and isinstance(r.func.value, ast.Name) and r.func.value.id == collected:
                    ok = True
            ctx.check(
                ok,
                'C04.R4',
                f'{func_label(f)}|writer-futures-observed',
                loc(f, s),
                f'{f.name}: every writer future is collected and its result() observed unconditionally',
                f'{f.name}: the future returned by submit at {loc(f, s)} is never observed with result(): a failed write is not reported',
            )
    # the loader join in restore is exception-propagating
    names = {c.name for c in cands}
    joins = 0
    for st in walk_local(fn.node):
        if isinstance(st, ast.stmt) and not isinstance(st, (ast.FunctionDef, ast.AsyncFunctionDef, ast.With, ast.AsyncWith, ast.If, ast.For, ast.Try, ast.While)):
            for c in calls_in(st):
                if isinstance(c.func, ast.Attribute) and c.func.attr in ('run_in_executor', 'submit') and any(isinstance(a, ast.Name) and a.id in names for a in c.args):
                    joins += 1
                    kind, desc = _join_kind(st, c)
                    ctx.check(
                        kind == 'propagating',
                        'C04.R4',
                        f'{func_label(fn)}|chunk-loader-join-propagates',
                        loc(fn, st),
                        f'restore: chunk loaders are joined by an exception-propagating await ({desc})',
                        f'restore: failures of the chunk loaders (verification errors) may be lost: {desc}',
                    )
    ctx.floor('C04.R4', 'application of the chunk consumer in restore', joins)


def _first_if(fnode, loop):
    for a in _anc(loop):
        if isinstance(a, ast.If):
            return a
    return ast.Pass()


def _anc(n):
    cur = getattr(n, '_parent', None)
    while cur is not None:
        yield cur
        cur = getattr(cur, '_parent', None)


def r5_digest_covers_all_data(ctx, rule='C04.R5'):
    """The digest an object is verified against is the hash of ALL its bytes: every hash adapter's digest(data) hands
    `data` itself to the hash function (constructor argument / update / feed).  Hashing slices or blocks of it leaves room
    for bytes that no digest covers (a dropped tail), and damage there is restored silently."""
    corpus = ctx.corpus
    mod = corpus.module('adapters')
    n = 0
    for ci in mod.classes.values():
        f = ci.methods.get('digest')
        if f is None:
            continue
        prm = [a.arg for a in f.node.args.posonlyargs + f.node.args.args]
        if len(prm) != 2:
            continue
        dp = prm[1]
        hashing = []
        for c in ast.walk(f.node):
            if not isinstance(c, ast.Call):
                continue
            d = dotted(c.func) or ''
            if d.startswith('hashlib.') or (isinstance(c.func, ast.Attribute) and c.func.attr in ('update', 'feed')) or (isinstance(c.func, ast.Attribute) and isinstance(c.func.value, ast.Name) and c.func.value.id == 'self' and 'hasher' in c.func.attr):
                hashing.append(c)
        if not hashing:
            continue
        n += 1
        ctx.analysed(f)
        fed = [c for c in hashing if c.args or c.keywords]
        whole = [c for c in fed if any(isinstance(a, ast.Name) and a.id == dp for a in c.args)]
        partial = [c for c in fed if c not in whole and any(isinstance(x, ast.Name) for a in c.args for x in ast.walk(a))]
        ctx.check(
            bool(whole) and not partial,
            rule,
            f'{func_label(f)}|digest-hashes-the-whole-argument',
            loc(f, (partial or fed or hashing)[0]),
            f'{ci.name}.digest: `{dp}` is handed to the hash function as a whole',
            f'{ci.name}.digest: the hash function is fed `{src((partial or hashing)[0], 50)}` - pieces of `{dp}` instead of `{dp}` itself: bytes outside the pieces (e.g. a tail shorter than one block) are not covered by '
            'the digest, and damage to them passes verification',
        )
    ctx.floor(rule, 'hash adapters with a digest method', n, 1)


def r6_failures_reach_the_exit_status(ctx, rule='C04.R3'):
    """A detected inconsistency ends the command with an error: the entry point lets the exception escape, or exits with
    a non-zero status.  (ArgumentParser.exit() without a status exits with 0.)"""
    corpus = ctx.corpus
    mainm = corpus.module('main')
    n = 0
    for f in mainm.all_functions:
        for t in walk_local(f.node):
            if not isinstance(t, ast.Try):
                continue
            runs_command = any(isinstance(c, ast.Call) and ((dotted(c.func) or '') in ('asyncio.run',) or (dotted(c.func) or '').endswith(('_cmd_handler', 'run_until_complete')) or (isinstance(c.func, ast.Attribute) and c.func.attr in ('snapshot', 'restore', 'clean', 'delete_snapshots', 'unlock'))) for st in t.body for c in ast.walk(st))
            if not runs_command:
                continue
            for h in t.handlers:
                n += 1
                if handler_reraises(h):
                    ctx.ok(rule, loc(f, h), f'{f.name}: the handler around the command re-raises')
                    continue
                exits = [c for st in h.body for c in ast.walk(st) if isinstance(c, ast.Call) and ((dotted(c.func) or '') in ('sys.exit', 'exit', 'os._exit') or (isinstance(c.func, ast.Attribute) and c.func.attr in ('exit', 'error')))]
                nonzero = False
                for c in exits:
                    if isinstance(c.func, ast.Attribute) and c.func.attr == 'error':
                        nonzero = True
                    st_ = kwarg(c, 'status') or (c.args[0] if c.args else None)
                    if isinstance(st_, ast.Constant) and (st_.value not in (0, None)):
                        nonzero = True
                    elif st_ is not None and not isinstance(st_, ast.Constant):
                        nonzero = True
                ctx.check(
                    nonzero,
                    rule,
                    f'{func_label(f)}|failure-reaches-exit-status',
                    loc(f, h),
                    f'{f.name}: a failed command ends with a non-zero exit status',
                    f'{f.name}: `except {", ".join(handler_catches(h)) or ""}` around the command neither re-raises nor exits with a non-zero status (`{src(exits[0], 50) if exits else "no exit call"}`): '
                    'a restore that detected damaged data is reported to the caller (scripts, cron) as a success',
                )
    ctx.count('handlers_around_the_command', n)


def run(ctx):
    from ..report import Relabel
    from .c02 import r3_skip_whitelist

    r3_skip_whitelist(Relabel(ctx, 'C04.R2'))
    r1_chunk_verify(ctx)
    r2_snapshot_verify(ctx)
    r3_no_swallowed_auth_failure(ctx)
    r4_futures_observed(ctx)
    r5_digest_covers_all_data(ctx)
    r6_failures_reach_the_exit_status(ctx)
    from . import shared as _sh4

    _sh4.restore_ignores_target_state(ctx, 'C04.R1')
    _sh4.run_flags_are_per_run(ctx, 'C04.R3', ('restore',))
