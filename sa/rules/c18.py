"""C18 - The snapshot cache never changes what a command does.

Decides: every byte string entering snapshot decoding passed the digest
comparison on the cache path too (path-sensitive typestate), only verified bytes
are stored, the cache never widens the snapshot set, cache calls are guarded by
"cache enabled", cache helpers are idempotent/overwriting.
Not decided: equality of command results over multi-client cache histories."""
from __future__ import annotations

import ast

from ..astutil import ancestors, handler_catches, calls_in, const_value, dotted, enclosing_stmt, kwarg, src, walk_local
from ..cfg import cfg_of, deref_at
from ..loader import AnalysisError
from ..terms import contains, show
from . import shared
from .c02 import _is_tag_guard, _loader_chain
from .common import evaluate, func_label, is_list_files_elem, loc, repo_cls, self_calls, const_of

EXPLANATION = (
    'Path-sensitive typestate over all CFG paths of the snapshot downloader (source: cache read or backend download; sanitizer: failing edge of the digest '
    'comparison; sinks: the decoder and the cache store), provenance of the cache key (only backend-listed, tag-checked snapshot paths), guard dominance of '
    '"cache directory is not None" over every cache helper call, and the overwrite/idempotence constants of the three cache helpers. Rules C18.R1-R5.'
    ' Added with the seeded-defect rounds: the cache holds content-addressed snapshot objects only, reading commands cannot reach backend.delete.'
    ' Round 6: the cache directory is used outside the three helpers only in None tests, the helpers keep no memory, no re-acquisition of a non-reentrant lock.'
)
NOT_DECIDED = 'equality of command results over histories of several clients sharing or not sharing a cache (needs execution)'
TRUSTED = ['hash collision resistance', 'CPython ast']
ASSUMPTIONS = ['Path.write_bytes may be interrupted and leave any prefix (which is why R1 is required)']

CACHE_HELPERS = {'_get_cached', '_store_cached', '_delete_cached'}


def r1_r2(ctx):
    fi = ctx.corpus.func('repository', 'Repository._download_snapshot_threadsafe')
    ctx.analysed(fi)
    shared.snapshot_bytes_verified(ctx, 'C18.R1', 'C18.R2', fi)


def r3_never_widens(ctx):
    corpus = ctx.corpus
    cls = repo_cls(corpus)
    SNAP = const_of(corpus, cls, 'SNAPSHOT_PREFIX')
    ls = corpus.func('repository', 'Repository._load_snapshots')
    ev = evaluate(corpus, ls, modes={'encrypted': True}, depth=6)
    gets = [e for e in ev.events if e.callee[0] == 'bound' and e.callee[2].endswith('Repository._get_cached')]
    ctx.floor('C18.R3', '_get_cached reached from the loader', len(gets))
    for e in gets:
        p = e.arg(0, 'path')
        ctx.check(
            p is not None and is_list_files_elem(p, SNAP),
            'C18.R3',
            f'{func_label(ls)}|cache-key-is-listed-path',
            e.loc,
            'the cache is consulted only for paths returned by the backend listing of the snapshot prefix',
            f'the cache key {show(p, limit=100) if p else None} is not a backend-listed snapshot path',
        )
    # nobody enumerates the cache directory
    n = 0
    for m in corpus.module('repository').all_functions:
        for c in calls_in(m.node):
            nm = (dotted(c.func) or src(c.func)).rsplit('.', 1)[-1]
            if nm in ('iterdir', 'scandir', 'glob', 'rglob', 'walk', 'listdir', 'iterative_scandir'):
                uses_cache = any(isinstance(a, ast.Attribute) and a.attr == '_cache_directory' for a in ast.walk(c))
                n += 1
                ctx.check(
                    not uses_cache,
                    'C18.R3',
                    f'{func_label(m)}|no-cache-directory-enumeration',
                    loc(m, c),
                    f'{m.qual}: directory enumeration does not touch the cache directory',
                    f'{m.qual}: enumerates the cache directory - cached entries could widen the snapshot set',
                )
    # positive control for the expected-zero matcher
    sample = ast.parse('def f(self):\n    return list(Path(self._cache_directory).iterdir())\n')
    hit = any(isinstance(c, ast.Call) and isinstance(c.func, ast.Attribute) and c.func.attr == 'iterdir' and any(isinstance(a, ast.Attribute) and a.attr == '_cache_directory' for a in ast.walk(c)) for c in ast.walk(sample))
    if not hit:
        raise AnalysisError('C18.R3: positive control failed')
    # the tag / filter gate precedes the cache read (cache never bypasses ownership)
    _, entries, chain = _loader_chain(corpus)
    for f in entries:
        cfg = cfg_of(f.node)
        from .guards import guard_edges

        _skip, g, _found = guard_edges(f.node, kinds=('tag',))
        for c in self_calls(f.node, {'_download_snapshot_threadsafe', '_get_cached'}):
            st = enclosing_stmt(c)
            ctx.check(
                bool(g) and all(cfg.set_dominates(g, x) for x in cfg.nodes_of(st, 'stmt')),
                'C18.R3',
                f'{func_label(f)}|ownership-test-precedes-cache',
                loc(f, st),
                'the ownership-tag test is passed before the cache (or the backend) is consulted - a cached entry cannot bypass it',
                'a cached snapshot can be used without passing the ownership-tag test that a cache-less run applies',
            )


def _cache_enabled_edges(fn_node, cfg, i):
    """edge nodes of an if/while on which `self._cache_directory is not None` is known (the test may be negated, kept in
    a local, or be one conjunct of an `and`)"""
    def lit(e, depth=0):
        neg = False
        while isinstance(e, ast.UnaryOp) and isinstance(e.op, ast.Not):
            e, neg = e.operand, not neg
        if isinstance(e, ast.Name) and depth < 3:
            d = deref_at(fn_node, e)
            if d is not e:
                r = lit(d, depth + 1)
                return None if r is None else (r != neg)
        if isinstance(e, ast.Compare) and len(e.ops) == 1 and isinstance(e.left, ast.Attribute) and e.left.attr == '_cache_directory' and isinstance(e.comparators[0], ast.Constant) and e.comparators[0].value is None:
            if isinstance(e.ops[0], (ast.IsNot, ast.NotEq)):
                return not neg
            if isinstance(e.ops[0], (ast.Is, ast.Eq)):
                return neg
        return None

    t = i.test
    v = lit(t)
    if v is not None:
        return cfg.nodes_of(i, 'true' if v else 'false')
    if isinstance(t, ast.BoolOp):
        lits = [lit(x) for x in t.values]
        if isinstance(t.op, ast.And) and True in lits:
            return cfg.nodes_of(i, 'true')
        if isinstance(t.op, ast.Or) and False in lits:
            return cfg.nodes_of(i, 'false')
    return []


def r3b_cache_holds_snapshot_objects_only(ctx):
    """The cache is keyed by storage path and shared by every repository of the user: it is safe only for objects whose
    path determines their content - snapshot objects (the name is the digest).  The helpers are therefore used by the
    snapshot loader (read / store / discard) and by the deleting commands (discard) only, never with a fixed name such
    as `config`, whose content differs from repository to repository and is not verified against anything."""
    corpus = ctx.corpus
    cls = repo_cls(corpus)
    n = 0
    for f in list(cls.methods.values()) + [x for m in cls.methods.values() for x in m.all_nested()]:
        if f.name in CACHE_HELPERS:
            continue
        for c in self_calls(f.node, CACHE_HELPERS):
            n += 1
            top = f
            while top.parent is not None:
                top = top.parent
            helper = (dotted(c.func) or '').rsplit('.', 1)[-1]
            arg = c.args[0] if c.args else None
            fixed = isinstance(arg, (ast.Constant, ast.JoinedStr)) or (isinstance(arg, ast.Attribute) and arg.attr.isupper())
            def _allowed(tname):
                return tname.startswith('_download_snapshot') or tname == '_load_snapshots' or (helper == '_delete_cached' and tname in ('delete_snapshots', 'delete_objects'))

            where_ok = _allowed(top.name)
            if not where_ok and top.parent is None:
                # a private helper method: judged by who uses it
                users = set()
                for g in list(cls.methods.values()) + [x for m_ in cls.methods.values() for x in m_.all_nested()]:
                    if g is top or any(g is y for y in top.all_nested()):
                        continue
                    if any(isinstance(a_, ast.Attribute) and a_.attr == top.name for a_ in ast.walk(g.node)):
                        gt = g
                        while gt.parent is not None:
                            gt = gt.parent
                        users.add(gt.name)
                where_ok = top.name.startswith('_') and all(_allowed(u) for u in users)
            ctx.check(
                not fixed and where_ok,
                'C18.R3',
                f'{func_label(f)}|cache-holds-snapshot-objects-only:{helper}',
                loc(f, c),
                f'{f.qual}: {helper} is applied to a snapshot object path inside the snapshot loader / a deleting command',
                f'{f.qual}: `{src(c, 60)}` uses the snapshot cache for something that is not a content-addressed snapshot object (or outside the loader): the cache is shared by all repositories of '
                'the user and nothing verifies such an entry - a second repository is unlocked with the first one\'s config, a truncated entry is trusted',
            )
    ctx.floor('C18.R3', 'cache helper call sites', n, 3)


def r4_disabled_untouched(ctx):
    corpus = ctx.corpus
    cls = repo_cls(corpus)
    n = 0
    for f in list(cls.methods.values()) + [x for m in cls.methods.values() for x in m.all_nested()]:
        if f.name in CACHE_HELPERS:
            continue
        calls = list(self_calls(f.node, CACHE_HELPERS))
        if not calls:
            continue
        ctx.analysed(f)
        cfg = cfg_of(f.node)
        g = []
        for i in walk_local(f.node):
            if isinstance(i, (ast.If, ast.While)):
                g += _cache_enabled_edges(f.node, cfg, i)
        for c in calls:
            n += 1
            st = enclosing_stmt(c)
            ok = bool(g) and all(cfg.set_dominates(g, x) for x in cfg.nodes_of(st, 'stmt'))
            ctx.check(
                ok,
                'C18.R4',
                f'{func_label(f)}|cache-call-guarded:{dotted(c.func)}',
                loc(f, c),
                f'{f.qual}: {dotted(c.func)} only when the cache directory is not None',
                f'{f.qual}: {dotted(c.func)} is reachable with the cache disabled (cache_directory is None) - a cache-less run would crash or touch the disk',
            )
    ctx.floor('C18.R4', 'cache helper call sites', n, 3)


def r5_helpers(ctx):
    corpus = ctx.corpus
    cls = repo_cls(corpus)
    st = corpus.method(cls, '_store_cached')
    ge = corpus.method(cls, '_get_cached')
    de = corpus.method(cls, '_delete_cached')
    for f in (st, ge, de):
        if f is None:
            raise AnalysisError('C18.R5: cache helper missing')
        ctx.analysed(f)
    # store: overwrite semantics, parents created idempotently
    writes = [c for c in calls_in(st.node) if isinstance(c.func, ast.Attribute) and c.func.attr in ('write_bytes', 'open')] + [c for c in calls_in(st.node) if dotted(c.func) == 'open']
    ctx.floor('C18.R5', 'write in _store_cached', len(writes))
    for c in writes:
        mode = None
        if (isinstance(c.func, ast.Attribute) and c.func.attr == 'open') or dotted(c.func) == 'open':
            idx = 0 if isinstance(c.func, ast.Attribute) else 1
            m = c.args[idx] if len(c.args) > idx else kwarg(c, 'mode')
            mode = const_value(m) if m is not None else 'r'
        ok = mode is None or (isinstance(mode, str) and 'x' not in mode and ('w' in mode))
        ctx.check(
            ok,
            'C18.R5',
            f'{func_label(st)}|store-overwrites',
            loc(st, c),
            '_store_cached overwrites an existing entry (two clients may store the same entry)',
            f'_store_cached opens the entry with mode {mode!r}: storing an entry another client stored meanwhile fails - the command fails only because of the cache',
        )
    mk = [c for c in calls_in(st.node) if isinstance(c.func, ast.Attribute) and c.func.attr in ('mkdir', 'makedirs')]
    for c in mk:
        eo = kwarg(c, 'exist_ok')
        ctx.check(
            eo is not None and const_value(eo) is True,
            'C18.R5',
            f'{func_label(st)}|mkdir-idempotent',
            loc(st, c),
            '_store_cached creates the entry directory with exist_ok=True',
            '_store_cached: mkdir without exist_ok=True fails when the directory already exists',
        )
    un = [c for c in calls_in(de.node) if isinstance(c.func, ast.Attribute) and c.func.attr == 'unlink']
    ctx.floor('C18.R5', 'unlink in _delete_cached', len(un))
    for c in un:
        mo = kwarg(c, 'missing_ok')
        ctx.check(
            mo is not None and const_value(mo) is True,
            'C18.R5',
            f'{func_label(de)}|delete-idempotent',
            loc(de, c),
            '_delete_cached tolerates a missing entry (missing_ok=True)',
            '_delete_cached fails when the entry is not cached: deleting a snapshot that was never cached fails only with the cache enabled',
        )
    # a vanished entry is a miss, not an error: the read of the entry is protected by a FileNotFoundError handler
    # (in the helper or around its call) - an existence test before the read does not protect against another client's delete
    def _protected(fi, node):
        for a_ in ancestors(node):
            if isinstance(a_, ast.Try) and any(x is node for b_ in a_.body for x in ast.walk(b_)):
                for h_ in a_.handlers:
                    names_ = handler_catches(h_)
                    if not names_ or any(n_.rsplit('.', 1)[-1] in ('FileNotFoundError', 'OSError', 'Exception', 'BaseException') for n_ in names_):
                        return True
        return False

    reads = [c for c in calls_in(ge.node) if isinstance(c.func, ast.Attribute) and c.func.attr in ('read_bytes', 'open', 'read')]
    inner_ok = bool(reads) and all(_protected(ge, c) for c in reads)
    dl_ = corpus.func('repository', 'Repository._download_snapshot_threadsafe')
    outer = list(self_calls(dl_.node, {'_get_cached'}))
    outer_ok = bool(outer) and all(_protected(dl_, c) for c in outer)
    ctx.check(
        inner_ok or outer_ok,
        'C18.R5',
        f'{func_label(ge)}|vanished-entry-is-a-miss',
        loc(ge, ge.node),
        'a cache entry that disappears (another client deletes it) is treated as a miss: the read is under a FileNotFoundError handler',
        'the cache read is not protected by a FileNotFoundError handler (e.g. an is_file() test followed by the read): an entry removed by another client in between makes the command fail only because the cache is on',
    )
    # the helpers touch their own entry only: removing / renaming directories races with another loader's mkdir + write
    for f in (st, ge, de):
        other = [c for c in calls_in(f.node) if isinstance(c.func, ast.Attribute) and c.func.attr in ('rmdir', 'removedirs', 'rmtree', 'rename', 'replace', 'touch')] + [c for c in calls_in(f.node) if (dotted(c.func) or '') in ('os.rmdir', 'os.removedirs', 'shutil.rmtree', 'os.rename', 'os.replace')]
        ctx.check(
            not other,
            'C18.R5',
            f'{func_label(f)}|helper-touches-own-entry-only',
            loc(f, other[0]) if other else loc(f, f.node),
            f'{f.name} reads / writes / unlinks its own entry only',
            f'{f.name}: `{src(other[0], 50) if other else ""}` changes the cache directory structure: a concurrent loader that has just created the directory for a sibling entry fails to write it and the command fails only because the cache is on',
        )
    # all three address the same file: Path(self._cache_directory, path)
    shapes = set()
    for f in (st, ge, de):
        for c in calls_in(f.node):
            if dotted(c.func) in ('Path', 'pathlib.Path') and len(c.args) == 2:
                shapes.add(ast.dump(c))
    ctx.check(len(shapes) == 1, 'C18.R5', 'replicat/repository.py|cache-helpers-address-same-file', loc(st, st.node), 'get/store/delete address the same file Path(cache_directory, path)', f'cache helpers build the entry path differently ({len(shapes)} shapes)')
    # the missing-entry handler around the cache read catches exactly FileNotFoundError
    dl = corpus.func('repository', 'Repository._download_snapshot_threadsafe')
    for t in walk_local(dl.node):
        if isinstance(t, ast.Try) and any(True for s in t.body for _ in self_calls(s, {'_get_cached'})):
            for h in t.handlers:
                names = handler_catches(h)
                ctx.check(
                    names == ['FileNotFoundError'],
                    'C18.R5',
                    f'{func_label(dl)}|cache-miss-handler-exact',
                    loc(dl, h),
                    'a cache miss is exactly FileNotFoundError; other read errors propagate',
                    f'the cache-read handler catches {names or "everything"}: other failures are treated as a miss or absorbed',
                )


def r7_cache_is_consulted_through_the_helpers(ctx):
    """(a) The cache directory is touched only by the three helpers; elsewhere `self._cache_directory` appears only in
    `is None` / `is not None` tests.  A command that looks into the directory itself (e.g. "a cached name exists, so the
    object exists") makes its result depend on what the cache happens to hold.
    (b) The helpers keep no memory of the directory: their only instance state is `_cache_directory` (and a lock).  A
    remembered "this sub-directory exists" is wrong as soon as another process / an interrupted run removed it.
    (c) No helper re-acquires a non-reentrant lock it is called under."""
    corpus = ctx.corpus
    cls = repo_cls(corpus)
    helpers = {'_store_cached', '_get_cached', '_delete_cached'}
    n = 0
    for m in cls.methods.values():
        for f in [m] + list(m.all_nested()):
            for a in walk_local(f.node):
                if not (isinstance(a, ast.Attribute) and a.attr == '_cache_directory' and isinstance(a.value, ast.Name) and a.value.id == 'self'):
                    continue
                n += 1
                if m.name in helpers or m.name == '__init__':
                    continue
                par = getattr(a, '_parent', None)
                ok = isinstance(par, ast.Compare) and len(par.ops) == 1 and isinstance(par.ops[0], (ast.Is, ast.IsNot)) and isinstance(par.comparators[0], ast.Constant) and par.comparators[0].value is None
                ok = ok or (isinstance(a.ctx, ast.Store))
                ctx.analysed(f)
                ctx.check(
                    ok,
                    'C18.R4',
                    f'{func_label(f)}|cache-directory-only-through-helpers',
                    loc(f, a),
                    f'{f.name}: only tests whether the cache is enabled',
                    f'{f.name}: uses the cache directory itself (`{src(enclosing_stmt(a), 80)}`), outside _get_cached / _store_cached / _delete_cached: what the command does now depends on what the cache happens to contain',
                )
    ctx.floor('C18.R4', 'uses of self._cache_directory', n, 5)
    locks = set()
    init = cls.methods.get('__init__')
    if init is not None:
        for st in walk_local(init.node):
            if isinstance(st, ast.Assign) and isinstance(st.value, ast.Call) and (dotted(st.value.func) or '').rsplit('.', 1)[-1] in ('Lock', 'Semaphore', 'BoundedSemaphore'):
                locks |= {t.attr for t in st.targets if isinstance(t, ast.Attribute)}
    for nm in sorted(helpers):
        f = cls.methods.get(nm)
        if f is None:
            continue
        attrs = sorted({a.attr for a in ast.walk(f.node) if isinstance(a, ast.Attribute) and isinstance(a.value, ast.Name) and a.value.id == 'self'} - {'_cache_directory'} - locks)
        ctx.check(
            not attrs,
            'C18.R5',
            f'{func_label(f)}|helper-keeps-no-memory',
            loc(f, f.node),
            f'{nm}: consults the file system only (no instance state besides the directory)',
            f'{nm}: keeps / reads instance state `self.{attrs[0] if attrs else ""}` about the cache: what it remembers is wrong once another process, another Repository object or an interrupted run changed the directory '
            '(e.g. a sub-directory removed after it was "seen" makes the store fail, only with the cache on)',
        )
    # (c) re-acquisition of a non-reentrant lock
    def holds(fn_node, lock):
        return [w for w in ast.walk(fn_node) if isinstance(w, (ast.With, ast.AsyncWith)) and any(isinstance(i.context_expr, ast.Attribute) and i.context_expr.attr == lock and isinstance(i.context_expr.value, ast.Name) and i.context_expr.value.id == 'self' for i in w.items)]

    def acquires(mname, lock, depth=0, seen=()):
        m = cls.methods.get(mname)
        if m is None or depth > 3 or mname in seen:
            return False
        if holds(m.node, lock):
            return True
        return any(acquires(c.func.attr, lock, depth + 1, seen + (mname,)) for c in ast.walk(m.node) if isinstance(c, ast.Call) and isinstance(c.func, ast.Attribute) and isinstance(c.func.value, ast.Name) and c.func.value.id == 'self')

    for lock in sorted(locks):
        for m in cls.methods.values():
            for w in holds(m.node, lock):
                for c in [c for st in w.body for c in ast.walk(st) if isinstance(c, ast.Call) and isinstance(c.func, ast.Attribute) and isinstance(c.func.value, ast.Name) and c.func.value.id == 'self']:
                    bad = acquires(c.func.attr, lock)
                    nested_with = any(w2 is not w for st in w.body for w2 in holds(st, lock))
                    ctx.check(
                        not bad and not nested_with,
                        'C18.R5',
                        f'{func_label(m)}|lock-not-reacquired:{lock}',
                        loc(m, c),
                        f'{m.name}: `self.{c.func.attr}()` called under self.{lock} does not take that lock again',
                        f'{m.name}: `self.{c.func.attr}()` is called while self.{lock} (a non-reentrant lock) is held and takes it again: the thread blocks on itself - the command hangs, only with the cache on',
                    )


def run(ctx):
    from ..report import Relabel
    from .c02 import r3_skip_whitelist

    r3_skip_whitelist(Relabel(ctx, 'C18.R6'))
    r1_r2(ctx)
    r3b_cache_holds_snapshot_objects_only(ctx)
    # a damaged cache entry costs a download, never an object of the store: reading commands cannot reach backend.delete
    shared.deletion_confined_to_gc_commands(ctx, 'C18.R5')
    r3_never_widens(ctx)
    r4_disabled_untouched(ctx)
    r5_helpers(ctx)
    r7_cache_is_consulted_through_the_helpers(ctx)
